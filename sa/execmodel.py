"""Path summaries of `Request.execute(context)` for the data-access requests
(shared by C04, C05, C09, C14)."""
import ast

from .common import Ctx, U, annotate, constraints, callee_name, AnalysisError, _UNKNOWN
from .loader import Cls
from .sym import Poly, NotInt

DATA_ACCESS = {
    1: 'pymodbus.bit_read_message.ReadCoilsRequest',
    2: 'pymodbus.bit_read_message.ReadDiscreteInputsRequest',
    3: 'pymodbus.register_read_message.ReadHoldingRegistersRequest',
    4: 'pymodbus.register_read_message.ReadInputRegistersRequest',
    5: 'pymodbus.bit_write_message.WriteSingleCoilRequest',
    6: 'pymodbus.register_write_message.WriteSingleRegisterRequest',
    15: 'pymodbus.bit_write_message.WriteMultipleCoilsRequest',
    16: 'pymodbus.register_write_message.WriteMultipleRegistersRequest',
    22: 'pymodbus.register_write_message.MaskWriteRegisterRequest',
    23: 'pymodbus.register_read_message.ReadWriteMultipleRegistersRequest',
}


class Op:
    def __init__(self, kind, call, ev, index, polarity=None):
        self.kind, self.call, self.ev, self.index, self.polarity = kind, call, ev, index, polarity

    def __repr__(self):
        return '%s(%s)%s' % (self.kind, ', '.join(U(a) for a in self.call.args),
                             '' if self.polarity is None else '=%s' % self.polarity)


class ExecPath:
    def __init__(self):
        self.ops = []
        self.cons = []        # list of (index, constraint)
        self.ret = None       # ('exception', code, fc_expr) | ('response', Cls, call) | ('other', node) | ('raise', name)
        self.path = None
        self.state = None

    def cons_before(self, index):
        return [c for i, c in self.cons if i < index]

    def all_cons(self):
        return [c for _, c in self.cons]


def class_of_call(cx, call, mod):
    """resolve the callee of a Call to a class of the package (constructor call)"""
    if isinstance(call, ast.Call) and isinstance(call.func, ast.Name):
        r = cx.idx.lookup(mod, call.func.id)
        if r and r[0] == 'class':
            return r[1]
    return None


def exec_paths(cx, cls, func=None):
    """enumerate execute() of request class `cls` (concrete receiver)"""
    f = func or cx.method(cls, 'execute')
    if len(f.params) < 2:
        raise AnalysisError('%s has no context parameter' % f.qn)
    ctxname = f.params[1]
    nz = cx.nz(f.mod, cls)
    out = []
    for p in cx.enum(f, cls, max_depth=2):
        st = annotate(p)
        ep = ExecPath()
        ep.path, ep.state = p, st
        for i, ev in enumerate(p.ev):
            if ev.kind == 'cond':
                sub = ev._sub
                if isinstance(sub, ast.Call) and isinstance(sub.func, ast.Attribute) and U(sub.func.value) == ctxname \
                        and sub.func.attr == 'validate':
                    ep.ops.append(Op('validate', sub, ev, i, ev.a))
                else:
                    fnz = cx.nz(ev.frame.func.mod, ev.frame.cls) if ev.frame.func is not None else nz
                    for c in constraints(sub, ev.a, fnz):
                        ep.cons.append((i, c))
            elif ev.kind == 'call':
                sub = ev._sub
                if isinstance(sub.func, ast.Attribute) and U(sub.func.value) == ctxname:
                    if sub.func.attr in ('getValues', 'setValues'):
                        ep.ops.append(Op('get' if sub.func.attr == 'getValues' else 'set', sub, ev, i))
                    elif sub.func.attr == 'validate':
                        # validate not used directly as a branch condition
                        if not any(o.ev.node is ev.node for o in ep.ops):
                            ep.ops.append(Op('validate-call', sub, ev, i))
        # a validate whose result is the branch condition appears both as call and cond: drop the call twin
        conds = {id(o.ev.node) for o in ep.ops if o.kind == 'validate'}
        ep.ops = [o for o in ep.ops if not (o.kind == 'validate-call' and id(o.ev.node) in conds)]
        ep.ops.sort(key=lambda o: o.index)
        if p.exit and p.exit[0] == 'exc':
            ep.ret = ('raise', p.exit[1])
        else:
            r = None
            for ev in reversed(p.ev):
                if ev.kind == 'return' and ev.frame.fid == 0:
                    r = getattr(ev, '_sub', None)
                    rmod = ev.frame.func.mod
                    break
            if r is None:
                ep.ret = ('other', None)
            else:
                k = class_of_call(cx, r, rmod) or _class_any(cx, r)
                if k is not None and k.name == 'ExceptionResponse':
                    code = cx.ce.try_ev(r.args[1], f.mod, cls, env={'self': cls}, default=None) if len(r.args) > 1 else None
                    if code is None and len(r.args) > 1:
                        code = cx.ce.try_ev(r.args[1], cx.idx.mod('pymodbus.pdu'), None, default=None)
                    ep.ret = ('exception', code, r.args[0] if r.args else None)
                elif k is not None:
                    ep.ret = ('response', k, r)
                else:
                    ep.ret = ('other', r)
        out.append(ep)
    return f, out


def _class_any(cx, call):
    if isinstance(call, ast.Call) and isinstance(call.func, ast.Name):
        for m in cx.idx.mods.values():
            if call.func.id in m.classes and m.name.startswith('pymodbus.') and m.name.count('.') == 1:
                return m.classes[call.func.id]
    return None


# ----------------------------------------------------------- list lengths
def init_facts(cx, cls):
    """attribute relations established by every path of __init__ (attribute reads are kept
    symbolic): {'self.count': Poly(len(self.values)), ...}; None for path-dependent ones."""
    nz = cx.nz(cls.mod, cls)
    init_eq = {}
    init = cx.idx.find_method(cls, '__init__')
    if init is None:
        return {}
    npaths = 0
    for p in cx.enum(init, cls, max_depth=2):
        if p.exit and p.exit[0] == 'exc':
            continue
        npaths += 1
        st = annotate(p, heap=False)
        # `count = len(values); self.values = values; self.count = count`: a local that is stored in an attribute names that attribute
        alias = {}
        xalias = {}     # the same for a value that is not a plain name (kwargs['values'], kwargs.get('values', None)): keyed by its dump
        for key, val in st.heap.items():
            if key.startswith('self.') and '[' not in key and isinstance(val, ast.Name):
                alias.setdefault(val.id, key)
            elif key.startswith('self.') and '[' not in key and isinstance(val, (ast.Subscript, ast.Call)) and not any(
                    isinstance(x, ast.Attribute) and U(x).startswith('self.') for x in ast.walk(val)):
                xalias.setdefault(ast.dump(val), key)

        def canon_(e, own=None):
            if not alias and not xalias:
                return e
            from .loader import clone as _clone

            class T(ast.NodeTransformer):
                def visit(self, n):
                    if isinstance(n, (ast.Subscript, ast.Call)) and xalias and ast.dump(n) in xalias and xalias[ast.dump(n)] != own:
                        return ast.parse(xalias[ast.dump(n)], mode='eval').body
                    return super().visit(n)

                def visit_Name(self, n):
                    if n.id in alias:
                        return ast.parse(alias[n.id], mode='eval').body
                    return n
            return T().visit(_clone(e))
        for key, val in st.heap.items():
            if not key.startswith('self.'):
                continue
            if not (isinstance(val, ast.Name) and alias.get(val.id) == key):
                val = canon_(val, own=key)      # the attribute's own defining expression is not replaced by the attribute, its parts are
            try:
                v = nz.norm(val)
            except NotInt:
                v = ('expr', nz.canon(val))
            if key in init_eq and init_eq[key] != v:
                init_eq[key] = None
            elif key not in init_eq:
                init_eq[key] = v
    return init_eq


def decode_list_spans(cx, cls):
    """From the reader summary of decode(): for every list attribute that is reset and then grown by one
    append per iteration of a range loop: {attr: (span Poly over self.<attr> atoms, step)} meaning
    len(attr) = ceil(span / step)."""
    from .declayout import summarise_decode
    import re
    fn, s = summarise_decode(cx, cls)
    if fn is None:
        return {}
    # read id -> 'self.attr' for attributes assigned exactly that read
    rid2attr = {}
    for attr, vals in s.assigns.items():
        for v, lp in vals:
            if re.match(r'^R\d+$', v) and lp is None:
                rid2attr[v] = 'self.' + attr
    out = {}
    for lp in s.loops:
        if lp.kind != 'range' or lp.start is None or lp.stop is None or not lp.step:
            continue
        apps = [a for a in s.appends if a[2] == lp.lid and not a[3]]
        attrs = set(a[0] for a in apps)
        for attr in attrs:
            if len([a for a in apps if a[0] == attr]) != 1 or not s.fresh.get(attr):
                continue
            span = (lp.stop - lp.start).subst({r: Poly.atom(a) for r, a in rid2attr.items()})
            step = lp.step
            # index loops (step 1 over element index) : span counts elements
            out[attr] = (span, step)
    return out
