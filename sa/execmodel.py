"""Path summaries of `Request.execute(context)` for the data-access requests
(shared by C04, C05, C09, C14)."""
import ast

from .common import Ctx, U, annotate, constraints, callee_name, AnalysisError, _UNKNOWN
from .loader import Cls
from .sym import Poly, NotInt

DATA_ACCESS = {
    1: 'pymodbus.bit_read_message.ReadCoilsRequest',
    2: 'pymodbus.bit_read_message.ReadDiscreteInputsRequest',
    3: 'pymodbus.register_read_message.ReadHoldingRegistersRequest',
    4: 'pymodbus.register_read_message.ReadInputRegistersRequest',
    5: 'pymodbus.bit_write_message.WriteSingleCoilRequest',
    6: 'pymodbus.register_write_message.WriteSingleRegisterRequest',
    15: 'pymodbus.bit_write_message.WriteMultipleCoilsRequest',
    16: 'pymodbus.register_write_message.WriteMultipleRegistersRequest',
    22: 'pymodbus.register_write_message.MaskWriteRegisterRequest',
    23: 'pymodbus.register_read_message.ReadWriteMultipleRegistersRequest',
}


class Op:
    def __init__(self, kind, call, ev, index, polarity=None):
        self.kind, self.call, self.ev, self.index, self.polarity = kind, call, ev, index, polarity

    def __repr__(self):
        return '%s(%s)%s' % (self.kind, ', '.join(U(a) for a in self.call.args),
                             '' if self.polarity is None else '=%s' % self.polarity)


class ExecPath:
    def __init__(self):
        self.ops = []
        self.cons = []        # list of (index, constraint)
        self.ret = None       # ('exception', code, fc_expr) | ('response', Cls, call) | ('other', node) | ('raise', name)
        self.path = None
        self.state = None

    def cons_before(self, index):
        return [c for i, c in self.cons if i < index]

    def all_cons(self):
        return [c for _, c in self.cons]


def class_of_call(cx, call, mod):
    """resolve the callee of a Call to a class of the package (constructor call)"""
    if isinstance(call, ast.Call) and isinstance(call.func, ast.Name):
        r = cx.idx.lookup(mod, call.func.id)
        if r and r[0] == 'class':
            return r[1]
    return None


def exec_paths(cx, cls, func=None):
    """enumerate execute() of request class `cls` (concrete receiver)"""
    f = func or cx.method(cls, 'execute')
    if len(f.params) < 2:
        raise AnalysisError('%s has no context parameter' % f.qn)
    ctxname = f.params[1]
    nz = cx.nz(f.mod, cls)
    out = []
    for p in cx.enum(f, cls, max_depth=2):
        st = annotate(p)
        ep = ExecPath()
        ep.path, ep.state = p, st
        for i, ev in enumerate(p.ev):
            if ev.kind == 'cond':
                sub = ev._sub
                if isinstance(sub, ast.Call) and isinstance(sub.func, ast.Attribute) and U(sub.func.value) == ctxname \
                        and sub.func.attr == 'validate' and ev.frame.fid == 0:
                    ep.ops.append(Op('validate', sub, ev, i, ev.a))
                else:
                    fnz = cx.nz(ev.frame.func.mod, ev.frame.cls) if ev.frame.func is not None else nz
                    for c in constraints(sub, ev.a, fnz):
                        ep.cons.append((i, c))
            elif ev.kind == 'call':
                sub = ev._sub
                if isinstance(sub.func, ast.Attribute) and U(sub.func.value) == ctxname and ev.frame.fid == 0:
                    if sub.func.attr in ('getValues', 'setValues'):
                        ep.ops.append(Op('get' if sub.func.attr == 'getValues' else 'set', sub, ev, i))
                    elif sub.func.attr == 'validate':
                        # validate not used directly as a branch condition
                        if not any(o.ev.node is ev.node for o in ep.ops):
                            ep.ops.append(Op('validate-call', sub, ev, i))
        # a validate whose result is the branch condition appears both as call and cond: drop the call twin
        conds = {id(o.ev.node) for o in ep.ops if o.kind == 'validate'}
        ep.ops = [o for o in ep.ops if not (o.kind == 'validate-call' and id(o.ev.node) in conds)]
        ep.ops.sort(key=lambda o: o.index)
        if p.exit and p.exit[0] == 'exc':
            ep.ret = ('raise', p.exit[1])
        else:
            r = None
            for ev in reversed(p.ev):
                if ev.kind == 'return' and ev.frame.fid == 0:
                    r = getattr(ev, '_sub', None)
                    rmod = ev.frame.func.mod
                    break
            if r is None:
                ep.ret = ('other', None)
            else:
                k = class_of_call(cx, r, rmod) or _class_any(cx, r)
                if k is not None and k.name == 'ExceptionResponse':
                    code = cx.ce.try_ev(r.args[1], f.mod, cls, env={'self': cls}, default=None) if len(r.args) > 1 else None
                    if code is None and len(r.args) > 1:
                        code = cx.ce.try_ev(r.args[1], cx.idx.mod('pymodbus.pdu'), None, default=None)
                    ep.ret = ('exception', code, r.args[0] if r.args else None)
                elif k is not None:
                    ep.ret = ('response', k, r)
                else:
                    ep.ret = ('other', r)
        out.append(ep)
    return f, out


def _class_any(cx, call):
    if isinstance(call, ast.Call) and isinstance(call.func, ast.Name):
        for m in cx.idx.mods.values():
            if call.func.id in m.classes and m.name.startswith('pymodbus.') and m.name.count('.') == 1:
                return m.classes[call.func.id]
    return None


# ----------------------------------------------------------- list lengths
def init_facts(cx, cls):
    """attribute relations established by every path of __init__ (attribute reads are kept
    symbolic): {'self.count': Poly(len(self.values)), ...}; None for path-dependent ones."""
    nz = cx.nz(cls.mod, cls)
    init_eq = {}
    init = cx.idx.find_method(cls, '__init__')
    if init is None:
        return {}
    npaths = 0
    for p in cx.enum(init, cls, max_depth=2):
        if p.exit and p.exit[0] == 'exc':
            continue
        npaths += 1
        st = annotate(p, heap=False)
        for key, val in st.heap.items():
            if not key.startswith('self.'):
                continue
            try:
                v = nz.norm(val)
            except NotInt:
                v = ('expr', nz.canon(val))
            if key in init_eq and init_eq[key] != v:
                init_eq[key] = None
            elif key not in init_eq:
                init_eq[key] = v
    return init_eq


def decode_list_spans(cx, cls):
    """`self.X = []` then `for i in range(a, b, s): self.X.append(..)` (one append per iteration)
    => {X: (b - a, s)} meaning len(X) = ceil((b-a)/s)."""
    dec = cx.idx.find_method(cls, 'decode')
    if dec is None:
        return {}
    nz = cx.nz(dec.mod, cls)
    out, fresh = {}, set()
    for s in dec.node.body:
        if isinstance(s, ast.Assign) and len(s.targets) == 1:
            t = s.targets[0]
            pairs = []
            if isinstance(t, ast.Tuple) and isinstance(s.value, ast.Tuple) and len(t.elts) == len(s.value.elts):
                pairs = list(zip(t.elts, s.value.elts))
            else:
                pairs = [(t, s.value)]
            for a, b in pairs:
                if isinstance(a, ast.Attribute) and U(a.value) == 'self':
                    out.pop(a.attr, None)
                    fresh.discard(a.attr)
                    if isinstance(b, ast.List) and not b.elts:
                        fresh.add(a.attr)
        elif isinstance(s, ast.For) and isinstance(s.iter, ast.Call) and callee_name(s.iter) == 'range' and not s.orelse:
            args = s.iter.args
            try:
                if len(args) == 1:
                    a, b, st = Poly.const(0), nz.norm(args[0]), 1
                elif len(args) == 2:
                    a, b, st = nz.norm(args[0]), nz.norm(args[1]), 1
                else:
                    a, b, st = nz.norm(args[0]), nz.norm(args[1]), nz.norm(args[2]).const_value()
            except NotInt:
                continue
            apps = [n for n in ast.walk(s) if isinstance(n, ast.Call) and callee_name(n) == 'append'
                    and isinstance(n.func, ast.Attribute) and isinstance(n.func.value, ast.Attribute)
                    and U(n.func.value.value) == 'self']
            direct = [b2.value for b2 in s.body if isinstance(b2, ast.Expr)]
            has_exit = any(isinstance(n, (ast.Break, ast.Continue, ast.Return)) for n in ast.walk(s))
            for ap in apps:
                attr = ap.func.value.attr
                if ap in direct and not has_exit and st and st > 0 and attr in fresh and \
                        len([x for x in apps if x.func.value.attr == attr]) == 1:
                    out[attr] = (b - a, st)
                    fresh.discard(attr)
                else:
                    out.pop(attr, None)
    return out
