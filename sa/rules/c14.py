"""C14 — predicted reply length equals the length the server really sends."""
import ast

from ..common import Ctx, U, AnalysisError, callee_name, annotate, ret_expr, Poly, NotInt, contradictory
from ..layout import Writer, normalise, rename_rep, select, show, Seq, length
from ..execmodel import DATA_ACCESS, exec_paths
from ..framermodel import FRAMER_CLASSES
from ..msgtables import table, code_of
from .c03 import build_summary, ENC

TITLE = 'predicted reply length equals the length the server really sends'
TM = 'pymodbus.transaction.ModbusTransactionManager'


def predicted(cx, cls):
    """get_response_pdu_size() as a Poly over request attributes (two complementary paths are merged as ite)"""
    fn = cx.idx.find_method(cls, 'get_response_pdu_size')
    if fn is None:
        return None, None
    nz = cx.nz(fn.mod, cls)
    outs = []
    for p in cx.enum(fn, cls, max_depth=0):
        annotate(p, heap=False)
        r = ret_expr(p)
        conds = [(e._sub, e.a) for e in p.ev if e.kind == 'cond']
        outs.append((conds, r))
    if len(outs) == 1:
        return fn, nz.norm(outs[0][1])
    if len(outs) == 2 and len(outs[0][0]) == 1 and len(outs[1][0]) == 1 and U(outs[0][0][0][0]) == U(outs[1][0][0][0]):
        t = outs[0][0][0][0]
        a, b = (outs[0][1], outs[1][1]) if outs[0][0][0][1] else (outs[1][1], outs[0][1])
        return fn, nz.norm(ast.IfExp(test=t, body=a, orelse=b))
    # several guarded results: the branches that a spec-valid quantity can take decide (a guard that only sets aside quantities the
    # server refuses anyway changes nothing for a conformant exchange).  The guards are folded for the boundary values of the
    # quantity field(s); a branch no valid boundary value reaches is ignored.
    from spec.tables import LIMITS
    fc = cx.ce.try_ev(ast.Name(id='function_code', ctx=ast.Load()), cls.mod, cls)
    lims = LIMITS.get(fc)
    attrs = sorted({n.attr for conds, r in outs for c, a in conds for n in ast.walk(c) if isinstance(n, ast.Attribute) and isinstance(n.value, ast.Name) and n.value.id == 'self'})
    if lims and len(attrs) == 1 and len(lims) == 1:
        lo, hi = lims[0][1], lims[0][2]

        class Sub(ast.NodeTransformer):
            def __init__(self, v):
                self.v = v

            def visit_Attribute(self, n):
                if isinstance(n.value, ast.Name) and n.value.id == 'self' and n.attr == attrs[0]:
                    return ast.Constant(value=self.v)
                return self.generic_visit(n)
        import copy
        live = []
        for conds, r in outs:
            reach = False
            for v in sorted({lo, lo + 1, (lo + hi) // 2, hi - 1, hi}):
                ok = True
                for c, a in conds:
                    t = cx.ce.try_ev(Sub(v).visit(copy.deepcopy(c)), fn.mod, cls, default='?')
                    if t == '?':
                        ok = None
                        break
                    if bool(t) != a:
                        ok = False
                        break
                if ok is None or ok:
                    reach = True
                    break
            if reach:
                live.append((conds, r))
        if live:
            common = None
            for conds, r in live:
                ks = {(U(c), a) for c, a in conds}
                common = ks if common is None else (common & ks)
            live = [([(c, a) for c, a in conds if (U(c), a) not in common], r) for conds, r in live]
        polys = set()
        for conds, r in live:
            try:
                polys.add(nz.norm(r))
            except Exception:
                polys.add(None)
        if len(polys) == 1 and None not in polys:
            return fn, polys.pop()
        if len(live) == 2 and len(live[0][0]) == 1 and len(live[1][0]) == 1 and U(live[0][0][0][0]) == U(live[1][0][0][0]) and live[0][0][0][1] != live[1][0][0][1]:
            t = live[0][0][0][0]
            a, b = (live[0][1], live[1][1]) if live[0][0][0][1] else (live[1][1], live[0][1])
            try:
                return fn, nz.norm(ast.IfExp(test=t, body=a, orelse=b))
            except Exception:
                pass
        outs = live or outs
    return fn, '; '.join('%s when %s' % (U(r) if r is not None else None, ' and '.join(('%s' if a else 'not (%s)') % U(c) for c, a in conds) or 'always')
                         for conds, r in outs)


def response_length(cx, rcls, call, req_nz):
    """1 + len(encode()) of the response built by `call` (constructor call in Request.execute), in request terms"""
    enc = cx.idx.find_method(rcls, 'encode')
    seq = rename_rep(normalise(select(Writer(cx, rcls).func(enc), lambda c: False if c == 'self.skip_encode' else None)))
    nz = cx.nz(rcls.mod, rcls)
    ln = length(seq, nz)
    if ln is None:
        return None, seq
    # constructor binding: which response attribute holds which constructor argument
    init = cx.idx.find_method(rcls, '__init__')
    params = init.params[1:] if init is not None else []
    argmap = {}
    for pn, a in zip(params, call.args):
        argmap[pn] = a
    for kw in call.keywords:
        argmap[kw.arg] = kw.value
    # follow Base.__init__(self, values, ...) one level for the list attribute
    attr_arg = {}

    def scan(fn, amap):
        for n in ast.walk(fn.node):
            if isinstance(n, ast.Assign) and isinstance(n.targets[0], ast.Attribute) and U(n.targets[0].value) == 'self':
                v = n.value
                # the argument itself, a copy of it, or the argument with an empty default: same length
                while True:
                    if isinstance(v, ast.BoolOp) and isinstance(v.op, ast.Or):
                        v = v.values[0]
                    elif isinstance(v, ast.Call) and isinstance(v.func, ast.Name) and v.func.id in ('list', 'tuple') and len(v.args) == 1 and not v.keywords:
                        v = v.args[0]
                    elif isinstance(v, ast.Subscript) and isinstance(v.slice, ast.Slice) and v.slice.lower is None and v.slice.upper is None and v.slice.step is None:
                        v = v.value
                    elif isinstance(v, ast.IfExp) and isinstance(v.body, ast.Name):
                        v = v.body
                    else:
                        break
                if isinstance(v, ast.Name) and v.id in amap:
                    attr_arg[n.targets[0].attr] = amap[v.id]
            if isinstance(n, ast.Call) and isinstance(n.func, ast.Attribute) and n.func.attr == '__init__' and isinstance(n.func.value, ast.Name):
                r = cx.idx.lookup(fn.mod, n.func.value.id)
                if r and r[0] == 'class':
                    b = cx.idx.find_method(r[1], '__init__')
                    if b is not None:
                        bp = b.params[1:]
                        sub = {}
                        for pn, a in zip(bp, n.args[1:]):
                            if isinstance(a, ast.Name) and a.id in amap:
                                sub[pn] = amap[a.id]
                        scan(b, sub)
    if init is not None:
        scan(init, argmap)
    # substitute len(self.<list>) by the length of the bound argument
    sub = {}
    for atom in ln.atoms():
        if atom.startswith('len(self.') and atom.endswith(')'):
            a = atom[9:-1]
            arg = attr_arg.get(a)
            if arg is None:
                continue
            if isinstance(arg, ast.Call) and callee_name(arg) == 'getValues' and len(arg.args) >= 3:
                # datastore contract: getValues(fc, address, n) returns n values
                sub[atom] = req_nz.norm(arg.args[2])
            else:
                try:
                    sub[atom] = Poly.atom('len(%s)' % req_nz.canon(arg))
                except Exception:
                    pass
        if atom.startswith('ceil8(len(self.'):
            a = atom[len('ceil8(len(self.'):-2]
            arg = attr_arg.get(a)
            if isinstance(arg, ast.Call) and callee_name(arg) == 'getValues' and len(arg.args) >= 3:
                inner = req_nz.norm(arg.args[2])
                sub[atom] = Poly.atom('ceil8(%s)' % inner)
    return Poly.const(1) + ln.subst(sub), seq


def r1_prediction(ck, cx):
    ck.rule('R1', 'get_response_pdu_size() = 1 + length of the encode layout of the response class execute() returns, under the constructor binding (len(getValues(fc, a, n)) = n)')
    n = 0
    for fc, qn in sorted(DATA_ACCESS.items()):
        cls = cx.idx.cls(qn)
        fn, pred = predicted(cx, cls)
        if fn is None:
            continue
        ck.saw('functions', fn.qn)
        nz = cx.nz(fn.mod, cls)
        f, eps = exec_paths(cx, cls)
        resp = [ep for ep in eps if ep.ret[0] == 'response']
        for ep in resp:
            n += 1
            rcls, call = ep.ret[1], ep.ret[2]
            actual, seq = response_length(cx, rcls, call, nz)
            ck.sample({'request': cls.name, 'predicted': str(pred), 'response': rcls.name, 'actual': str(actual), 'layout': show(seq)[:80]})
            ok = isinstance(pred, Poly) and actual is not None and pred == actual
            ck.ob('R1', fn.qn, 'prediction = 1 + len(%s.encode())' % rcls.name, ok, detail='prediction %s vs %s' % (pred, actual), loc=cx.floc(fn),
                  message='%s predicts a reply PDU of %s bytes, the server sends %s (%s)' % (cls.name, pred, actual, show(seq)[:80]))
    ck.floor('R1', n, 9, 'data-access requests with a prediction')
    # ---- diagnostics
    base = cx.idx.cls('pymodbus.diag_message.DiagnosticStatusRequest')
    gfn, gpred = predicted(cx, base)
    nzb = cx.nz(base.mod, base)
    want = nzb.norm(ast.parse('1 + 2 + 2 * len(self.message)', mode='eval').body)
    got = None
    if isinstance(gpred, list):
        # both paths (message already a list / wrapped into one) must give the same formula over the wrapped message
        vals = set()
        for conds, r in gpred:
            try:
                vals.add(str(nzb.norm(r)))
            except Exception:
                vals.add('?')
        got = vals
    else:
        got = {str(gpred)}
    ck.ob('R1', gfn.qn, 'diagnostic prediction = fc + sub-function + 2 bytes per message word', got == {str(want)}, detail='diag-prediction %s' % sorted(got), loc=cx.floc(gfn),
          message='DiagnosticStatusRequest predicts %s, the reply is fc (1) + sub-function (2) + 2 per word' % sorted(got))
    d, st = table(cx, 'ServerDecoder', '__sub_function_table')
    m = 0
    for k in st:
        if code_of(cx, k) != 8:
            continue
        own = cx.idx.find_method(k, 'get_response_pdu_size')
        ex = cx.idx.find_method(k, 'execute')
        if own is None or ex is None:
            continue
        m += 1
        rets = [r for r in ast.walk(ex.node) if isinstance(r, ast.Return) and isinstance(r.value, ast.Call)]
        for r in rets:
            rc = cx.idx.lookup(ex.mod, r.value.func.id) if isinstance(r.value.func, ast.Name) else None
            if not rc or rc[0] != 'class':
                continue
            resp_cls = rc[1]
            if cx.ce.try_ev(ast.Name(id='should_respond', ctx=ast.Load()), resp_cls.mod, resp_cls) is False:
                continue
            if own.cls is base:
                # generic formula: needs the same number of words in the reply as in the (list-wrapped) request message
                a = r.value.args[0] if r.value.args else None
                same = a is not None and U(a) == 'self.message'
                scalar = a is not None and not same     # a counter / register value: one word, like the default request message
                ck.ob('R1', k.qn, 'reply carries as many words as the request message (generic prediction applies)', same or scalar,
                      detail='diag-reply-words %s' % (U(a) if a is not None else None), loc=cx.floc(ex, r))
                if scalar:
                    ck.assume('%s replies with one data word (%s); its request message defaults to one word' % (k.name, U(a)[:40]))
            else:
                _modbus_plus(ck, cx, k, own, ex)
    ck.floor('R1', m, 15, 'diagnostic sub-function requests')


def _modbus_plus(ck, cx, k, own, ex):
    """GetClearModbusPlusRequest: constant predictions per operation vs the words execute() returns"""
    nz = cx.nz(k.mod, k)
    stats = cx.idx.cls('pymodbus.device.ModbusPlusStatistics')
    data = cx.ce.class_member(stats, '__data')
    nwords = sum(len(v) for v in data.values()) // 2
    ck.tables.append('ModbusPlusStatistics.__data const-folded: %d bytes = %d words' % (sum(len(v) for v in data.values()), nwords))
    preds = {}
    for p in cx.enum(own, k, max_depth=0):
        annotate(p, heap=True)
        r = ret_expr(p)
        op = None
        for e in p.ev:
            if e.kind == 'cond' and 'ModbusPlusOperation' in U(e._sub):
                name = U(e._sub).split('ModbusPlusOperation.')[-1].strip(') ')
                op = name if e.a else ('ClearStatistics' if name == 'GetStatistics' else 'GetStatistics')
        try:
            preds[op] = nz.norm(r).const_value()
        except Exception:
            preds[op] = None
    actual = {}
    for p in cx.enum(ex, k, max_depth=0):
        st = annotate(p, heap=False)
        op = None
        for e in p.ev:
            if e.kind == 'cond' and 'ModbusPlusOperation' in U(e._sub):
                name = U(e._sub).split('ModbusPlusOperation.')[-1].strip(') ')
                op = name if e.a else ('ClearStatistics' if name == 'GetStatistics' else 'GetStatistics')
        def wc(e):
            """number of 16-bit words the response message carries"""
            if isinstance(e, ast.List):
                parts = [wc(x) if isinstance(x, ast.Starred) else 1 for x in e.elts]
                return None if None in parts else sum(parts)
            if isinstance(e, ast.BinOp) and isinstance(e.op, ast.Add):
                l, r = wc(e.left), wc(e.right)
                return None if l is None or r is None else l + r
            if isinstance(e, ast.Call) and U(e.func).endswith('Plus.encode') and not e.args:
                return nwords
            if isinstance(e, ast.Call) and isinstance(e.func, ast.Name) and e.func.id == 'list' and len(e.args) == 1:
                return wc(e.args[0])
            if U(e) == 'self.message':
                return 1
            return None
        words = None
        rets = [e for e in p.ev if e.kind == 'return' and e.frame.fid == 0]
        if rets and isinstance(rets[-1].a, ast.Call) and rets[-1].a.args:
            raw = rets[-1].a.args[0]
            sub = getattr(rets[-1], '_sub', None)
            words = wc(sub.args[0]) if isinstance(sub, ast.Call) and sub.args else None
            if words is not None and isinstance(raw, ast.Name):
                # in-place growth of the local list before it is handed to the response
                for e in p.ev:
                    if e.kind == 'call' and isinstance(e.node.func, ast.Attribute) and e.node.func.attr in ('extend', 'append') \
                            and isinstance(e.node.func.value, ast.Name) and e.node.func.value.id == raw.id and e.node.args:
                        extra = wc(e._sub.args[0]) if e.node.func.attr == 'extend' else 1
                        words = None if extra is None or words is None else words + extra
        actual[op] = (1 + 2 + 2 * words) if words is not None else None
    for op in sorted(set(preds) | set(actual), key=str):
        ck.sample({'request': k.name, 'operation': op, 'predicted': preds.get(op), 'actual': actual.get(op)})
        ck.ob('R1', own.qn, 'prediction for %s = fc + sub + 2 per reply word' % op, preds.get(op) is not None and preds.get(op) == actual.get(op),
              detail='modbus-plus-prediction %s %s vs %s' % (op, preds.get(op), actual.get(op)), loc=cx.floc(own),
              message='GetClearModbusPlusRequest predicts %s bytes for %s, execute() produces a %s-byte reply PDU' % (preds.get(op), op, actual.get(op)))


def _isinstance_table(cx, fn, cls, attr=None, want_ret=False):
    """{framer class name: value} from an isinstance(self.client.framer, X) chain"""
    out = {}
    for p in cx.enum(fn, cls, max_depth=0):
        st = annotate(p, heap=False)
        if contradictory(p):
            continue
        fr = None
        for e in p.ev:
            if e.kind == 'cond' and e.a is True and isinstance(e._sub, ast.Call) and callee_name(e._sub) == 'isinstance' and 'framer' in U(e._sub.args[0]):
                t = e._sub.args[1]
                fr = tuple(sorted(U(x) for x in (t.elts if isinstance(t, ast.Tuple) else [t])))
        if fr is None:
            continue
        if want_ret:
            r = ret_expr(p)
            val = U(r) if r is not None else None
        else:
            v = st.heap.get('self.' + attr)
            val = U(v) if v is not None else None
        for f in fr:
            out.setdefault(f, set()).add(val)
    return out


def _table_loop(cx, fn, cls, attr):
    """`for klass, value in ((A, 1), (B, 2), ...): if isinstance(x, klass): self.<attr> = value; return` -> {A: {'1'}, ...}"""
    out = {}
    for loop in [n for n in ast.walk(fn.node) if isinstance(n, ast.For)]:
        it = loop.iter
        if isinstance(it, ast.Name):
            defs = [n.value for n in ast.walk(fn.node) if isinstance(n, ast.Assign) and any(isinstance(t, ast.Name) and t.id == it.id for t in n.targets)]
            it = defs[0] if len(defs) == 1 else it
        if not (isinstance(it, (ast.Tuple, ast.List)) and isinstance(loop.target, ast.Tuple) and len(loop.target.elts) == 2):
            continue
        kvar, vvar = [U(x) for x in loop.target.elts]
        tests = [n for n in ast.walk(loop) if isinstance(n, ast.If) and isinstance(n.test, ast.Call) and callee_name(n.test) == 'isinstance'
                 and U(n.test.args[1]) == kvar]
        sets = [a for t in tests for a in ast.walk(t) if isinstance(a, ast.Assign) and U(a.targets[0]) == 'self.' + attr and U(a.value) == vvar]
        stops = [a for t in tests for a in t.body if isinstance(a, (ast.Return, ast.Break))]
        if len(tests) == 1 and sets and stops:
            for el in it.elts:
                if isinstance(el, (ast.Tuple, ast.List)) and len(el.elts) == 2:
                    out.setdefault(U(el.elts[0]), set()).add(U(el.elts[1]))
    return out


def r2_overheads(ck, cx):
    ck.rule('R2', 'framing overhead table: base_adu_size = len(buildPacket) - len(PDU) per framer (ASCII counts hex characters), exception length = overhead + 2 (4 on ASCII), min_size / function-code peek offsets = position of the function code in each ADU')
    tm = cx.idx.cls(TM)
    names = {'tcp': 'ModbusSocketFramer', 'rtu': 'ModbusRtuFramer', 'ascii': 'ModbusAsciiFramer', 'binary': 'ModbusBinaryFramer', 'tls': 'ModbusTlsFramer'}
    overhead, fcpos = {}, {}
    for kind in FRAMER_CLASSES:
        cls, fn, seq = build_summary(cx, kind)
        nz = cx.nz(cls.mod, cls)
        L = Poly.atom('len(%s)' % ENC)
        if kind == 'ascii':
            inner = seq[0][2] if (len(seq) == 1 and seq[0][0] == 'XF') else seq
            from ..framermodel import instance_constants
            ic = instance_constants(cx, cls)
            s2 = Seq()
            for it in inner:
                if it[0] == 'RAW' and it[1].startswith('self._'):
                    s2.append(('C', ic.get(it[1], b'')))
                else:
                    s2.append(it)
            total = length(s2, nz)
            pdu = (Poly.const(1) + L) * Poly.const(2)
            pos = 1 + 2
            width = 2
        else:
            from ..framermodel import instance_constants
            ic = instance_constants(cx, cls)
            s2 = Seq()
            pos, seen = 0, False
            for it in seq:
                if it[0] == 'RAW' and it[1].startswith('self._'):
                    it = ('C', ic.get(it[1], b''))
                if it[0] == 'REP':
                    it = ('RAW', ENC)
                if it[0] == 'F' and it[2] == 'message.function_code':
                    seen = True
                if not seen:
                    pos += length(Seq([it]), nz).const_value()
                s2.append(it)
            total = length(s2, nz)
            pdu = Poly.const(1) + L
            width = 1
        ov = (total - pdu).const_value() if total is not None else None
        overhead[kind] = ov
        fcpos[kind] = (pos, width)
        ck.sample({'framer': kind, 'adu-length': str(total), 'overhead': ov, 'function-code-offset': pos})
    # base_adu_size
    f1 = cx.method(tm, '_set_adu_size')
    ck.saw('functions', f1.qn)
    tab = dict(_table_loop(cx, f1, tm, 'base_adu_size'))
    tab.update({k: v for k, v in _isinstance_table(cx, f1, tm, attr='base_adu_size').items() if k in names.values()})
    for kind, cn in names.items():
        got = tab.get(cn)
        val = cx.ce.try_ev(ast.parse(list(got)[0], mode='eval').body, f1.mod, tm) if got and len(got) == 1 and None not in got else None
        ck.ob('R2', f1.qn, 'base_adu_size[%s] = %s' % (kind, overhead[kind]), val == overhead[kind], detail='base-adu-size %s %s' % (kind, val), loc=cx.floc(f1),
              message='base_adu_size for %s is %s, the framing adds %s bytes to the PDU' % (kind, val, overhead[kind]))
    # exception length
    f2 = cx.method(tm, '_calculate_exception_length')
    ck.saw('functions', f2.qn)
    tab = _isinstance_table(cx, f2, tm, want_ret=True)
    nz2 = cx.nz(f2.mod, tm)
    for kind, cn in names.items():
        got = tab.get(cn)
        extra = None
        if got and len(got) == 1 and None not in got:
            try:
                extra = (nz2.norm(ast.parse(list(got)[0], mode='eval').body) - Poly.atom('self.base_adu_size')).const_value()
            except Exception:
                extra = None
        want = 4 if kind == 'ascii' else 2
        ck.ob('R2', f2.qn, 'exception reply length[%s] = overhead + %d' % (kind, want), extra == want, detail='exception-length %s +%s' % (kind, extra), loc=cx.floc(f2),
              message='exception reply for %s is predicted as overhead + %s, an exception PDU (fc, code) adds %d' % (kind, extra, want))
    # min_size and function-code peek in _recv
    f3 = cx.method(tm, '_recv')
    ck.saw('functions', f3.qn)
    mins, peeks = {}, {}
    # per framer class (the isinstance tests taken as true on a path, whether written as an if-chain or as a loop over a
    # table): the size handed to the first recvPacket() and the expression compared with 0x80 as the function code
    from ..paths import SelfResolver as _SR
    _base = _SR(cx.idx, stop=lambda fn_: fn_.cls is not None or fn_.mod.name != 'pymodbus.transaction' or not fn_.name.startswith('_'))

    def _priv(call, fr, path):
        # private module-level helpers of transaction.py (called by name or through a row of a constant table) belong to _recv
        if isinstance(call.func, (ast.Name, ast.Subscript)):
            return _base(call, fr, path)
        return _txh(call, fr, path)       # ... and so do private methods of the manager that are not modelled on their own
    _txh = cx.tx_helper_resolver()
    for p in cx.enum(f3, tm, max_depth=1, max_paths=400000, resolver=_priv):
        annotate(p, heap=False)
        if contradictory(p):
            continue
        cns, excluded = None, set()
        for e in p.ev:
            if e.kind == 'cond' and isinstance(e._sub, ast.Call) and callee_name(e._sub) == 'isinstance' and len(e._sub.args) == 2 \
                    and 'framer' in U(e._sub.args[0]):
                t = e._sub.args[1]
                these = {U(x) for x in (t.elts if isinstance(t, ast.Tuple) else [t])}
                if e.a is True:
                    cns = these if cns is None else (cns & these)
                elif e.a is False:
                    excluded |= these
        cns = (cns or set()) - excluded
        if not cns:
            continue
        first = [e for e in p.ev if e.kind == 'call' and callee_name(e.node) == 'recvPacket']
        rp_txt = U(first[0]._sub) if first else None
        for cn in cns:
            if first and first[0]._sub.args:
                v = cx.ce.try_ev(first[0]._sub.args[0], f3.mod, tm)
                mins.setdefault(cn, set()).add(v)
            for e in p.ev:
                if e.kind == 'cond' and isinstance(e._sub, ast.Compare) and len(e._sub.ops) == 1 and cx.ce.try_ev(e._sub.comparators[0], f3.mod, tm) == 0x80 \
                        and rp_txt and rp_txt in U(e._sub.left):
                    # the bytes returned by the first read are called read_min in the messages
                    peeks.setdefault(cn, set()).add(U(e._sub.left).replace(rp_txt, 'read_min'))
                elif e.kind == 'cond' and isinstance(e._sub, ast.Compare) and len(e._sub.ops) == 1 and cx.ce.try_ev(e._sub.comparators[0], f3.mod, tm) == 0x80 \
                        and rp_txt and cn in names.values() and isinstance(cx.ce.try_ev(e._sub.left, f3.mod, tm, default=None), int):
                    # for a framing whose layout is known the exception test looks at the reply, on every path: a constant stand-in
                    # ("unknown, not an error") makes some exception replies be read with the length of a normal reply
                    ck.ob('R2', f3.qn, 'the exception test of _recv looks at the function code of the reply on every path [%s]' % cn, False,
                          detail='fc-peek-constant %s' % cn, loc=cx.floc(f3, e.node),
                          message='_recv compares the constant %s with 0x80 on a path of the %s branch instead of the function code it read: exception replies that take this path '
                                  '(a hex digit A-F, a garbled byte) are waited for with the length of a normal reply' % (U(e._sub.left), cn))
    # the exception branch (function code >= 0x80): what is read after the first min_size bytes is the rest of an EXCEPTION frame,
    # i.e. _calculate_exception_length() - min_size -- the per-framer exception length decided above, ASCII doubling included
    nexc = 0
    for p in cx.enum(f3, tm, max_depth=1, max_paths=400000, resolver=_priv):
        annotate(p, heap=False)
        if contradictory(p):
            continue
        exc_branch = False
        for e in p.ev:
            t = getattr(e, '_sub', None)
            if e.kind == 'cond' and isinstance(t, ast.Compare) and len(t.ops) == 1 and cx.ce.try_ev(t.comparators[0], f3.mod, tm) == 0x80:
                ge = isinstance(t.ops[0], (ast.GtE, ast.Gt))
                exc_branch = (e.a is True) == ge if isinstance(t.ops[0], (ast.GtE, ast.Gt, ast.Lt, ast.LtE)) else exc_branch
        reads = [e for e in p.ev if e.kind == 'call' and callee_name(e.node) == 'recvPacket' and getattr(e, '_sub', None) is not None and e._sub.args]
        if not exc_branch or len(reads) < 2:
            continue
        nexc += 1
        arg = U(reads[1]._sub.args[0])
        ck.ob('R2', f3.qn, 'exception reply: the second read asks for _calculate_exception_length() - min_size bytes', '_calculate_exception_length()' in arg,
              detail='exception-read-size-not-from-exception-length', loc=cx.floc(f3, reads[1].node),
              message='_recv reads `%s` bytes to complete an exception reply instead of the exception length of the framer minus what was already read: on a framing '
                      'whose exception frame is not 2 PDU bytes + binary overhead (ASCII: hex doubling) the read stops short of the frame end' % arg[:80])
    ck.floor('R2', nexc, 2, 'exception-reply paths of _recv')
    mins = {k: (list(v)[0] if len(v) == 1 else None) for k, v in mins.items()}
    peeks = {k: (list(v)[0] if len(v) == 1 else None) for k, v in peeks.items()}
    for kind in ('tcp', 'rtu', 'ascii', 'binary'):
        cn = names[kind]
        pos, width = fcpos[kind]
        ck.ob('R2', f3.qn, 'min_size[%s] = %d (up to and including the function code)' % (kind, pos + width), mins.get(cn) == pos + width,
              detail='min-size %s %s' % (kind, mins.get(cn)), loc=cx.floc(f3),
              message='_recv reads %s bytes first on %s; the function code ends at offset %d' % (mins.get(cn), kind, pos + width))
        pk = peeks.get(cn)
        okp = False
        if pk is not None:
            t = pk
            if kind == 'ascii':
                okp = t.replace(' ', '') == 'int(read_min[%d:%d],16)' % (pos, pos + width)
            else:
                okp = t in ('byte2int(read_min[-1])', 'byte2int(read_min[%d])' % pos, 'read_min[-1]', 'read_min[%d]' % pos)
        ck.ob('R2', f3.qn, 'function-code peek[%s] reads offset %d' % (kind, pos), okp, detail='fc-peek %s %s' % (kind, pk), loc=cx.floc(f3))
    # ASCII doubling of the predicted PDU size in execute()
    ex = cx.method(tm, 'execute')
    # on the paths to the retry loop: what is handed to _calculate_response_length is the request's prediction, times two exactly when
    # the framer is the ASCII framer (helpers factored out of execute() are inlined)
    from ..txmodel import TxShape
    sh_ = TxShape(cx)
    seen_d, ok_d = set(), True
    for p in cx.enum_region(sh_.ex, sh_.tm, stop=[sh_.loop]):
        annotate(p, heap=False)
        ascii_ = None
        for e in p.ev:
            t = getattr(e, '_sub', None)
            if e.kind == 'cond' and isinstance(t, ast.Call) and callee_name(t) == 'isinstance' and len(t.args) == 2 and U(t.args[1]) == 'ModbusAsciiFramer':
                ascii_ = e.a
        for e in p.ev:
            if e.kind == 'call' and callee_name(e.node) == '_calculate_response_length' and getattr(e, '_sub', None) is not None and e._sub.args:
                a = U(e._sub.args[0]).replace(' ', '')
                base = '%s.get_response_pdu_size()' % sh_.req
                doubled = a in (base + '*2', '2*' + base)
                plain = a == base
                seen_d.add((ascii_, doubled))
                if (ascii_ is True and not doubled) or (ascii_ is False and not plain):
                    ok_d = False
    ck.ob('R2', ex.qn, 'the predicted PDU size is doubled for ASCII (two hex characters per byte)', ok_d and (True, True) in seen_d and (False, False) in seen_d,
          detail='ascii-doubling', loc=cx.floc(ex))
    f4 = cx.method(tm, '_calculate_response_length')
    okr = False
    for p in cx.enum(f4, tm, max_depth=0):
        annotate(p)
        r = ret_expr(p)
        if r is not None and U(r).replace(' ', '') in ('self.base_adu_size+%s' % f4.params[1], '%s+self.base_adu_size' % f4.params[1]):
            okr = True
    ck.ob('R2', f4.qn, 'expected length = base_adu_size + predicted PDU size', okr, detail='response-length-shape', loc=cx.floc(f4))


def r3_full_read_mode(ck, cx):
    """The client reads "everything that comes" instead of the predicted length only for a unit whose previous transaction
    got no reply at all.  The bookkeeping must enter a unit exactly on an empty reply and release it on ANY non-empty reply:
    a unit that stays listed has its (shorter) exception replies read with the length of a normal reply."""
    ck.rule('R3', 'no-response bookkeeping: a unit is listed iff its last reply was empty -- listed on `not response`, released on any non-empty response')
    from ..txmodel import TxShape
    sh = TxShape(cx)
    lst = 'self._no_response_devices'
    n_add = n_rem = 0
    for p in cx.enum_region(sh.ex, sh.tm, stmts=sh.loop.body, max_depth=0):
        annotate(p, heap=False)
        for i, ev in enumerate(p.ev):
            if ev.kind == 'call' and isinstance(ev.node.func, ast.Attribute) and U(ev.node.func.value) == lst and ev.node.func.attr in ('append', 'remove', 'discard', 'add'):
                # the reply is recognised by the local it was bound to (raw text), everything else by its substituted text
                rname = 'response'
                for a_ in ast.walk(sh.loop):
                    if isinstance(a_, ast.Assign) and isinstance(a_.value, ast.Call) and callee_name(a_.value) == '_transact':
                        t0 = a_.targets[0]
                        t0 = t0.elts[0] if isinstance(t0, (ast.Tuple, ast.List)) else t0
                        if isinstance(t0, ast.Name):
                            rname = t0.id
                conds = []
                for c in p.ev[:i]:
                    if c.kind != 'cond':
                        continue
                    raw = U(c.node).replace(' ', '')
                    if raw in (rname, 'not' + rname):
                        raw = raw.replace(rname, 'response')
                        conds.append((raw, c.a))
                    else:
                        conds.append((U(c._sub).replace(' ', ''), c.a))
                extra = []
                for t, pol in conds:
                    base = t[3:] if t.startswith('not') else t
                    if base.strip('()') in ('response',) or lst.replace(' ', '') in base:
                        continue
                    extra.append((t, pol))
                empty = any((t in ('notresponse',) and pol) or (t == 'response' and not pol) for t, pol in conds)
                nonempty = any((t in ('notresponse',) and not pol) or (t == 'response' and pol) for t, pol in conds)
                if ev.node.func.attr in ('append', 'add'):
                    n_add += 1
                    ck.ob('R3', sh.ex.qn, 'a unit is listed as silent exactly when the reply was empty', empty and not extra,
                          detail='no-response-listing %s' % extra[:2], loc=cx.floc(sh.ex, ev.node))
                else:
                    n_rem += 1
                    ck.ob('R3', sh.ex.qn, 'a listed unit is released by any non-empty reply', nonempty and not extra,
                          detail='no-response-release %s' % extra[:2], loc=cx.floc(sh.ex, ev.node),
                          message='a unit stays on the no-response list unless %s also holds: its next replies are read in "full" mode with the '
                                  'length predicted for a normal reply, which an exception reply never reaches' % extra[:2])
    ck.floor('R3', min(n_add, n_rem), 1, 'listing / release sites of the no-response bookkeeping')
    # the mode chosen by execute() is the mode _recv gets: _transact does not turn the probe read off on its own
    tr = cx.method(sh.tm, '_transact')
    fullp = tr.params[3] if len(tr.params) > 3 else 'full'
    nf = 0
    for p in cx.enum(tr, sh.tm, max_depth=0):
        annotate(p, heap=False)
        for e in p.ev:
            if e.kind == 'call' and callee_name(e.node) == '_recv' and len(e._sub.args) >= 2:
                nf += 1
                ck.ob('R3', tr.qn, '_transact hands the `full` flag it was given to _recv', U(e._sub.args[1]) == fullp,
                      detail='full-flag-overridden %s' % U(e._sub.args[1])[:30], loc=cx.floc(tr, e.node),
                      message='_transact calls _recv with full=%s instead of the flag chosen by execute(): the short probe read that recognises an '
                              'exception reply is skipped and the client waits for the length of a normal reply' % U(e._sub.args[1])[:40])
    ck.floor('R3', nf, 1, '_recv calls in _transact')
    # ... and the length predicted for the reply is the length the REPLY read gets: the last _recv of a path is called with the
    # response_length parameter itself (a local echo is a read of its own, sized by what was sent)
    rlp = tr.params[2] if len(tr.params) > 2 else 'response_length'
    nr = 0
    for p in cx.enum(tr, sh.tm, max_depth=0):
        annotate(p, heap=False)
        recvs = [e for e in p.ev if e.kind == 'call' and callee_name(e.node) == '_recv' and e._sub.args]
        # the read of the local echo is sized by the number of bytes sent (the result of _send) and is not a reply read
        recvs = [e for e in recvs if not (isinstance(e._sub.args[0], ast.Call) and callee_name(e._sub.args[0]) == '_send')]
        if not recvs:
            continue
        nr += 1
        a0 = U(recvs[-1]._sub.args[0])
        ck.ob('R3', tr.qn, 'the reply is read with the predicted length unchanged', a0 == rlp, detail='reply-read-size-changed', loc=cx.floc(tr, recvs[-1].node),
              message='_transact reads the reply with _recv(%s) instead of the predicted length it was given: _recv sizes its probe read and recognises an exception reply by the '
                      'first bytes of what it reads, so a read that is to cover more than the reply (or less) asks the port for the wrong number of bytes' % a0[:60])
    ck.floor('R3', nr, 1, 'reply reads of _transact')



def r6_requested_size_reaches_the_port(ck, cx, rule='R6'):
    """The transaction manager asks the client for exactly the predicted number of bytes (recvPacket(n) -> client.recv(n)).  Whatever
    recv() resolves to for a client class must hand that number on to the transport read unchanged: a recv() that shrinks (or grows)
    the request replaces the prediction by something else."""
    ck.rule(rule, 'client.recv(size) passes the requested size unchanged to the transport read (_recv) on every path, for every synchronous client class')
    from .. import ownership as _o
    n = 0
    seen = set()
    for qn in _o.SYNC_CLIENTS:
        k = cx.idx.cls(qn)
        f = cx.idx.find_method(k, 'recv')
        if f is None or (f.qn, k.qn) in seen:
            continue
        seen.add((f.qn, k.qn))
        ck.saw('functions', f.qn)
        size = f.params[1]
        for p in cx.enum(f, k, max_depth=0):
            if p.exit and p.exit[0] == 'exc':
                continue
            annotate(p, heap=False)
            r = ret_expr(p)
            n += 1
            ok = isinstance(r, ast.Call) and callee_name(r) == '_recv' and len(r.args) == 1 and isinstance(r.args[0], ast.Name) and r.args[0].id == size
            ck.ob(rule, k.qn + '.recv', 'recv(size) returns self._recv(size)', ok, detail='recv-changes-requested-size', loc=cx.floc(f),
                  message='%s.recv (resolved for %s) returns `%s`: the number of bytes read from the port is no longer the length the transaction manager '
                          'predicted, so a reply that arrives in two bursts is cut short of its checksum' % (f.cls.name if f.cls else '?', k.name, U(r)[:70] if r is not None else None))
    ck.floor(rule, n, 3, 'recv paths of the synchronous clients')


def run(ck, tier):
    cx = Ctx()
    ck.guard(r1_prediction, ck, cx)
    ck.guard(r2_overheads, ck, cx)
    ck.guard(r3_full_read_mode, ck, cx)
    ck.assume('datastore contract: getValues(fc, address, n) returns n values')
    ck.assume('binary framing: the overhead is exact only when the payload contains no delimiter bytes (escaping adds bytes)')
    ck.assume('what the transport really returns is not decided')
    from .. import ownership as _own
    ck.guard(_own.rule_instance_owned, ck, cx, 'R4', _own.MANAGERS[:1], 'a unit that timed out on one client is treated as silent by every other client, which then sizes exception replies as full-length replies', 1)
    from .. import ownership as _own2
    ck.rule('R5', 'no unsound memoisation (a caching decorator on a method, or on a function that returns a mutable container) in the modules this property rests on')
    ck.guard(_own2.rule_no_unsafe_memo, ck, cx, 'R5', ('pymodbus.transaction',) + ('pymodbus.utilities', 'pymodbus.pdu', 'pymodbus.factory', 'pymodbus.bit_read_message', 'pymodbus.bit_write_message', 'pymodbus.register_read_message', 'pymodbus.register_write_message', 'pymodbus.diag_message', 'pymodbus.file_message', 'pymodbus.other_message', 'pymodbus.mei_message'), 'the predicted length is the one cached for another request')
    ck.guard(r6_requested_size_reaches_the_port, ck, cx)
    return cx.idx
