"""C20 — device identification is returned completely, in pages that fit (structural rules)."""
import ast

from ..common import Ctx, U, AnalysisError, callee_name, annotate, annotated_copy, ret_expr, Poly, NotInt, constraints, cstr
from ..layout import Writer, normalise, rename_rep, show, Seq, length
from ..declayout import summarise_decode
from spec.tables import MAX_PDU

TITLE = 'device identification is returned completely, in pages that fit'
RSP = 'pymodbus.mei_message.ReadDeviceInformationResponse'
REQ = 'pymodbus.mei_message.ReadDeviceInformationRequest'
FACTORY = 'pymodbus.device.DeviceInformationFactory'
MAX_OBJECT = 245        # the property quantifies over values of length 0..245 (one-byte length field, 253-byte PDU)



def _table_entries(cx, fac, g):
    """[(return node, [(key, value, filter-or-None)] | None)] -- what a getter of the identity factory puts in the table it returns.
    Forms summarised alike: a dict display, a dict comprehension, dict(<generator of pairs>), dict([<pairs>]), and an empty dict
    filled by `table[k] = v` stores (in a loop, possibly behind `if not v: continue` guards); locals are substituted."""
    from ..common import annotate, ret_expr
    out, seen = [], set()
    for p in cx.enum(g, fac, max_depth=0):
        if p.exit and p.exit[0] == 'exc':
            continue
        annotate(p, heap=False)
        r = ret_expr(p)
        rn = next((e.node for e in reversed(p.ev) if e.kind == 'return' and e.frame.fid == 0), None)
        if r is None or rn is None:
            continue
        raw = rn.value
        prs = None
        if isinstance(r, ast.Dict):
            prs = [(k, v, None) for k, v in zip(r.keys, r.values)]
        elif isinstance(r, ast.DictComp) and len(r.generators) == 1:
            prs = [(r.key, r.value, list(r.generators[0].ifs))]
        elif isinstance(r, ast.Call) and callee_name(r) == 'dict' and len(r.args) == 1:
            a = r.args[0]
            if isinstance(a, (ast.GeneratorExp, ast.ListComp)) and isinstance(a.elt, (ast.Tuple, ast.List)) and len(a.elt.elts) == 2 and len(a.generators) == 1:
                prs = [(a.elt.elts[0], a.elt.elts[1], list(a.generators[0].ifs))]
            elif isinstance(a, (ast.List, ast.Tuple)) and all(isinstance(x, (ast.Tuple, ast.List)) and len(x.elts) == 2 for x in a.elts):
                prs = [(x.elts[0], x.elts[1], None) for x in a.elts]
        if prs is None and isinstance(raw, ast.Name):
            # a local table filled by stores: the stores on this path, each with the conditions that guard it
            prs = []
            conds = []
            for e in p.ev:
                if e.kind == 'cond':
                    conds.append((e._sub, e.a))
                elif e.kind == 'assign' and isinstance(e.a, ast.Subscript) and isinstance(e.a.value, ast.Name) and e.a.value.id == raw.id:
                    key = getattr(e, '_subt', None)
                    key = key.slice if isinstance(key, ast.Subscript) else e.a.slice
                    prs.append((key, e._sub if getattr(e, '_sub', None) is not None else e.node.value, list(conds)))
                elif e.kind == 'loop' and e.a in ('enter',):
                    conds = []
            if not prs:
                continue        # the zero-iteration path: nothing stored
        sig = (id(rn), U(r), tuple((U(k), U(v)) for k, v, _ in prs) if prs else None)
        if sig in seen:
            continue
        seen.add(sig)
        out.append((rn, prs))
    return out


def _gets_filters(cx, fac, g):
    """does the multi-object getter drop unpopulated (falsy) objects?  comprehension `if identity[oid]`, or a store guarded by the
    truth of identity[oid]"""
    idp = g.params[1]
    ents = _table_entries(cx, fac, g)
    if not ents:
        return False
    for rn, prs in ents:
        if prs is None:
            return False
        for k, v, flt in prs:
            want = '%s[%s]' % (idp, U(k))
            if flt is None:
                return False
            ok = False
            for f in flt:
                if isinstance(f, tuple):            # (condition, outcome) guarding a store
                    c, pol = f
                    t = U(c)
                    if (t == want and pol is True) or (t == 'not ' + want and pol is False):
                        ok = True
                elif U(f) == want:
                    ok = True
            if not ok:
                return False
    return True

def run(ck, tier):
    cx = Ctx()
    rsp = cx.idx.cls(RSP)
    enc = cx.method(rsp, 'encode')
    eo = cx.method(rsp, '_encode_object')
    nz = cx.nz(rsp.mod, rsp)
    ck.saw('functions', enc.qn)
    ck.saw('functions', eo.qn)
    ck.rule('R1', 'size bound: 1 (fc) + header length + largest total of object bytes admitted by the budget test <= 253')
    ck.rule('R1b', 'accounted = emitted: the amount subtracted from the budget for one object is the number of bytes emitted for it, and the length byte carries the emitted payload length')
    ck.rule('R2', 'progress: an object of the largest admissible size (245 bytes) fits on an empty page, otherwise the continuation chain never terminates')
    ck.rule('R3', 'continuation dataflow: on overflow next_object_id is the id of the first object not emitted and more_follows = 0xFF; number_of_objects counts only emitted objects; the header is packed after the objects; decode reads id, length, value per object')
    ck.rule('R4', 'category sets of the identity factory: basic 0-2, regular 0-6, extended 0-6 and 0x80-0xFF, individual = the requested id; the request forwards read code and object id')

    # ---------------- R1: budget
    budget = None
    for n in ast.walk(enc.node):
        if isinstance(n, ast.Assign) and any(U(t) == 'self.space_left' for t in n.targets):
            budget = cx.ce.try_ev(n.value, enc.mod, rsp)
    if not isinstance(budget, int):
        # the value may be spelt with named parts: take it with the locals substituted, the same on every path
        vals = set()
        for p in cx.enum(enc, rsp, max_depth=0):
            annotate(p, heap=False)
            for e in p.ev:
                if e.kind == 'assign' and U(e.a) == 'self.space_left' and getattr(e, '_sub', None) is not None:
                    vals.add(cx.ce.try_ev(e._sub, enc.mod, rsp))
        if len(vals) == 1:
            budget = vals.pop()
    ck.ob('R1', enc.qn, 'encode() initialises a constant byte budget', isinstance(budget, int), detail='no-budget', loc=cx.floc(enc))
    seq = rename_rep(normalise(Writer(cx, rsp).func(enc)))
    header = Seq([it for it in seq if it[0] == 'F'])
    hlen = length(header, nz).const_value()
    ck.sample({'encode-layout': show(seq)[:200], 'header-bytes': hlen, 'budget': budget})
    # admitted iff remaining >= k after subtraction (non-raising path of _encode_object)
    floor_after = None
    cost = None
    emitted = []
    lenfield = None
    counted_after_check = None
    for p in cx.enum(eo, rsp, max_depth=0):
        hp, st = annotated_copy(p, heap=True)
        raised = p.exit and p.exit[0] == 'exc'
        for e in hp.ev:
            if e.kind == 'cond' and 'space_left' in U(e.node):
                cs = constraints(e._sub, e.a, nz)
                for c in cs:
                    if c[0] == 'ge' and not raised:
                        # c: a*space_left_old - cost - k >= 0
                        poly = c[1]
                        a = poly.t.get(('self.space_left',), 0)
                        if a == 1:
                            rest = Poly({k: -v for k, v in poly.t.items() if k != ('self.space_left',)})
                            # rest = cost + k'
                            cost = Poly({k: v for k, v in rest.t.items() if k != ()}) + Poly.const(2 if rest.t.get((), 0) >= 2 else 0)
                            floor_after = rest.t.get((), 0) - (2 if rest.t.get((), 0) >= 2 else 0)
        if not raised:
            idx_check = [i for i, e in enumerate(hp.ev) if e.kind == 'cond' and 'space_left' in U(e.node)]
            idx_inc = [i for i, e in enumerate(hp.ev) if e.kind == 'aug' and U(e.a) == 'self.number_of_objects']
            counted_after_check = bool(idx_check) and bool(idx_inc) and min(idx_inc) > max(idx_check)
    # layout of one object as emitted
    w = Writer(cx, rsp)
    oseq = rename_rep(normalise(w.func(eo, {eo.params[1]: ast.Name(id='OID', ctx=ast.Load()), eo.params[2]: ast.Name(id='DATA', ctx=ast.Load())})))
    ck.sample({'object-layout': show(oseq)[:200], 'cost': str(cost), 'must-remain-after': floor_after})
    ok_cost = cost is not None and floor_after is not None and isinstance(budget, int)
    ck.ob('R1', eo.qn, 'budget test recognised (remaining = remaining - cost; refuse when remaining <= k)', ok_cost, detail='budget-test-shape', loc=cx.floc(eo))
    if ok_cost and hlen is not None:
        max_objects = budget - floor_after           # largest total cost that is still admitted
        bound = 1 + hlen + max_objects
        ck.ob('R1', enc.qn, 'largest PDU = 1 + %d + %d <= %d' % (hlen, max_objects, MAX_PDU), bound <= MAX_PDU,
              detail='pdu-bound %d' % bound, loc=cx.floc(enc),
              message='ReadDeviceInformationResponse can emit a PDU of %d bytes (header %d + objects up to %d); the limit is %d' % (bound, hlen, max_objects, MAX_PDU))
        ck.ob('R1', enc.qn, 'the budget uses the whole PDU (no page is cut shorter than needed)', bound >= MAX_PDU - 1, detail='pdu-bound-slack %d' % bound, loc=cx.floc(enc))
    # ---------------- R1b  (per non-raising path of _encode_object)
    fields = [it for it in oseq if it[0] == 'F']
    ck.ob('R1b', eo.qn, 'an object is emitted as id (1), length (1), value', len(fields) == 2 and fields[0][1:] == ('B', 'OID') and fields[1][1] == 'B',
          detail='object-layout %s' % show(oseq)[:80], loc=cx.floc(eo))
    npaths = 0
    for p in cx.enum(eo, rsp, max_depth=0):
        if p.exit and p.exit[0] == 'exc':
            continue
        hp, st = annotated_copy(p, heap=True)
        if any(e.kind == 'cond' and U(e.node) == 'IS_PYTHON3' and e.a is False for e in hp.ev):
            continue            # Python 2 branch: not reachable on the interpreters this tree runs on
        pcost = None
        for e in hp.ev:
            if e.kind == 'cond' and 'space_left' in U(e.node):
                for c in constraints(e._sub, e.a, nz):
                    if c[0] == 'ge' and c[1].t.get(('self.space_left',), 0) == 1:
                        rest = Poly({k: -v for k, v in c[1].t.items() if k != ('self.space_left',)})
                        pcost = rest - Poly.const(floor_after if floor_after is not None else 0)
        r = ret_expr(hp)
        parts = []

        def flat(x):
            if isinstance(x, ast.BinOp) and isinstance(x.op, ast.Add):
                flat(x.left)
                flat(x.right)
            else:
                parts.append(x)
        if r is not None:
            flat(r)
        head = parts[0] if parts else None
        okshape = isinstance(head, ast.Call) and callee_name(head) == 'pack' and len(head.args) == 3 and len(parts) == 2
        branch = ' and '.join(('%s' if e.a else 'not (%s)') % U(e.node) for e in hp.ev if e.kind == 'cond' and 'space_left' not in U(e.node)) or 'always'
        npaths += 1
        ck.ob('R1b', eo.qn, 'object bytes = pack(id, length) + payload on branch [%s]' % branch, okshape, detail='object-shape', loc=cx.floc(eo))
        if not okshape:
            continue
        payload = nz.canon(parts[1])
        lenarg = head.args[2]
        want_cost = Poly.const(2) + Poly.atom('len(%s)' % payload)
        ck.ob('R1b', eo.qn, 'budget is charged the emitted size on branch [%s]' % branch, pcost == want_cost,
              detail='accounted %s emitted 2 + len(%s)' % (pcost, payload), loc=cx.floc(eo),
              message='_encode_object charges %s bytes to the budget but emits 2 + len(%s) on branch [%s]: the PDU can become longer than accounted (253-byte limit broken)'
                      % (pcost, payload, branch))
        ck.ob('R1b', eo.qn, 'length byte = emitted payload length on branch [%s]' % branch, nz.canon(lenarg) == 'len(%s)' % payload or
              str(nz.norm(lenarg)) == 'len(%s)' % payload,
              detail='length-field %s emitted len(%s)' % (nz.canon(lenarg), payload), loc=cx.floc(eo),
              message='the object length byte carries %s but %s is emitted' % (nz.canon(lenarg), payload))
    ck.ob('R1b', eo.qn, '_encode_object has an emitting path', npaths > 0, detail='no-emitting-path', loc=cx.floc(eo))
    # ---------------- R2
    if ok_cost:
        largest_payload = budget - floor_after - 2
        ck.ob('R2', eo.qn, 'an object of %d bytes fits on an empty page (largest that fits: %d)' % (MAX_OBJECT, largest_payload), largest_payload >= MAX_OBJECT,
              detail='largest-object-that-fits %d' % largest_payload, loc=cx.floc(eo),
              message='the largest value that fits on an empty page is %d bytes: a %d-byte object never fits, every page is empty with more_follows set and the same next_object_id, the chain never ends' % (largest_payload, MAX_OBJECT))
    # ---------------- R3
    ck.ob('R3', eo.qn, 'number_of_objects is incremented only after the budget test passed', counted_after_check is True, detail='count-before-check', loc=cx.floc(eo))
    handlers = [h for t in ast.walk(enc.node) if isinstance(t, ast.Try) for h in t.handlers]
    okh = False
    for h in handlers:
        nm = h.name
        sets = {U(s.targets[0]): s.value for s in h.body if isinstance(s, ast.Assign)}
        okh = nm is not None and U(sets.get('self.next_object_id', ast.Constant(value=None))) == '%s.oid' % nm and \
            cx.ce.try_ev(sets.get('self.more_follows', ast.Constant(value=None)), enc.mod, rsp) == 0xFF
    ck.ob('R3', enc.qn, 'on overflow: next_object_id = id of the object that did not fit, more_follows = 0xFF', okh, detail='overflow-handler', loc=cx.floc(enc))
    exc = cx.idx.cls('pymodbus.mei_message._OutOfSpaceException')
    raises = [r for r in ast.walk(eo.node) if isinstance(r, ast.Raise) and isinstance(r.exc, ast.Call) and callee_name(r.exc) == '_OutOfSpaceException']
    ck.ob('R3', eo.qn, 'overflow exception carries the id of the refused object', len(raises) == 1 and U(raises[0].exc.args[0]) == eo.params[1], detail='overflow-oid', loc=cx.floc(eo))
    ei = cx.method(exc, '__init__')
    ck.ob('R3', exc.qn, 'exception stores the id as .oid', any(isinstance(n, ast.Assign) and U(n.targets[0]) == 'self.oid' and U(n.value) == ei.params[1] for n in ast.walk(ei.node)),
          detail='oid-store', loc=exc.loc)
    # header packed after the try block
    trys = [s for s in enc.node.body if isinstance(s, ast.Try)]
    packs = [s for s in enc.node.body if any(isinstance(c, ast.Call) and callee_name(c) == 'pack' and 'more_follows' in U(c) for c in ast.walk(s))]
    ck.ob('R3', enc.qn, 'continuation fields are packed after all objects were tried', bool(trys) and bool(packs) and packs[0].lineno > trys[0].lineno,
          detail='header-packed-early', loc=cx.floc(enc))
    # initial values for a page without overflow
    init = cx.method(rsp, '__init__')
    vals = {U(n.targets[0]): cx.ce.try_ev(n.value, init.mod, rsp) for n in ast.walk(init.node) if isinstance(n, ast.Assign) and isinstance(n.targets[0], ast.Attribute)}
    ck.ob('R3', init.qn, 'a page that fits reports more_follows = 0x00 and next_object_id = 0', vals.get('self.more_follows') == 0 and vals.get('self.next_object_id') == 0,
          detail='initial-continuation %s/%s' % (vals.get('self.more_follows'), vals.get('self.next_object_id')), loc=cx.floc(init))
    # decode: object loop
    fn, s = summarise_decode(cx, rsp)
    lp = [l for l in s.loops if l.kind == 'cursor']
    okd = False
    if lp:
        l = lp[0]
        rd = [r for r in s.reads if r.loop == l.lid]
        var = Poly.atom('$' + (l.var or '?'))
        idr = [r for r in rd if r.fmt == 'B' and r.off == var]
        lnr = [r for r in rd if r.fmt == 'B' and r.off == var + Poly.const(1)]
        if idr and lnr:
            want_step = Poly.const(2) + Poly.atom(lnr[0].rid)
            val = 'data[%s:%s]' % (var + Poly.const(2), var + Poly.const(2) + Poly.atom(lnr[0].rid))
            apps = [a for a in s.appends if a[0] == 'information' and a[2] == l.lid]
            okd = l.start == Poly.const(hlen) and l.step == want_step and l.stop == Poly.atom('len(data)') and \
                any(a[1] == val and ('item[%s]' % idr[0].rid) in a[3] for a in apps)
    ck.ob('R3', fn.qn, 'decode walks (id, length, value) records from offset %s to the end and stores value under id' % hlen, okd,
          detail='decode-object-loop', loc=cx.floc(fn), message='ReadDeviceInformationResponse.decode does not read the object list as id(1) length(1) value(length)')
    # ---------------- R4
    fac = cx.idx.cls(FACTORY)
    lk = fac.attrs.get('__lookup')
    ck.ob('R4', fac.qn, 'factory has a per-read-code lookup table', isinstance(lk, ast.Dict), detail='no-lookup', loc=fac.loc)
    if isinstance(lk, ast.Dict):
        const = cx.idx.cls('pymodbus.constants.DeviceInformation')
        want = {1: set(range(0, 3)), 2: set(range(0, 7)), 3: set(range(0, 7)) | set(range(0x80, 0x100))}
        for kx, v in zip(lk.keys, lk.values):
            code = cx.ce.try_ev(kx, fac.mod, fac)
            if not isinstance(v, ast.Lambda):
                continue
            ip = v.args.args[2].arg
            body = v.body
            if code in want:
                arg = body.args[1] if isinstance(body, ast.Call) and len(body.args) == 2 else None
                # the "is the start object populated" lookup c.__get(r, i)[i] is replaced by each truth value in turn,
                # everything else is constant-folded for a concrete start id
                from ..loader import clone

                def ids(pop, start):
                    class Pop(ast.NodeTransformer):
                        def visit_Subscript(self2, n):
                            if isinstance(n.value, ast.Call) and U(n.value.func).endswith('__get'):
                                return ast.Constant(value=pop)
                            return self2.generic_visit(n)
                    if arg is None:
                        return None
                    got = cx.ce.try_ev(Pop().visit(clone(arg)), fac.mod, fac, env={ip: start})
                    try:
                        return set(got) if got is not None else None
                    except TypeError:
                        return None
                sets = [ids(True, 0), ids(False, 0)]
                mid = ids(True, 1)
                ok = all(s_ is not None and s_ == want[code] for s_ in sets)
                ck.ob('R4', fac.qn, 'read code %d from object 0 covers ids %s' % (code, _rng(want[code])), ok,
                      detail='category %d %s' % (code, [_rng(s_) if s_ is not None else None for s_ in sets]), loc=fac.loc,
                      message='DeviceInformationFactory read code %d returns ids %s, expected %s' % (code, [_rng(s_) if s_ is not None else None for s_ in sets], _rng(want[code])))
                okm = mid is not None and mid == {x for x in want[code] if x >= 1}
                ck.ob('R4', fac.qn, 'read code %d continues from the requested object id' % code, okm, detail='continuation %d' % code, loc=fac.loc)
                bad_start = [start for start in sorted(want[code]) if ids(True, start) != {x for x in want[code] if x >= start}]
                ck.ob('R4', fac.qn, 'read code %d: a request starting at any populated object of the category continues from exactly that object' % code,
                      not bad_start, detail='continuation-start %d %s' % (code, _rng(set(bad_start))), loc=fac.loc,
                      message='DeviceInformationFactory read code %d: a continuation request starting at object id(s) %s does not return the objects from that id onward (restart / skip): the chain repeats or loses objects' % (code, _rng(set(bad_start))))
                ck.ob('R4', fac.qn, 'read code %d uses the multi-object getter' % code, isinstance(body, ast.Call) and U(body.func).endswith('__gets'), detail='getter %d' % code, loc=fac.loc)
            elif code == 4:
                ok = isinstance(body, ast.Call) and U(body.func).endswith('__get') and len(body.args) == 2 and U(body.args[1]) == ip
                ck.ob('R4', fac.qn, 'individual access returns exactly the requested object', ok, detail='individual-access', loc=fac.loc)
        g = cx.method(fac, '__gets')
        txt = U(g.node)
        ck.ob('R4', g.qn, 'only populated (non-empty) objects are returned', _gets_filters(cx, fac, g), detail='gets-filter', loc=cx.floc(g))
    # ---------------- R5: exact values
    ck.rule('R5', 'exact values: the factory hands out identity[id] itself for every selected id, and get() returns the selected table unchanged (no conversion between the store and the response)')
    n5 = 0

    def pairs_of(r):
        """(key node, value node) of a dict-building return expression, else None"""
        if isinstance(r, ast.Dict):
            return list(zip(r.keys, r.values))
        if isinstance(r, ast.DictComp):
            return [(r.key, r.value)]
        if isinstance(r, ast.Call) and callee_name(r) == 'dict' and len(r.args) == 1 and isinstance(r.args[0], (ast.GeneratorExp, ast.ListComp)) \
                and isinstance(r.args[0].elt, (ast.Tuple, ast.List)) and len(r.args[0].elt.elts) == 2:
            return [tuple(r.args[0].elt.elts)]
        return None
    for gname in ('__get', '__gets'):
        g = cx.idx.find_method(fac, gname)
        if g is None:
            continue
        ck.saw('functions', g.qn)
        idp = g.params[1]
        for r_node, prs in _table_entries(cx, fac, g):
            n5 += 1
            ok = prs is not None and all(isinstance(v, ast.Subscript) and isinstance(v.value, ast.Name) and v.value.id == idp and U(v.slice) == U(k)
                                         for k, v, _f in prs)
            ck.ob('R5', g.qn, 'each returned value is %s[id] for its own id' % idp, ok, detail='value-not-the-stored-object', loc=cx.floc(g, r_node),
                  message='DeviceInformationFactory.%s returns `%s`: the value served for an object id is not the configured object itself'
                          % (gname.lstrip('_'), U(r_node.value)[:80] if getattr(r_node, 'value', None) is not None else '?'))
    gt = cx.method(fac, 'get')
    ck.saw('functions', gt.qn)
    for p in cx.enum(gt, fac, max_depth=0):
        if p.exit and p.exit[0] == 'exc':
            continue
        annotate(p)
        r = ret_expr(p)
        n5 += 1
        ok = isinstance(r, ast.Call) and isinstance(r.func, ast.Subscript) and U(r.func.value).endswith('__lookup')
        ck.ob('R5', gt.qn, 'get() returns the result of the per-read-code getter unchanged', ok, detail='get-result-converted', loc=cx.floc(gt),
              message='DeviceInformationFactory.get returns `%s` instead of the getter\'s table: the objects served are no longer the configured values '
                      '(e.g. bytes re-encoded as text change length and content on the wire)' % (U(r)[:90] if r is not None else None))
    # the store itself: what identity[id] gives back is the object that was put there, and what is put there is the caller's object
    ident = cx.idx.cls('pymodbus.device.ModbusDeviceIdentification')
    gi = cx.method(ident, '__getitem__')
    ck.saw('functions', gi.qn)
    keyp = gi.params[1]

    def stored(r):
        """is `r` a plain read of the backing dict under the requested key?"""
        if isinstance(r, ast.Subscript):
            return U(r.value).endswith('__data') and U(r.slice) == keyp
        if isinstance(r, ast.Call) and isinstance(r.func, ast.Attribute) and r.func.attr in ('get', 'setdefault') and U(r.func.value).endswith('__data'):
            return bool(r.args) and U(r.args[0]) == keyp and all(isinstance(a, ast.Constant) for a in r.args[1:])
        return False
    for p in cx.enum(gi, ident, max_depth=0):
        if p.exit and p.exit[0] == 'exc':
            continue
        annotate(p, heap=False)
        r = ret_expr(p)
        n5 += 1
        ck.ob('R5', gi.qn, 'identity[id] returns the stored object itself', r is not None and stored(r), detail='identity-getitem-converts', loc=cx.floc(gi),
              message='ModbusDeviceIdentification.__getitem__ returns `%s`, not the object stored under the id: the value served to a client differs from '
                      'the configured one (a conversion between bytes and text changes both length and content once the response encodes it)'
                      % (U(r)[:80] if r is not None else None))
    si = cx.idx.find_method(ident, '__setitem__')
    if si is not None and len(si.params) > 2:
        valp = si.params[2]
        for n_ in ast.walk(si.node):
            if isinstance(n_, ast.Assign) and any(isinstance(t, ast.Subscript) and U(t.value).endswith('__data') for t in n_.targets):
                n5 += 1
                ck.ob('R5', si.qn, 'identity[id] = value stores the caller\'s object itself', isinstance(n_.value, ast.Name) and n_.value.id == valp,
                      detail='identity-setitem-converts', loc=cx.floc(si, n_),
                      message='ModbusDeviceIdentification.__setitem__ stores `%s` instead of the value it was given' % U(n_.value)[:60])
    ci = cx.idx.find_method(ident, '__init__')
    if ci is not None and len(ci.params) > 1:
        # the constructor: what it stores for an id is the object of the dictionary it was given -- `info[key]`, or the value
        # variable of a loop over its items -- not something computed from it
        ck.saw('functions', ci.qn)
        srcp = ci.params[1]
        itemvars = set()
        for lp in [n_ for n_ in ast.walk(ci.node) if isinstance(n_, ast.For)]:
            if isinstance(lp.target, (ast.Tuple, ast.List)) and len(lp.target.elts) == 2 and isinstance(lp.target.elts[1], ast.Name) and srcp in U(lp.iter):
                itemvars.add(lp.target.elts[1].id)
        for n_ in ast.walk(ci.node):
            if isinstance(n_, ast.Assign) and any(isinstance(t, ast.Subscript) and U(t.value).endswith('__data') for t in n_.targets):
                n5 += 1
                v = n_.value
                same = (isinstance(v, ast.Subscript) and isinstance(v.value, ast.Name) and v.value.id == srcp) or (isinstance(v, ast.Name) and v.id in itemvars)
                ck.ob('R5', ci.qn, 'the constructor stores the objects of the dictionary it is given, unchanged', same, detail='identity-init-converts', loc=cx.floc(ci, n_),
                      message='ModbusDeviceIdentification.__init__ stores `%s` instead of the configured object: what Read Device Identification returns is not what the '
                              'application configured (bytes become their repr, numbers become text of another length)' % U(v)[:60])
    up = cx.idx.find_method(ident, 'update')
    if up is not None and len(up.params) > 1:
        ck.saw('functions', up.qn)
        src = up.params[1]
        n5 += 1
        direct = any(isinstance(c, ast.Call) and isinstance(c.func, ast.Attribute) and c.func.attr == 'update' and U(c.func.value).endswith('__data')
                     and c.args and isinstance(c.args[0], ast.Name) and c.args[0].id == src for c in ast.walk(up.node))
        filtered = None
        for lp in [n_ for n_ in ast.walk(up.node) if isinstance(n_, ast.For)]:
            vals = set()
            if isinstance(lp.target, (ast.Tuple, ast.List)) and len(lp.target.elts) == 2 and isinstance(lp.target.elts[1], ast.Name):
                vals.add(lp.target.elts[1].id)
            keyn = lp.target.elts[0].id if isinstance(lp.target, (ast.Tuple, ast.List)) and isinstance(lp.target.elts[0], ast.Name) else (lp.target.id if isinstance(lp.target, ast.Name) else None)
            for t_ in [n_.test for n_ in ast.walk(lp) if isinstance(n_, (ast.If, ast.IfExp))]:
                names = {x.id for x in ast.walk(t_) if isinstance(x, ast.Name)}
                subs = [x for x in ast.walk(t_) if isinstance(x, ast.Subscript) and isinstance(x.value, ast.Name) and x.value.id == src]
                if names & vals or subs:
                    filtered = U(t_)
            stores = [n_ for n_ in ast.walk(lp) if isinstance(n_, ast.Assign) and any(isinstance(t, ast.Subscript) and (U(t.value).endswith('__data') or U(t.value) == 'self') for t in n_.targets)]
            if stores and filtered is None:
                direct = True
        ck.ob('R5', up.qn, 'update() stores every object of the identity it is given, empty ones included', direct and filtered is None,
              detail='identity-update-filters-values', loc=cx.floc(up),
              message='ModbusDeviceIdentification.update %s: an object that is blanked (set to the empty string to retire it) keeps its old value, and '
                      'Read Device Identification goes on returning it' % ('stores an object only when `%s`' % filtered if filtered else 'does not store the objects of its argument'))
    ck.floor('R5', n5, 5, 'value-producing returns of the identity factory and store')
    req = cx.idx.cls(REQ)
    rex = cx.method(req, 'execute')
    calls = [c for c in ast.walk(rex.node) if isinstance(c, ast.Call) and U(c.func) == 'DeviceInformationFactory.get']
    ok = len(calls) == 1 and len(calls[0].args) == 3 and U(calls[0].args[1]) == 'self.read_code' and U(calls[0].args[2]) == 'self.object_id'
    ck.ob('R4', rex.qn, 'request forwards its read code and object id to the factory', ok, detail='request-forwarding', loc=cx.floc(rex))
    rets = [r for r in ast.walk(rex.node) if isinstance(r, ast.Return) and isinstance(r.value, ast.Call) and callee_name(r.value) == 'ReadDeviceInformationResponse']
    ck.ob('R4', rex.qn, 'response carries the request read code and the factory result', len(rets) == 1 and U(rets[0].value.args[0]) == 'self.read_code',
          detail='response-args', loc=cx.floc(rex))
    def _early_exit(ck, cx):
        resp = cx.idx.cls('pymodbus.mei_message.ReadDeviceInformationResponse')
        enc_ = cx.method(resp, 'encode')

        def mr(node, frame, path):
            return ['_OutOfSpaceException'] if isinstance(node, ast.Call) and callee_name(node) == '_encode_object' else []
        n_ = 0
        for p in cx.enum(enc_, resp, max_depth=0, may_raise=mr):
            if p.exit and p.exit[0] == 'exc':
                continue
            annotate(p, heap=False)
            idx_ = [i for i, e in enumerate(p.ev) if e.kind == 'loop' and e.a == 'break' and e.frame.fid == 0]
            handled = any(e.kind == 'handler' for e in p.ev)
            if not idx_ or handled:
                continue
            n_ += 1
            later = [e for e in p.ev[idx_[0]:] if e.kind == 'assign' and U(e.a) in ('self.more_follows', 'self.next_object_id')]
            ck.ob('R3', enc_.qn, 'the object loop is left before its end only with more_follows / next_object_id set', len(later) >= 2,
                  detail='object-loop-left-without-continuation', loc=cx.floc(enc_, p.ev[idx_[0]].node),
                  message='ReadDeviceInformationResponse.encode can break out of the object loop without setting more_follows and next_object_id: '
                          'the remaining objects are dropped and the chain ends early')
        return n_
    ck.guard(_early_exit, ck, cx)
    from .c01 import shared_layout_findings
    n3 = ck.guard(shared_layout_findings, ck, cx, 'R3', ('ReadDeviceInformationResponse', 'ReadDeviceInformationRequest'),
                  'a client following the more-follows chain reads the continuation fields from the wrong bytes', ('R2', 'R3'))
    ck.floor('R3', n3 or 0, 2, 'MEI header layout obligations')
    nx = 0
    for p in cx.enum(rex, req, max_depth=0):
        if p.exit and p.exit[0] == 'exc':
            continue
        annotate(p, heap=False)
        r = ret_expr(p)
        if isinstance(r, ast.Call) and callee_name(r) == 'doException':
            nx += 1
            conds = [U(getattr(e, '_sub', None) or e.node) for e in p.ev if e.kind == 'cond']
            foreign = [c for c in conds if 'read_code' not in c and 'object_id' not in c]
            ck.ob('R4', rex.qn, 'an exception response is returned only for an invalid read code / object id', not foreign,
                  detail='identity-request-refused-on %s' % foreign[:2], loc=cx.floc(rex),
                  message='ReadDeviceInformationRequest.execute refuses a request with valid read code and object id (conditions %s): '
                          'configured objects are not returned' % foreign[:2])
    ck.floor('R4', nx, 1, 'exception-returning paths of the identity request')
    ck.assume('completeness / exactly-once over all identities and whole continuation chains is not decided; these are the structural conditions it rests on')
    from .. import ownership as _own
    ck.guard(_own.rule_instance_owned, ck, cx, 'R6', _own.IDENTITY, 'objects configured for one device identification are returned for another', 1)
    from .. import ownership as _own2
    ck.rule('R7', 'no unsound memoisation (a caching decorator on a method, or on a function that returns a mutable container) in the modules this property rests on')
    ck.guard(_own2.rule_no_unsafe_memo, ck, cx, 'R7', ('pymodbus.device', 'pymodbus.mei_message'), 'the objects returned are those cached for another request or identity')
    from ..share import import_findings as _imp20
    ck.rule('R8', 'a completely filled page reaches the client: the TCP receiver accepts every legal MBAP length 2..254 (a 253-byte PDU announces 254) (shared with C03 R2)')
    _imp20(ck, 'C03', 'R8', ('R2',), 'a page that uses the whole PDU is dropped by the receiving framer: the client never sees those objects and the chain ends there', detail_prefixes=('mbap-length',))
    return cx.idx


def _rng(s):
    s = sorted(s)
    if not s:
        return '{}'
    out, a, b = [], s[0], s[0]
    for x in s[1:]:
        if x == b + 1:
            b = x
        else:
            out.append((a, b))
            a = b = x
    out.append((a, b))
    return ','.join('%d' % a if a == b else '%d-%d' % (a, b) for a, b in out)
