"""C12 — no received byte sequence can crash a server or corrupt its data."""
import ast
import os

from ..common import Ctx, U, AnalysisError, callee_name
from ..frontends import FRONTENDS, recv_paths, frontend_exec_paths
from .c09 import r5_per_connection_framer, FRAMERS, SERVER_MODULES

TITLE = 'no received byte sequence can crash a server or corrupt its data'

MUTATORS = ('setValues',)


def r1_containment(ck, cx, tier):
    ck.rule('R1', 'in every sync / asyncio receive loop no exception raised by framer.processIncomingPacket or the transport read escapes; the handler resets the framer or ends the connection')
    n = 0
    for fe in FRONTENDS:
        cls, f, rps = recv_paths(cx, fe)
        ck.saw('functions', f.qn)
        twisted = fe[0].startswith('twisted')
        for rp in rps:
            if rp.raised is None:
                continue
            n += 1
            escaped = rp.exit is not None and rp.exit[0] == 'exc'
            if twisted:
                # by design: the reactor is the containing frame (checked in the thorough tier)
                continue
            ck.ob('R1', f.qn, '%s raised at %s is contained' % rp.raised, not escaped,
                  detail='escapes %s from %s' % (rp.raised[0], rp.raised[1].split('(')[0]), loc=cx.floc(f),
                  message='%s: %s raised by %s escapes the serving loop' % (fe[0], rp.raised[0], rp.raised[1]))
            if not escaped and 'processIncomingPacket' in rp.raised[1]:
                ck.ob('R1', f.qn, 'after a framer exception the handler resets the framer or ends the connection', rp.reset or rp.stops,
                      detail='no-reset-after %s' % rp.raised[0], loc=cx.floc(f),
                      message='%s: after %s from the framer neither resetFrame() nor a connection stop happens: stale bytes poison later frames' % (fe[0], rp.raised[0]))
        if fe[0] == 'asyncio-datagram':
            # one handler task serves every peer of the endpoint (confirmed below): ending it on a bad datagram ends the service
            srv = cx.idx.cls('pymodbus.server.async_io.ModbusUdpServer')
            shared = any(isinstance(x, ast.Call) and callee_name(x) == 'create_datagram_endpoint' for m_ in srv.methods.values() for x in ast.walk(m_.node))
            if not shared:
                raise AnalysisError('asyncio UDP server no longer builds a datagram endpoint: the shared-handler instance of R1 has lost its anchor')
            for rp in rps:
                if rp.raised is None or 'processIncomingPacket' not in rp.raised[1] or (rp.exit and rp.exit[0] == 'exc'):
                    continue
                ck.ob('R1', f.qn, 'a datagram that makes the framer raise does not end the shared serving task', not rp.stops,
                      detail='shared-datagram-handler-stops-on %s' % rp.raised[0], loc=cx.floc(f),
                      message='asyncio-datagram: after %s from the framer the handler stops (running = False / transport closed); this one task serves '
                              'every peer of the UDP endpoint, so one bad datagram silences the server for all of them' % rp.raised[0])
        if twisted:
            ck.assume('%s: exceptions from %s are contained by the Twisted reactor (tcp.Connection.doRead / udp.Port.doRead log and drop)' % (fe[0], f.name))
    ck.floor('R1', n, 15, 'exceptional receive-loop paths')
    if tier == 'thorough':
        _twisted_reactor(ck, cx)


def _twisted_reactor(ck, cx):
    """cross-check of the reactor containment assumption against the installed Twisted sources"""
    import glob
    cands = glob.glob('/venv/lib/python3*/site-packages/twisted/internet/udp.py')
    if not cands:
        ck.assume('Twisted sources not found under /venv: reactor containment stays an assumption')
        return
    for path, meth in ((cands[0], 'datagramReceived'),):
        try:
            tree = ast.parse(open(path).read())
        except Exception as e:
            ck.assume('cannot parse %s (%s): reactor containment stays an assumption' % (path, e))
            return
        for n in ast.walk(tree):
            for c in ast.iter_child_nodes(n):
                c._p = n
        sites = [n for n in ast.walk(tree) if isinstance(n, ast.Call) and callee_name(n) == meth]
        ok = 0
        for s in sites:
            p = s
            while p is not None:
                if isinstance(p, ast.Try) and any(h.type is None or U(h.type) in ('BaseException', 'Exception') for h in p.handlers):
                    ok += 1
                    break
                p = getattr(p, '_p', None)
        if sites and ok == len(sites):
            ck.ob('R1', 'twisted.internet.udp.Port.doRead', 'reactor encloses protocol.datagramReceived in a catch-all', True)
            ck.note('Twisted %s: %d/%d calls of %s enclosed by a catch-all handler' % (os.path.basename(path), ok, len(sites), meth))
        else:
            ck.assume('Twisted source layout not recognised for %s (%d/%d enclosed): reactor containment stays an assumption' % (meth, ok, len(sites)))


def r2_who_may_mutate(ck, cx):
    ck.rule('R2', 'datastore mutators are called only from Request.execute (and datastore delegation); Request.execute is called only from the front-end execute methods')
    req = cx.idx.cls('pymodbus.pdu.ModbusRequest')
    exec_names = {fe[2] for fe in FRONTENDS}
    n = m = 0
    for fn in cx.idx.all_funcs():
        mod = fn.mod.name
        if mod.startswith(('pymodbus.repl', 'pymodbus.client')):
            continue
        for node in ast.walk(fn.node):
            if not isinstance(node, ast.Call) or not isinstance(node.func, ast.Attribute):
                continue
            if node.func.attr in MUTATORS:
                n += 1
                in_exec = fn.cls is not None and fn.name == 'execute' and cx.idx.is_subclass(fn.cls, req)
                in_store = mod.startswith('pymodbus.datastore')
                ck.ob('R2', fn.qn, 'setValues called from Request.execute or datastore delegation', in_exec or in_store,
                      detail='mutator-call-in %s' % fn.name, loc=cx.floc(fn, node),
                      message='%s calls %s outside a validated Request.execute' % (fn.qn, U(node.func)))
            if node.func.attr == 'execute' and isinstance(node.func.value, ast.Name) and node.func.value.id == 'request' \
                    and mod.startswith('pymodbus.server'):
                m += 1
                ck.ob('R2', fn.qn, 'request.execute called only from the front-end execute callback', fn.name in exec_names,
                      detail='request-execute-in %s' % fn.name, loc=cx.floc(fn, node),
                      message='%s executes a request outside the framer callback' % fn.qn)
    ck.floor('R2', n, 7, 'setValues call sites')
    ck.floor('R2', m, 6, 'request.execute call sites')
    # decoders / framers never touch a datastore
    for fn in cx.idx.all_funcs():
        if fn.mod.name.startswith('pymodbus.framer') or fn.mod.name == 'pymodbus.factory':
            bad = [U(c.func) for c in ast.walk(fn.node) if isinstance(c, ast.Call) and isinstance(c.func, ast.Attribute)
                   and c.func.attr in ('setValues', 'getValues', 'execute')]
            ck.ob('R2', fn.qn, 'framers and decoders do not execute requests or touch datastores', not bad,
                  detail='framer-touches %s' % bad, loc=cx.floc(fn))
    ex = ast.parse("class F:\n def decode(self, d):\n  self.ctx.setValues(3, 0, [1])\n").body[0].body[0]
    ck.positive('R2', any(isinstance(c, ast.Call) and isinstance(c.func, ast.Attribute) and c.func.attr in MUTATORS for c in ast.walk(ex)),
                'setValues inside a decoder')


def r3_no_shared_framing_state(ck, cx):
    ck.rule('R3', 'framers keep no class-level (shared) mutable state; every connection owns its framer')
    n = 0
    for qn in FRAMERS + ['pymodbus.framer.ModbusFramer']:
        c = cx.idx.cls(qn)
        ck.saw('classes', c.qn)
        for k in cx.idx.mro(c):
            for name, v in k.attrs.items():
                n += 1
                mutable = isinstance(v, (ast.List, ast.Dict, ast.Set, ast.ListComp, ast.DictComp)) or \
                    (isinstance(v, ast.Call) and callee_name(v) in ('list', 'dict', 'set', 'bytearray', 'deque'))
                ck.ob('R3', k.qn, 'class attribute %s is immutable' % name, not mutable, detail='class-level-mutable %s' % name, loc=k.loc,
                      message='%s.%s is a class-level mutable object shared by all connections' % (k.qn, name))
        init = cx.idx.find_method(c, '__init__')
        if init is not None:
            assigned = {U(t) for nd in ast.walk(init.node) if isinstance(nd, ast.Assign) for t in nd.targets}
            ck.ob('R3', c.qn, '__init__ creates the per-instance buffer and header', {'self._buffer', 'self._header'} <= assigned or qn.endswith('.ModbusFramer'),
                  detail='buffer-not-per-instance', loc=cx.floc(init))
    r5_per_connection_framer(ck, cx)


def r4_only_checked_frames_execute(ck, cx):
    ck.rule('R4', 'a request reaches the server callback (and so the datastore) only through a delivery that passed the frame check (shared with C07 R1)')
    from .c07 import r1_r2
    sub = type(ck)(ck.pid, ck.tier)
    r1_r2(sub, cx)
    import re
    exempt = re.compile(r'\[-128 \+ [^;\]]*function_code >= 0\]')
    r1f = [f for f in sub.findings if f.rule == 'R1']
    exempt_constructs = {f.construct for f in r1f} - {f.construct for f in r1f
                                                       if f.detail.startswith('delivery-without-checkFrame') and not exempt.search(f.detail)}
    for o in sub.obligations:
        if o[0] == 'R1':
            if not o[3] and o[1] in exempt_constructs:
                # fails for C07, but only function codes >= 0x80 take that path: discharged for C12 (see below)
                ck.obligations.append(('R4', o[1], o[2] + ' -- or the path is restricted to function codes >= 0x80', True))
            else:
                ck.obligations.append(('R4',) + tuple(o[1:]))
    seen = set()
    for f in sub.findings:
        if f.rule != 'R1' or not f.detail.startswith('delivery-without-checkFrame') or (f.construct, f.detail) in seen:
            continue
        seen.add((f.construct, f.detail))
        if exempt.search(f.detail):
            # only codes >= 0x80 take the unchecked path: on a server they decode to IllegalFunctionRequest, which
            # touches no datastore (the bogus exception reply is C07 / C09 matter, not a C12 violation)
            ck.note('unchecked delivery restricted to function codes >= 0x80 (%s): cannot mutate a datastore' % f.construct)
            continue
        ck.finding('R4', f.construct, f.detail, f.loc, f.message + ' — a server executes whatever is delivered, including writes')


def r7_shared_datagram_framer_is_stateless(ck, cx):
    """The asyncio and Twisted UDP front-ends create ONE framer for all peers (R3 / C09 R5 accept that: the endpoint is the
    "connection").  Then nothing of one datagram may still be in the framer when the next one -- from any peer -- arrives: either the
    front-end resets the framer around every datagram, or the default (socket) framer itself leaves its buffer empty whenever it
    returns without delivering."""
    ck.rule('R7', 'datagram front-ends that share one framer between peers: bytes of an undelivered datagram do not stay in the framer (handler resets it, or the socket framer clears its buffer on every non-delivering return)')
    from ..framermodel import framer_paths
    from ..frontends import recv_paths
    shared = [fe for fe in FRONTENDS if fe[0] in ('asyncio-datagram', 'twisted-datagram')]
    handler_resets = {}
    for fe in shared:
        cls, f, rps = recv_paths(cx, fe)
        calls = [rp for rp in rps if rp.pip is not None and not rp.raised]
        handler_resets[fe[0]] = bool(calls) and all(rp.reset for rp in calls)
    cls, f, fps = framer_paths(cx, 'tcp')
    n = 0
    # entry invariant, proved by induction over calls: self._header['len'] == 0 when processIncomingPacket is entered
    # (base: the constructor; step: every path that returns normally leaves it 0).  Paths that contradict it are infeasible.
    import operator as _op
    OPS = {ast.Lt: _op.lt, ast.LtE: _op.le, ast.Gt: _op.gt, ast.GtE: _op.ge, ast.Eq: _op.eq, ast.NotEq: _op.ne}

    def _len_of(v, frame):
        """value of the 'len' entry of a whole-header value (dict display, or anything that folds to a dict), else None"""
        if isinstance(v, ast.Dict):
            for k_, v_ in zip(v.keys, v.values):
                if isinstance(k_, ast.Constant) and k_.value == 'len' and isinstance(v_, ast.Constant):
                    return v_.value
            return None
        if v is None or frame.func is None:
            return None
        folded = cx.ce.try_ev(v, frame.func.mod, frame.cls, default=None)
        return folded.get('len') if isinstance(folded, dict) and isinstance(folded.get('len'), int) else None

    def track(fp):
        """-> (feasible under the invariant, value of header['len'] at the end or None if unknown)"""
        hl = 0
        for ev in fp.path.ev:
            if ev.kind == 'assign':
                tg = getattr(ev, '_subt', None)
                tg = tg if isinstance(tg, ast.AST) else ev.a
                val = getattr(ev, '_sub', None)
                val = val if isinstance(val, ast.AST) else ev.node.value
                pairs = [(tg, val)]
                if isinstance(tg, (ast.Tuple, ast.List)):
                    pairs = list(zip(tg.elts, val.elts)) if isinstance(val, (ast.Tuple, ast.List)) and len(val.elts) == len(tg.elts) else [(x, None) for x in tg.elts]
                for t_, v_ in pairs:
                    t = U(t_)
                    if t == 'self._header':
                        hl = _len_of(v_, ev.frame)
                    elif t == "self._header['len']":
                        c_ = cx.ce.try_ev(v_, ev.frame.func.mod, ev.frame.cls, default=None) if (v_ is not None and ev.frame.func is not None) else None
                        hl = c_ if isinstance(c_, int) and not isinstance(c_, bool) else None
                    elif t.startswith('self._header') and not isinstance(getattr(t_, 'slice', None), ast.Constant):
                        hl = None
            elif ev.kind == 'cond' and hl is not None:
                c = getattr(ev, '_sub', None)
                c = c if isinstance(c, ast.AST) else ev.node
                if isinstance(c, ast.Compare) and len(c.ops) == 1 and U(c.left) == "self._header['len']" and type(c.ops[0]) in OPS:
                    rhs = cx.ce.try_ev(c.comparators[0], ev.frame.func.mod, ev.frame.cls, default=None) if ev.frame.func is not None else None
                    if isinstance(rhs, int) and OPS[type(c.ops[0])](hl, rhs) != ev.a:
                        return False, hl
        return True, hl
    tracked = {id(fp): track(fp) for fp in fps}
    inductive = all(hl == 0 for fp in fps for ok_, hl in [tracked[id(fp)]] if ok_ and not (fp.exit and fp.exit[0] == 'exc'))
    ck.note('entry invariant header[len] == 0 of the socket framer is %s' % ('inductive: used to prune infeasible paths' if inductive else 'NOT inductive: no pruning'))
    for fp in fps:
        if fp.exit and fp.exit[0] == 'exc':
            continue        # the handlers reset the framer after an exception (R1)
        if inductive and not tracked[id(fp)][0]:
            continue
        if fp.deliveries and not fp.absences:
            continue
        if any(e.kind == 'cond' and e.a is False and U(getattr(e, '_sub', None) or e.node).replace(' ', '') in ('len(self._buffer)', 'self._buffer') for e in fp.path.ev):
            continue        # the buffer is empty on this path: nothing to retain
        marks = [k_ for i_, k_, n_ in fp.loops]
        if marks and marks[-1] == 'backedge':
            # one iteration is enumerated: a path that ends on the back-edge goes on with the next iteration, it is not a return.
            # Only the paths that LEAVE the frame loop say what is still buffered when the call returns.
            continue
        n += 1
        cleared = any(k == 'clear' for i, k in fp.shrinks)
        entered_with_data = True
        why = fp.absences[0][1][1] if fp.absences else 'frame check failed'
        for fe in shared:
            ck.ob('R7', f.qn, '%s: nothing of an undelivered datagram stays buffered' % fe[0], cleared or handler_resets[fe[0]] or not fp.absences and not _buffer_nonempty(fp),
                  detail='datagram-bytes-retained %s' % fe[0], loc=cx.floc(f),
                  message='%s shares one socket framer between all peers, and the framer can return with the bytes of an undelivered datagram still '
                          'buffered (%s): they are prepended to the next datagram, from whichever peer' % (fe[0], why))
    ck.floor('R7', n, 2, 'loop-leaving, non-delivering paths of the socket framer')


def _buffer_nonempty(fp):
    # a path on which the frame loop was never entered with data (empty buffer) keeps nothing
    return True


def run(ck, tier):
    cx = Ctx()
    ck.guard(r1_containment, ck, cx, tier)
    ck.guard(r2_who_may_mutate, ck, cx)
    ck.guard(r3_no_shared_framing_state, ck, cx)
    ck.guard(r4_only_checked_frames_execute, ck, cx)
    ck.guard(r7_shared_datagram_framer_is_stateless, ck, cx)
    ck.rule('R5', 'a write request changes exactly what its fields declare: decode() of every write request reads the spec layout, no more and no fewer values than the quantity field says (shared with C01 R3)')
    from .c01 import shared_layout_findings
    n5 = ck.guard(shared_layout_findings, ck, cx, 'R5', ('WriteMultipleCoilsRequest', 'WriteMultipleRegistersRequest', 'ReadWriteMultipleRegistersRequest',
                                                         'WriteSingleCoilRequest', 'WriteSingleRegisterRequest', 'MaskWriteRegisterRequest', 'WriteFileRecordRequest'),
                  'a malformed frame then writes cells its header does not declare', ('R3',))
    ck.floor('R5', n5 or 0, 7, 'decode layout obligations of the write requests')
    ck.rule('R14', 'a framer that handles one frame per call keeps nothing behind a frame it skips: otherwise every later request is executed one read late, in the place of another')
    from .c06 import r14_single_shot_skip_keeps_nothing as _r14
    from ..framermodel import framer_paths as _fp14
    for kind in ('tcp', 'rtu', 'ascii', 'binary'):
        kcls, kf, kfps = _fp14(cx, kind)
        ck.guard(_r14, ck, cx, kind, kcls, kf, kfps, 'R14', ' — writes are applied late and each response answers the previous request')
    ck.rule('R6', 'no write reaches the datastore before every guard and the range validation of that very range have passed (shared with C05 R2/R3)')
    from ..share import import_findings
    import_findings(ck, 'C05', 'R6', ('R2', 'R3', 'R7'), 'a request that is not valid changes the datastore')
    ck.assume('statements of the receive loops other than the framer call and the transport read are treated as non-raising (logging, attribute reads)')
    ck.assume('what a decoded-but-nonsensical PDU does inside decode() is shown to be contained, not absent; resource exhaustion is not decided')
    from .. import ownership as _own
    ck.guard(_own.rule_instance_owned, ck, cx, 'R8', _own.DECODERS[:1] + _own.FRAMERS, 'traffic of one connection / server changes how the bytes of another are decoded', 6)
    from .. import loops as _loops
    from ..msgtables import registered_classes as _rc
    ck.guard(_loops.rule_cursor_loops, ck, cx, 'R9', _rc(cx)[0], 'the thread serving the connection (on the asyncio and Twisted servers: the event loop serving every connection) spins for ever on one malformed request', 2)
    from .c17 import r8_handler_bound_to_its_server
    ck.guard(r8_handler_bound_to_its_server, ck, cx, 'R10')
    from .c17 import r9_read_size_covers_an_adu
    ck.guard(r9_read_size_covers_an_adu, ck, cx, 'R11')
    from .. import strtypes as _st
    ck.rule('R12', 'hexlify_packets, evaluated with the receive buffer on every reset / processing path outside any log-level guard, is total: what it joins is text')
    ck.guard(_st.rule_join_total, ck, cx, 'R12', ('pymodbus.utilities.hexlify_packets',), 'the exception is raised again inside the except branch of the serving loop, which ends it')
    from .. import strtypes as _st2
    ck.rule('R13', 'the text of the library exceptions is built totally: a __str__ that concatenates an attribute is given text by every construction site')
    ck.guard(_st2.rule_exception_text_total, ck, cx, 'R13', 'the serving coroutine / thread ends with a TypeError raised while logging the exception it had caught')
    return cx.idx
