"""C07 — corrupted frames are never delivered as messages (structural necessary conditions)."""
import ast

from ..common import Ctx, U, AnalysisError, callee_name, annotate, annotated_copy, ret_expr, Poly, NotInt
from ..framermodel import FRAMER_CLASSES, framer_paths, instance_constants, BUF

TITLE = 'corrupted frames are never delivered as messages'
KINDS = ('tcp', 'rtu', 'ascii', 'binary')
CHECK = {'rtu': 'checkCRC', 'binary': 'checkCRC', 'ascii': 'checkLRC'}


def _slice_bounds(node, nz, env):
    """bounds (lo, hi) as Poly of a slice of self._buffer, looking through a2b_hex()/bytes()"""
    while isinstance(node, ast.Call) and callee_name(node) in ('a2b_hex', 'bytes', 'unhexlify') and node.args:
        node = node.args[0]
    if isinstance(node, ast.Subscript) and _is_bufv(node.value) and isinstance(node.slice, ast.Slice):
        lo = nz.norm(node.slice.lower, env) if node.slice.lower is not None else Poly.const(0)
        hi = nz.norm(node.slice.upper, env) if node.slice.upper is not None else None
        return lo, hi, U(node.value)
    return None


def _is_bufv(node):
    return isinstance(node, ast.Name) and node.id.startswith('buffer_v')


def _find_domain(fp, upto, nz, env):
    """value of `buffer.find(x)` atoms implied by the path conditions before `upto`
    (find() >= -1; != -1 and <= 0  =>  0)"""
    from ..sym import constraints
    bounds = {}
    for i, ev in enumerate(fp.ev[:upto]):
        if ev.kind != 'cond':
            continue
        try:
            cs = constraints(ev._sub, ev.a, nz, env)
        except Exception:
            continue
        for c in cs:
            if c[0] not in ('ge', 'ne', 'eq'):
                continue
            p = c[1]
            atoms = [k for k in p.t if k != ()]
            if len(atoms) != 1 or len(atoms[0]) != 1 or '.find(' not in atoms[0][0]:
                continue
            a, co, k = atoms[0][0], p.t[atoms[0]], p.t.get((), 0)
            b = bounds.setdefault(a, [-1, None, set()])
            if c[0] == 'ge':
                if co == 1:
                    b[0] = max(b[0], -k)
                elif co == -1:
                    b[1] = k if b[1] is None else min(b[1], k)
            elif c[0] == 'ne' and abs(co) == 1:
                b[2].add(-k * co)
            elif c[0] == 'eq' and abs(co) == 1:
                b[0] = b[1] = -k * co
    out = {}
    for a, (lo, hi, ne) in bounds.items():
        while lo in ne:
            lo += 1
        if hi is not None and lo == hi:
            out[a] = Poly.const(lo)
    return out


def r1_r2(ck, cx):
    ck.rule('R1', 'every path to a delivery passes the true outcome of the integrity check (checkCRC / checkLRC / MBAP length vs buffer) inside checkFrame()')
    ck.rule('R2', 'the byte range fed to the checksum ends where the delivered frame ends and starts at or before the unit byte; the check value is read from the bytes right after it')
    nd = 0
    for kind in KINDS:
        cls, f, fps = framer_paths(cx, kind)
        ck.saw('functions', f.qn)
        nz = cx.nz(f.mod, cls)
        env = {k: ast.Constant(value=v) for k, v in instance_constants(cx, cls).items() if isinstance(v, int)}
        for fp in fps:
            for d in fp.deliveries:
                nd += 1
                cf = [t for i, t in fp.truths.get('checkFrame', []) if i < d]
                gate_cf = bool(cf) and cf[-1] is True
                # the conditions (outside the root function) under which the unchecked delivery happens are part of the key,
                # so that a different / wider unchecked path is a different finding
                side = []
                if not gate_cf:
                    from ..sym import constraints as _cons, cstr as _cstr
                    for e2 in fp.path.ev[:d]:
                        if e2.kind == 'cond' and e2.frame.fid != 0 and ('function_code' in U(e2._sub) or 'result' in U(e2._sub)):
                            try:
                                side += [_cstr(c) for c in _cons(e2._sub, e2.a, nz)]
                            except Exception:
                                side.append('%s=%s' % (U(e2._sub), e2.a))
                ck.ob('R1', f.qn, 'delivery dominated by checkFrame() == True', gate_cf,
                      detail='delivery-without-checkFrame' + (' [%s]' % '; '.join(sorted(set(side))) if side else ''), loc=cx.floc(f),
                      message='%s framer can deliver a message on a path where checkFrame() did not succeed (when %s)' % (kind, '; '.join(sorted(set(side))) or 'always'))
                if kind in CHECK:
                    integ = [x for x in fp.integrity if x[0] < d and x[1] == CHECK[kind]]
                    ok = bool(integ) and integ[-1][2] is True
                    ck.ob('R1', f.qn, 'delivery dominated by %s(...) == True' % CHECK[kind], ok, detail='delivery-without-%s' % CHECK[kind],
                          loc=cx.floc(f), message='%s framer can deliver a message without a successful %s' % (kind, CHECK[kind]))
                    if not ok:
                        continue
                    fenv = dict(env)
                    hp, _ = annotated_copy(fp.path, heap=True, versioned=(BUF,))
                    dom = _find_domain(hp, integ[-1][0], nz, env)
                    call = hp.ev[integ[-1][0]]._sub
                    chk = _slice_bounds(call.args[0], nz, fenv) if call.args else None
                    # delivered bytes: argument of decoder.decode(...) on this path
                    dec = [ev for ev in hp.ev[:d] if ev.kind == 'call' and callee_name(ev.node) == 'decode']
                    got = _slice_bounds(dec[-1]._sub.args[0], nz, fenv) if dec and dec[-1]._sub.args else None
                    # the check value: read from the bytes right after the checked range
                    if chk is not None and len(call.args) > 1:
                        rng = None
                        for sn in ast.walk(call.args[1]):
                            if isinstance(sn, ast.Subscript) and _is_bufv(sn.value) and isinstance(sn.slice, ast.Slice):
                                rng = (nz.norm(sn.slice.lower, fenv) if sn.slice.lower is not None else Poly.const(0),
                                       nz.norm(sn.slice.upper, fenv) if sn.slice.upper is not None else None)
                        okv = rng is not None and chk[1] is not None and rng[0].subst(dom) == chk[1].subst(dom) and \
                            rng[1] is not None and (rng[1] - rng[0]).const_value() == 2
                        ck.ob('R2', f.qn, 'check value is read from the two bytes/characters right after the checked range', okv,
                              detail='check-value-position %s' % (str(rng[0]) if rng else 'unrecognised'), loc=cx.floc(f),
                              message='%s framer reads the check value at %s but the checked range ends at %s' % (kind, rng, chk[1]))
                    if dec and dec[-1]._sub.args and isinstance(dec[-1]._sub.args[0], ast.Constant) and dec[-1]._sub.args[0].value in (b'', ''):
                        continue        # degenerate frame: nothing of the buffer is delivered
                    ck.ob('R2', f.qn, 'checksum input and delivered frame are slices of the buffer', chk is not None and got is not None,
                          detail='unrecognised-ranges', loc=cx.floc(f))
                    if chk is None or got is None:
                        continue
                    ck.ob('R2', f.qn, 'buffer is not modified between the check and the delivery', chk[2] == got[2],
                          detail='buffer-changed-between-check-and-delivery', loc=cx.floc(f))
                    clo, chi = chk[0].subst(dom), chk[1].subst(dom) if chk[1] is not None else None
                    glo, ghi = got[0].subst(dom), got[1].subst(dom) if got[1] is not None else None
                    ck.sample({'framer': kind, 'checked': [str(clo), str(chi)], 'delivered': [str(glo), str(ghi)]})
                    ck.ob('R2', f.qn, 'checked range ends where the delivered PDU ends', chi is not None and chi == ghi,
                          detail='check-range-end %s vs %s' % (chi, ghi), loc=cx.floc(f),
                          message='%s framer: checksum covers [..%s) but the delivered PDU is [..%s)' % (kind, chi, ghi))
                    diff = (glo - clo).const_value()
                    unit = 2 if kind == 'ascii' else 1
                    ck.ob('R2', f.qn, 'checked range starts at the unit byte', diff == unit,
                          detail='check-range-start %s vs %s' % (clo, glo), loc=cx.floc(f),
                          message='%s framer: checksum covers [%s..) but the unit byte is at %s - %d: the unit id / first bytes are not protected' % (kind, clo, glo, unit))
                else:
                    # TCP: MBAP length must be consistent with the buffer: len(buffer) >= hsize - 1 + header len
                    found, consts_ = False, []
                    from ..sym import constraints
                    for ev in fp.path.ev[:d]:
                        if ev.kind == 'cond' and ev.frame.func is not None and ev.frame.func.name == 'checkFrame':
                            for c in constraints(ev._sub, ev.a, nz, env):
                                if c[0] == 'ge':
                                    p = c[1]
                                    if p.t.get(('len(%s)' % BUF,), 0) > 0 and p.t.get(("self._header['len']",), 0) < 0:
                                        found = True
                                        consts_.append(p.t.get((), 0))
                    ck.ob('R1', f.qn, 'delivery dominated by the MBAP length check len(buffer) >= hsize - 1 + length', found,
                          detail='delivery-without-mbap-length-check', loc=cx.floc(f),
                          message='tcp framer can deliver a message without checking the MBAP length field against the buffered bytes')
                    hs = env_int(env, 'self._hsize')
                    if found and hs is not None:
                        ck.ob('R1', f.qn, 'MBAP length check requires exactly hsize - 1 + length buffered bytes', all(c == -(hs - 1) for c in consts_),
                              detail='mbap-length-check-constant %s' % sorted(set(consts_)), loc=cx.floc(f),
                              message='tcp framer accepts a frame when len(buffer) + (%s) >= length; the MBAP length counts unit id + PDU, so the constant must be %d'
                                      % (sorted(set(consts_)), -(hs - 1)))
    ck.floor('R1', nd, 8, 'delivery paths')


def env_int(env, key):
    v = env.get(key)
    return v.value if isinstance(v, ast.Constant) and isinstance(v.value, int) else None


def r3_shape(ck, cx):
    ck.rule('R3', 'checkCRC(data, v) is computeCRC(data) == v; checkLRC likewise; CRC-16 constants 0xFFFF / 0xA001')
    u = cx.idx.mod('pymodbus.utilities')
    for chk, comp in (('checkCRC', 'computeCRC'), ('checkLRC', 'computeLRC')):
        fn = cx.idx.func('pymodbus.utilities.' + chk)
        ck.saw('functions', fn.qn)
        ok = False
        for p in cx.enum(fn, None, max_depth=0, resolver=lambda c, fr, pa: None):
            annotate(p)
            r = ret_expr(p)
            if isinstance(r, ast.Compare) and len(r.ops) == 1 and isinstance(r.ops[0], ast.Eq):
                sides = [r.left, r.comparators[0]]
                c = [s for s in sides if isinstance(s, ast.Call) and callee_name(s) == comp and len(s.args) == 1 and U(s.args[0]) == fn.params[0]]
                v = [s for s in sides if isinstance(s, ast.Name) and s.id == fn.params[1]]
                ok = len(c) == 1 and len(v) == 1
        ck.ob('R3', fn.qn, '%s(data, check) returns %s(data) == check' % (chk, comp), ok, detail='comparison-shape', loc=cx.floc(fn),
              message='%s is not an equality between the computed and the received check value' % chk)
    cc = cx.idx.func('pymodbus.utilities.computeCRC')
    # the CRC register is the loop-carried local of the byte loop (assigned in the loop from its own previous value); its value on
    # loop entry, constant-folded, is the preset
    carried = set()
    for lp in [n for n in ast.walk(cc.node) if isinstance(n, (ast.For, ast.While))]:
        for n in ast.walk(lp):
            if isinstance(n, ast.Assign) and len(n.targets) == 1 and isinstance(n.targets[0], ast.Name) \
                    and any(isinstance(x, ast.Name) and x.id == n.targets[0].id for x in ast.walk(n.value)):
                carried.add(n.targets[0].id)
            elif isinstance(n, ast.AugAssign) and isinstance(n.target, ast.Name):
                carried.add(n.target.id)
    presets = []
    for st_ in cc.node.body:
        if isinstance(st_, ast.Assign) and len(st_.targets) == 1 and isinstance(st_.targets[0], ast.Name) and st_.targets[0].id in carried:
            presets.append(cx.ce.try_ev(st_.value, cc.mod, None, default=None))
    ck.ob('R3', cc.qn, 'CRC register starts at 0xFFFF', presets == [0xFFFF],
          detail='crc-init %s' % (presets[0] if len(presets) == 1 else presets or None), loc=cx.floc(cc))
    gen = cx.idx.func('pymodbus.utilities.__generate_crc16_table')
    polys = [n.right.value for n in ast.walk(gen.node) if isinstance(n, ast.BinOp) and isinstance(n.op, ast.BitXor)
             and isinstance(n.right, ast.Constant)]
    ck.ob('R3', gen.qn, 'reflected CRC-16 polynomial constant is 0xA001', polys == [0xA001], detail='crc-poly %s' % polys, loc=cx.floc(gen))


def r2_delivered_range_is_declared_range(ck, cx):
    """TCP has no checksum: what protects a frame is that the bytes handed to the decoder are exactly the ones the MBAP
    length declares and that were waited for -- getFrame's range (shared with C03 R2)"""
    from . import c03
    sub = type(ck)(ck.pid, ck.tier)
    builds = sub.guard(c03.r1_build, sub, cx) or {}
    sub.findings = []
    sub.obligations = []
    sub.guard(c03.r2_agreement, sub, cx, builds)
    n = 0
    for o in sub.obligations:
        if 'getFrame' in str(o[2]) or 'advanceFrame' in str(o[2]):
            ck.obligations.append(('R2',) + tuple(o[1:]))
            n += 1
    for f in sub.findings:
        if f.detail.startswith(('getFrame-range', 'advance')):
            ck.finding('R2', f.construct, f.detail, f.loc, f.message + ' — the bytes delivered are not the bytes the header declares')
    ck.broken += sub.broken
    ck.floor('R2', n, 4, 'getFrame / advanceFrame range obligations')



def r4_pdu_extent(ck, cx, rule='R4'):
    """TCP: the socket framer cuts the frame by the MBAP length field and checks nothing else, so the only thing that ties the MBAP
    length to the PDU is the codec: decode() receives exactly the bytes the length field announced.  The length is consistent with
    the PDU when decode() either consumes that buffer exactly -- struct.unpack(<constant format>, <the whole buffer>) raises unless
    the sizes agree -- or lets the buffer's own length bound what it reads (loops / formats bounded by len(buffer): the extent IS the
    content).  A decode() that reads a prefix by its own count fields and ignores the rest accepts a frame whose length field was
    damaged or that was extended: the message is delivered (and executed) although length and PDU disagree."""
    from ..msgtables import registered_classes
    ck.rule(rule, 'every registered message decodes the whole buffer the MBAP length announced: exact-size struct.unpack of the un-sliced buffer, or reads bounded by len(buffer)')
    req, rsp = registered_classes(cx)
    n = 0
    seen = set()
    for k in req + rsp + [cx.idx.cls('pymodbus.pdu.ExceptionResponse')]:
        fn = cx.idx.find_method(k, 'decode')
        if fn is None or fn.qn in seen:
            continue
        seen.add(fn.qn)
        ck.saw('functions', fn.qn)
        par = fn.params[1] if len(fn.params) > 1 else None
        exact = bounded = False
        for c in ast.walk(fn.node):
            if isinstance(c, ast.Call) and U(c.func) in ('struct.unpack', 'unpack') and len(c.args) == 2 and isinstance(c.args[1], ast.Name) and c.args[1].id == par:
                exact = True
            if isinstance(c, ast.Call) and isinstance(c.func, ast.Name) and c.func.id == 'len' and c.args and isinstance(c.args[0], ast.Name) and c.args[0].id == par:
                # len(buffer) used as a loop bound / in the format / compared: the extent of the buffer takes part in decoding
                bounded = True
        n += 1
        ck.ob(rule, fn.qn, 'decode() consumes exactly the announced buffer, or bounds its reads by len(buffer)', exact or bounded,
              detail='decode-ignores-buffer-extent', loc=cx.floc(fn),
              message='%s reads a prefix of its buffer by its own count fields and never looks at how long the buffer is: a TCP frame whose MBAP length '
                      'field exceeds the PDU (damaged length field, or bytes of the next frame swallowed) is delivered as this message' % fn.qn)
    ck.floor(rule, n, 40, 'decode() methods of registered messages')


def r8_failed_frame_is_dropped_before_any_delivery(ck, cx, rule='R8'):
    """A frame that failed its check is damaged; its bytes must not reach a callback through another door.  The iteration of
    processIncomingPacket in which checkFrame() fails ends with the buffer emptied (resetFrame), or with the buffer exactly as it
    was (the same bytes are checked again when more have arrived).  Consuming only what the damaged header claims and going on
    leaves the rest of the damaged frame at the head of the buffer, where the next iteration -- or the raw-frame fallback --
    decodes it as if it were a frame (iterations are enumerated one at a time, so this is decided per iteration)."""
    ck.rule(rule, 'bytes of a frame that failed checkFrame() are never delivered: the iteration in which the check fails empties the buffer or leaves it untouched, it never consumes part of the damaged frame and carries on')
    n = 0
    for kind in KINDS:
        cls, f, fps = framer_paths(cx, kind)
        for fp in fps:
            fails = [i for i, t in fp.truths.get('checkFrame', []) if t is False]
            if not fails or (fp.exit and fp.exit[0] == 'exc'):
                continue
            n += 1
            i0 = fails[-1]
            marks = [i for i, k_, n_ in fp.loops if i < i0]
            lo = marks[-1] if marks else 0
            if fp.absences:
                continue            # the check "failed" because the frame is not complete yet: nothing is damaged (C06 decides what may happen then)
            n += 0
            # skipping noise in front of a start delimiter is not consuming part of the frame
            part = [i for i, k_ in fp.shrinks if k_ != 'clear' and i >= lo and '.find(' not in U(getattr(fp.path.ev[i], '_sub', None) or fp.path.ev[i].node)]
            clears = [i for i, k_ in fp.shrinks if k_ == 'clear' and i > i0]
            later_ok = [i for i, t in fp.truths.get('checkFrame', []) if t is True and i > i0]
            ck.ob(rule, f.qn, 'a failed frame check is followed by a buffer clear, or nothing of the frame was consumed', bool(clears or later_ok) or not part,
                  detail='partial-consume-after-failed-check', loc=cx.floc(f, fp.path.ev[i0].node),
                  message='%s framer: in the iteration in which checkFrame() fails, part of the buffer is consumed (what the damaged header claims) and the rest is kept: '
                          'the remainder of the damaged frame stays at the head of the buffer and is decoded as if it were a frame (next iteration / raw-frame fallback), '
                          'so bytes that failed the integrity check reach the callback' % kind)
            for d in fp.deliveries:
                if d > i0 and not [i for i in clears if i < d] and not [i for i in later_ok if i < d]:
                    ck.ob(rule, f.qn, 'no delivery after a failed check without a clear', False, detail='delivery-after-failed-check-without-clear', loc=cx.floc(f, fp.path.ev[i0].node),
                          message='%s framer delivers a message after checkFrame() failed on the same path without emptying the buffer in between' % kind)
    ck.floor(rule, n, 4, 'paths with a failed frame check')


def r7_decode_failure_is_not_a_message(ck, cx, rule='R7'):
    """R4 rests on this: when a codec rejects the buffer it was given (struct.error / IndexError from an exact-size unpack), nothing is
    delivered.  The decoders call X.decode(data[1:]) on the freshly looked-up message; on every path where that call raises, the
    decoder either lets the exception go (the framer then delivers nothing) or returns None -- it never returns a message object
    built in a handler, which the framer would deliver for a frame whose length field and PDU disagree."""
    ck.rule(rule, 'a codec that rejects its buffer never yields a delivered message: on the raising paths of the decoders\' decode()/_helper() the result is an exception or None')
    n = 0
    for dn in ('ServerDecoder', 'ClientDecoder'):
        d = cx.idx.cls('pymodbus.factory.' + dn)
        for mname in ('_helper', 'decode'):
            f = cx.method(d, mname)
            ck.saw('functions', f.qn)

            def mr(node, frame, path, _m=mname):
                if isinstance(node, ast.Call) and isinstance(node.func, ast.Attribute):
                    if node.func.attr == 'decode' and not (isinstance(node.func.value, ast.Name) and node.func.value.id == 'self'):
                        return ['struct.error', 'IndexError']
                    if _m == 'decode' and node.func.attr == '_helper':
                        return ['struct.error', 'IndexError']
                return []
            for p in cx.enum(f, d, resolver=lambda c, fr, pa: None, may_raise=mr, max_depth=0):
                raised = [e for e in p.ev if e.kind == 'raise']
                if not raised:
                    continue
                n += 1
                if p.exit and p.exit[0] == 'exc':
                    ck.ob(rule, f.qn, 'a codec failure leaves %s as an exception' % mname, True)
                    continue
                annotate(p, heap=False)
                r = ret_expr(p)
                none = r is None or (isinstance(r, ast.Constant) and r.value is None)
                ck.ob(rule, f.qn, 'a caught codec failure yields None, not a message', none, detail='decode-failure-becomes-message %s' % mname, loc=cx.floc(f),
                      message='%s.%s catches the %s its codec raised for the buffer and returns `%s`: the framer delivers that object, so a TCP frame whose '
                              'MBAP length disagrees with its PDU (the only reason a fixed-layout codec rejects a buffer) reaches the application / is answered'
                              % (dn, mname, raised[0].a if isinstance(raised[0].a, str) else 'exception', U(r)[:60] if r is not None else None))
    ck.floor(rule, n, 3, 'raising paths of the decoders')

def run(ck, tier):
    cx = Ctx()
    ck.guard(r1_r2, ck, cx)
    ck.guard(r8_failed_frame_is_dropped_before_any_delivery, ck, cx)
    ck.guard(r3_shape, ck, cx)
    ck.guard(r2_delivered_range_is_declared_range, ck, cx)
    ck.guard(r4_pdu_extent, ck, cx)
    ck.guard(r7_decode_failure_is_not_a_message, ck, cx)
    ck.assume('which corruptions CRC-16 / LRC detect is the mathematics of the codes and is not decided; nor is the arithmetic inside computeCRC/computeLRC beyond the constants')
    from .. import ownership as _own2
    ck.rule('R5', 'no unsound memoisation (a caching decorator on a method, or on a function that returns a mutable container) in the modules this property rests on')
    ck.guard(_own2.rule_no_unsafe_memo, ck, cx, 'R5', ('pymodbus.framer', 'pymodbus.framer.socket_framer', 'pymodbus.framer.rtu_framer', 'pymodbus.framer.ascii_framer', 'pymodbus.framer.binary_framer', 'pymodbus.framer.tls_framer', 'pymodbus.utilities'), 'an integrity check is answered from a value cached for other bytes')
    from ..share import import_findings as _imp2
    ck.rule('R6', 'the bytes the integrity check sees are the bytes that were received: addToFrame appends the chunk unmodified (shared with C06 R7)')
    _imp2(ck, 'C06', 'R6', ('R7',), 'the checksum is then computed over repaired bytes: a frame that was damaged on the line is accepted')
    return cx.idx
