"""C16 — asynchronous (Twisted) client matches pipelined replies by transaction id."""
import ast

from ..common import Ctx, U, AnalysisError, callee_name, annotate, annotated_copy, ret_expr, is_const

TITLE = 'asynchronous (Twisted) client matches pipelined replies by transaction id'
PROTO = 'pymodbus.client.asynchronous.twisted.ModbusClientProtocol'
UDP = 'pymodbus.client.asynchronous.twisted.ModbusUdpClientProtocol'
TM = 'pymodbus.transaction.ModbusTransactionManager'
DICT = 'pymodbus.transaction.DictTransactionManager'
FIFO = 'pymodbus.transaction.FifoTransactionManager'


def _index(events, pred):
    for i, ev in enumerate(events):
        if pred(ev):
            return i
    return None


def r1_execute(ck, cx, cls):
    f = cx.method(cls, 'execute')
    ck.saw('functions', f.qn)
    n = 0
    for p in cx.enum(f, cls, max_depth=0):
        annotate(p)
        n += 1
        req = f.params[1]
        i_tid = _index(p.ev, lambda e: e.kind == 'assign' and U(e.a) == req + '.transaction_id')
        i_build = _index(p.ev, lambda e: e.kind == 'call' and callee_name(e.node) == 'buildPacket')
        i_write = _index(p.ev, lambda e: e.kind == 'call' and callee_name(e.node) in ('write', 'sendto', 'send') and 'transport' in U(e.node.func))
        i_reg = _index(p.ev, lambda e: e.kind == 'call' and callee_name(e.node) == '_buildResponse')
        tv = (getattr(p.ev[i_tid], '_sub', None) or p.ev[i_tid].node.value) if i_tid is not None else None      # a local is looked through
        ok = isinstance(tv, ast.Call) and U(tv.func) == 'self.transaction.getNextTID'
        ck.ob('R1', f.qn, 'request.transaction_id = self.transaction.getNextTID()', ok, detail='tid-not-from-getNextTID', loc=cx.floc(f),
              message='%s does not take the request id from getNextTID()' % f.qn)
        ck.ob('R1', f.qn, 'id assigned before the packet is built', i_tid is not None and i_build is not None and i_tid < i_build,
              detail='tid-assigned-after-build', loc=cx.floc(f), message='%s builds the packet before assigning the transaction id' % f.qn)
        ck.ob('R1', f.qn, 'packet written to the transport is the built packet', i_write is not None and i_build is not None and i_build < i_write,
              detail='write-before-build', loc=cx.floc(f))
        regarg = U(p.ev[i_reg].node.args[0]) if i_reg is not None and p.ev[i_reg].node.args else None
        ck.ob('R1', f.qn, 'deferred registered under the id that was sent', regarg == req + '.transaction_id' and i_tid is not None and i_reg > i_tid,
              detail='registration-key %s' % regarg, loc=cx.floc(f),
              message='%s registers the deferred under %s, not under the transaction id it sent' % (f.qn, regarg))
    return n


def r2_tid(ck, cx):
    tm = cx.idx.cls(TM)
    f = cx.method(tm, 'getNextTID')
    ck.saw('functions', f.qn)
    for p in cx.enum(f, tm, max_depth=0):
        st = annotate(p, heap=False)
        v = st.heap.get('self.tid')
        ok = False
        if isinstance(v, ast.BinOp) and isinstance(v.op, ast.BitAnd):
            sides = [v.left, v.right]
            mask = [s for s in sides if cx.ce.try_ev(s, f.mod, tm) == 0xffff]
            inc = [s for s in sides if isinstance(s, ast.BinOp) and isinstance(s.op, ast.Add) and
                   sorted([U(s.left), U(s.right)]) == ['1', 'self.tid']]
            ok = len(mask) == 1 and len(inc) == 1
        elif isinstance(v, ast.BinOp) and isinstance(v.op, ast.Mod) and not isinstance(v.left, ast.Constant):
            ok = cx.ce.try_ev(v.right, f.mod, tm) == 0x10000 and isinstance(v.left, ast.BinOp) and isinstance(v.left.op, ast.Add) and \
                sorted([U(v.left.left), U(v.left.right)]) == ['1', 'self.tid']
        ck.ob('R2', f.qn, 'next id = (tid + 1) & 0xffff', ok, detail='tid-arithmetic %s' % (U(v) if v is not None else 'unset'), loc=cx.floc(f),
              message='getNextTID computes %s: outstanding ids are not distinct 16-bit values' % (U(v) if v is not None else None))
        r = ret_expr(p)
        same = r is not None and (U(r) == 'self.tid' or (v is not None and U(r) == U(v)))
        ck.ob('R2', f.qn, 'returns the new id', same, detail='tid-return %s' % (U(r) if r is not None else None), loc=cx.floc(f))


def r3_r4_handle(ck, cx, cls):
    f = cx.method(cls, '_handleResponse')
    ck.saw('functions', f.qn)
    reply = f.params[1]
    delivered = 0
    for p in cx.enum(f, cls, max_depth=0):
        annotate(p)
        i_get = _index(p.ev, lambda e: e.kind == 'call' and callee_name(e.node) == 'getTransaction')
        i_cb = _index(p.ev, lambda e: e.kind == 'call' and callee_name(e.node) == 'callback')
        if i_cb is None:
            continue
        delivered += 1
        key = U(p.ev[i_get]._sub.args[0]) if i_get is not None and p.ev[i_get]._sub.args else None
        ck.ob('R3', f.qn, 'handler looked up by the reply\'s transaction id', key == reply + '.transaction_id',
              detail='routing-key %s' % key, loc=cx.floc(f), message='%s routes a reply by %s instead of reply.transaction_id' % (f.qn, key))
        ck.ob('R4', f.qn, 'entry removed from the registry before the callback fires', i_get is not None and i_get < i_cb,
              detail='callback-before-removal', loc=cx.floc(f))
        cbarg = U(p.ev[i_cb]._sub.args[0]) if p.ev[i_cb]._sub.args else None
        ck.ob('R3', f.qn, 'deferred fires with the reply', cbarg == reply, detail='callback-arg %s' % cbarg, loc=cx.floc(f))
        # fired only when a handler exists
        hc = [e for e in p.ev[:i_cb] if e.kind == 'cond' and e.a is True and 'getTransaction' in U(e._sub)]
        ck.ob('R3', f.qn, 'unsolicited replies (no pending handler) are dropped', bool(hc), detail='no-handler-guard', loc=cx.floc(f))
    ck.ob('R3', f.qn, 'has a delivering path', delivered > 0, detail='no-delivery', loc=cx.floc(f))


def r4_managers(ck, cx):
    d = cx.idx.cls(DICT)
    g = cx.method(d, 'getTransaction')
    ck.saw('functions', g.qn)
    from ..common import removes_on_pickup
    ok, why = removes_on_pickup(cx, g, d)
    ck.ob('R4', g.qn, 'getTransaction(tid) removes and returns transactions[tid]', ok, detail='dict-get %s' % why[:60], loc=cx.floc(g),
          message='DictTransactionManager.getTransaction does not remove the entry: a duplicate reply fires the deferred twice')
    a = cx.method(d, 'addTransaction')
    oka = False
    for p in cx.enum(a, d, max_depth=0):
        annotate(p)
        for ev in p.ev:
            if ev.kind == 'assign' and isinstance(ev.a, ast.Subscript) and U(ev.a.value) == 'self.transactions':
                k = U(ev._subt.slice)
                oka = oka or (a.params[2] in k and U(ev.node.value) == a.params[1])
    ck.ob('R4', a.qn, 'addTransaction(d, tid) stores d under tid', oka, detail='dict-add', loc=cx.floc(a))
    # FIFO
    fm = cx.idx.cls(FIFO)
    fa, fg = cx.method(fm, 'addTransaction'), cx.method(fm, 'getTransaction')
    apps = [c for c in ast.walk(fa.node) if isinstance(c, ast.Call) and callee_name(c) == 'append' and U(c.func.value) == 'self.transactions']
    ck.ob('R7', fa.qn, 'FIFO addTransaction appends', len(apps) == 1 and U(apps[0].args[0]) == fa.params[1], detail='fifo-add', loc=cx.floc(fa))
    pops = [c for c in ast.walk(fg.node) if isinstance(c, ast.Call) and callee_name(c) == 'pop' and U(c.func.value) == 'self.transactions']
    ck.ob('R7', fg.qn, 'FIFO getTransaction pops index 0', len(pops) == 1 and pops[0].args and cx.ce.try_ev(pops[0].args[0], fg.mod, fm) == 0,
          detail='fifo-get', loc=cx.floc(fg), message='FifoTransactionManager.getTransaction does not pop the oldest entry')
    it = cx.idx.find_method(d, '__iter__')
    ck.ob('R5', d.qn, 'iterating the manager yields the pending ids', it is not None and 'self.transactions' in U(it.node), detail='iter', loc=d.loc)


def r5_r6_connection(ck, cx, cls):
    f = cx.method(cls, 'connectionLost')
    ck.saw('functions', f.qn)
    loops = 0
    for p in cx.enum(f, cls, max_depth=0):
        annotate(p)
        flag = [e for e in p.ev if e.kind == 'assign' and U(e.a) == 'self._connected']
        ck.ob('R5', f.qn, 'connectionLost clears the connected flag', bool(flag) and is_const(flag[-1].node.value, False),
              detail='connected-flag-not-cleared', loc=cx.floc(f))
        entered = [e for e in p.ev if e.kind == 'loop' and e.a == 'enter']
        if not entered:
            continue
        loops += 1
        # what the loop walks: the iterable of a `for`, or -- for an indexed `while` -- the sequence whose length bounds the index;
        # a local is looked through to the value it was given before the loop
        lnode = entered[0].node
        li = p.ev.index(entered[0])

        def _bound(name):
            for e_ in reversed(p.ev[:li]):
                if e_.kind == 'assign' and isinstance(e_.a, ast.Name) and e_.a.id == name:
                    return e_.node.value
            return None
        if isinstance(lnode, ast.For):
            it = lnode.iter
            if isinstance(it, ast.Name) and _bound(it.id) is not None:
                it = _bound(it.id)
        else:
            cands = [_bound(x.id) for x in ast.walk(lnode.test) if isinstance(x, ast.Name)]
            cands = [c_ for c_ in cands if isinstance(c_, ast.Call)]
            it = cands[0] if cands else lnode.test
        snap = isinstance(it, ast.Call) and callee_name(it) in ('list', 'tuple', 'sorted') and it.args and U(it.args[0]) in ('self.transaction', 'self.transaction.transactions')
        ck.ob('R5', f.qn, 'iterates a snapshot of all pending ids', snap, detail='iteration %s' % U(it), loc=cx.floc(f),
              message='connectionLost iterates %s while removing entries' % U(it))
        errs = [e for e in p.ev if e.kind == 'call' and callee_name(e.node) == 'errback']
        gets = [e for e in p.ev if e.kind == 'call' and callee_name(e.node) == 'getTransaction']
        ck.ob('R5', f.qn, 'every pending deferred is removed and errback-ed', bool(errs) and bool(gets),
              detail='pending-not-failed', loc=cx.floc(f), message='connectionLost does not fail the pending deferreds')
        # the flag is down before the first errback runs: an errback may re-issue a request on this protocol, which
        # must get a failed deferred (R6) instead of being registered after the snapshot and never fired
        i_flag = _index(p.ev, lambda e: e.kind == 'assign' and U(e.a) == 'self._connected' and is_const(e.node.value, False))
        i_err = _index(p.ev, lambda e: e.kind == 'call' and callee_name(e.node) == 'errback')
        if i_err is not None:
            ck.ob('R5', f.qn, 'connected flag cleared before the first pending deferred is failed', i_flag is not None and i_flag < i_err,
                  detail='flag-cleared-after-errback', loc=cx.floc(f),
                  message='connectionLost fails the pending deferreds while the protocol still reports itself connected: a request re-issued from an errback is registered on the dead connection and never fires')
        for e in errs:
            ck.ob('R5', f.qn, 'fails with a ConnectionException', 'ConnectionException' in U(getattr(e, '_sub', None) or e.node), detail='errback-arg', loc=cx.floc(f))
    ck.ob('R5', f.qn, 'connectionLost walks the pending requests', loops > 0, detail='no-loop', loc=cx.floc(f))
    b = cx.method(cls, '_buildResponse')
    ck.saw('functions', b.qn)
    seen = 0
    for p in cx.enum(b, cls, max_depth=0):
        annotate(p)
        conn = [e for e in p.ev if e.kind == 'cond' and U(e._sub).replace('not ', '') == 'self._connected']
        connected = None
        for e in conn:
            connected = e.a if not U(e._sub).startswith('not ') else (not e.a)
        adds = [e for e in p.ev if e.kind == 'call' and callee_name(e.node) == 'addTransaction']
        r = ret_expr(p)
        if connected is False:
            seen += 1
            ck.ob('R6', b.qn, 'not connected: nothing is registered', not adds, detail='registers-while-disconnected', loc=cx.floc(b))
            ck.ob('R6', b.qn, 'not connected: a failed deferred is returned', r is not None and 'fail' in U(r) and 'ConnectionException' in U(r),
                  detail='no-failed-deferred', loc=cx.floc(b))
        elif connected is True:
            ck.ob('R6', b.qn, 'connected: deferred registered under the given id', len(adds) == 1 and len(adds[0].node.args) == 2
                  and U(adds[0].node.args[1]) == b.params[1], detail='registration', loc=cx.floc(b))
    ck.ob('R6', b.qn, '_buildResponse tests the connected flag', seen > 0, detail='no-connected-test', loc=cx.floc(b),
          message='a request issued after connection loss is registered and never fails')
    cm = cx.method(cls, 'connectionMade')
    ck.ob('R6', cm.qn, 'connectionMade sets the connected flag', any(isinstance(n, ast.Assign) and U(n.targets[0]) == 'self._connected' and is_const(n.value, True)
                                                                  for n in ast.walk(cm.node)), detail='connected-flag-not-set', loc=cx.floc(cm))


def r5_registry_only_emptied_by_pickup(ck, cx, cls):
    """pending deferreds leave the registry only by getTransaction (reply, or the errback loop of connectionLost): a reset /
    clear / delTransaction from a protocol method drops them without firing"""
    n = 0
    for k in [cls] + cx.idx.subclasses(cls):
        for fn in k.methods.values():
            for c in ast.walk(fn.node):
                if isinstance(c, ast.Call) and isinstance(c.func, ast.Attribute) and U(c.func.value) in ('self.transaction', 'self.transaction.transactions'):
                    n += 1
                    ck.ob('R5', fn.qn, 'protocol touches the registry only through getNextTID / addTransaction / getTransaction / iteration',
                          c.func.attr in ('getNextTID', 'addTransaction', 'getTransaction', '__iter__'),
                          detail='registry-emptied-by %s' % c.func.attr, loc=cx.floc(fn, c),
                          message='%s calls transaction.%s(): requests still pending at that moment are forgotten, their deferreds never fire '
                                  '(connectionLost has nothing left to errback)' % (fn.qn, c.func.attr))
    ck.floor('R5', n, 3, 'registry calls in the Twisted client protocol')



def r11_client_admits_every_reply(ck, cx, rule='R11'):
    """Replies are paired by transaction id, so the client must be handed EVERY checked frame of a segment.  The receive call passes
    a unit list to the framer, which skips frames of other units.  (a) The admission must not hinge on the unit of the first frame of
    the segment: `single=True`, or a constant wildcard list.  (b) The wildcard the call relies on when that first unit is 0 / 0xFF
    must hold: _validate_unit_id accepts every frame when the list it is given contains 0 or 0xFF."""
    ck.rule(rule, 'the client hands every checked frame to the reply router: its receive call does not filter by the unit of the first frame, and a unit list containing 0 / 0xFF admits every frame')
    from ..common import annotate, ret_expr
    n = 0
    for qn in (PROTO,):
        k = cx.idx.cls(qn)
        f = cx.method(k, 'dataReceived')
        ck.saw('functions', f.qn)
        for p in cx.enum(f, k, max_depth=0):
            annotate(p, heap=False)
            for e in p.ev:
                if e.kind == 'call' and callee_name(e.node) == 'processIncomingPacket' and getattr(e, '_sub', None) is not None:
                    n += 1
                    c = e._sub
                    kw = {x.arg: x.value for x in c.keywords if x.arg}
                    unit = kw.get('unit', c.args[2] if len(c.args) > 2 else None)
                    single = kw.get('single')
                    free = (isinstance(single, ast.Constant) and single.value is True) or \
                        (unit is not None and cx.ce.try_ev(unit, f.mod, k, default=None) in (0, 0xFF, [0], [0xFF], [0, 0xFF]))
                    ck.ob(rule, f.qn, 'the receive call admits frames of every unit', free, detail='client-filters-replies-by-first-unit', loc=cx.floc(f, e.node),
                          message='%s passes unit=`%s` to the framer: frames of the segment that carry another unit id are skipped, so with requests to several '
                                  'units outstanding a reply that arrived is never routed to its deferred' % (f.qn, U(unit)[:60] if unit is not None else None))
    fr = cx.idx.cls('pymodbus.framer.ModbusFramer')
    v = cx.method(fr, '_validate_unit_id')
    ck.saw('functions', v.qn)
    units = v.params[1]
    wild = {0: False, 255: False}
    for p in cx.enum(v, fr, max_depth=0):
        annotate(p, heap=False)
        r = ret_expr(p)
        for e in p.ev:
            t = getattr(e, '_sub', None)
            if e.kind == 'cond' and isinstance(t, ast.Compare) and len(t.ops) == 1 and isinstance(t.ops[0], ast.In) and U(t.comparators[0]) == units and e.a is True:
                cval = cx.ce.try_ev(t.left, v.mod, fr, default=None)
                if cval in wild and isinstance(r, ast.Constant) and r.value is True:
                    wild[cval] = True
    n += 1
    ck.ob(rule, v.qn, 'a unit list containing 0 or 0xFF admits every frame', all(wild.values()), detail='no-wildcard-admission %s' % sorted(k_ for k_, ok_ in wild.items() if not ok_),
          loc=cx.floc(v), message='_validate_unit_id no longer accepts every frame when the list of units contains 0 / 0xFF: the asynchronous client, whose list is '
                                  'the unit of the first frame of the segment, then skips the replies of the other units that share the segment')
    ck.floor(rule, n, 2, 'receive call and wildcard rows')


def r12_every_chunk_reaches_the_framer(ck, cx, rule='R12'):
    """Routing by transaction id happens per decoded frame, inside the framer callback.  Whatever dataReceived decides about a chunk
    before the framer saw it is decided about its first bytes only -- a segment can carry several replies.  So every normally
    returning path of dataReceived hands the received chunk, unmodified, to framer.processIncomingPacket (an empty chunk aside)."""
    ck.rule(rule, 'every received chunk reaches the framer: dataReceived has no path that returns without framer.processIncomingPacket(<the chunk>, ...)')
    from ..common import annotate
    n = 0
    k = cx.idx.cls(PROTO)
    f = cx.method(k, 'dataReceived')
    ck.saw('functions', f.qn)
    data = f.params[1]
    empty = {data: False, 'not %s' % data: True, 'len(%s) == 0' % data: True, 'len(%s)' % data: False, 'len(%s) > 0' % data: False, 'len(%s) < 1' % data: True}
    for p in cx.enum(f, k, max_depth=0):
        annotate(p, heap=False)
        if isinstance(p.exit, tuple) and p.exit[0] == 'exc':
            continue
        n += 1
        fed, why = False, None
        for e in p.ev:
            t = getattr(e, '_sub', None)
            if e.kind == 'cond' and t is not None and empty.get(U(t)) is e.a and U(t) in empty:
                fed = True              # nothing was received
            if e.kind == 'call' and callee_name(e.node) == 'processIncomingPacket' and t is not None:
                a0 = t.args[0] if t.args else {x.arg: x.value for x in t.keywords}.get('data')
                if a0 is not None and U(a0) == data:
                    fed = True
                else:
                    why = 'hands `%s` to the framer instead of the chunk' % (U(a0)[:40] if a0 is not None else None)
            if e.kind in ('assign', 'aug') and isinstance(e.a, ast.Name) and e.a.id == data and not fed:
                why = 'rebinds `%s` before the framer call' % data
                break
        conds = [('' if e.a else 'not ') + U(e._sub)[:50] for e in p.ev if e.kind == 'cond' and getattr(e, '_sub', None) is not None]
        ck.ob(rule, f.qn, 'path [%s] feeds the chunk to the framer' % '; '.join(conds)[:80], fed and why is None, detail='chunk-not-fed-to-framer', loc=cx.floc(f, p.ev[-1].node if p.ev else None),
              message='%s returns %s when [%s]: the decision is taken on the first bytes of the chunk, but a segment can carry several replies — the ones behind it are '
                      'never decoded and their deferreds never fire' % (f.qn, why or 'without handing the received chunk to framer.processIncomingPacket', '; '.join(conds)[:160]))
    ck.floor(rule, n, 1, 'normally returning paths of dataReceived')


def r13_fifo_pickup_ignores_its_argument(ck, cx, rule='R13'):
    """connectionLost() walks `list(self.transaction)` and calls getTransaction(x) for every x.  Iterating the keyed manager yields
    transaction ids; iterating the FIFO manager yields the STORED OBJECTS (the deferreds).  So FifoTransactionManager.getTransaction
    is called with a deferred on that path, and may do nothing with its argument that needs a number: `%d` formatting or
    arithmetic on it raises TypeError before anything is popped, and no pending deferred is ever failed."""
    ck.rule(rule, 'FifoTransactionManager.getTransaction treats its argument as opaque (connectionLost hands it the stored deferreds): no %d-style formatting of, arithmetic on or indexing by the argument')
    k = cx.idx.cls('pymodbus.transaction.FifoTransactionManager')
    f = cx.method(k, 'getTransaction')
    ck.saw('functions', f.qn)
    tid = f.params[1] if len(f.params) > 1 else None
    bad = None
    for x in ast.walk(f.node):
        if tid is None:
            break
        uses = lambda e: any(isinstance(n_, ast.Name) and n_.id == tid for n_ in ast.walk(e))
        if isinstance(x, ast.BinOp) and isinstance(x.op, ast.Mod) and isinstance(x.left, ast.Constant) and isinstance(x.left.value, str) and uses(x.right):
            import re as _re
            if _re.search(r'%[-+ 0#]*\d*(?:\.\d+)?[diouxXeEfFgGc]', x.left.value):
                bad = (x, 'formats it with `%s`' % x.left.value[:40])
        elif isinstance(x, ast.BinOp) and not isinstance(x.op, ast.Mod) and (uses(x.left) or uses(x.right)):
            bad = (x, 'does arithmetic on it')
        elif isinstance(x, ast.Subscript) and uses(x.slice):
            bad = (x, 'indexes with it')
        elif isinstance(x, ast.Call) and isinstance(x.func, ast.Attribute) and x.func.attr == 'format' and isinstance(x.func.value, ast.Constant) and any(uses(a_) for a_ in x.args):
            import re as _re
            if _re.search(r'\{[^}]*:[^}]*[dxXobeEfFgGn]\}', str(x.func.value.value)):
                bad = (x, 'formats it with `%s`' % str(x.func.value.value)[:40])
    ck.ob(rule, f.qn, 'the argument is not used as a number', bad is None, detail='fifo-pickup-needs-a-number', loc=cx.floc(f, bad[0]) if bad else cx.floc(f),
          message='FifoTransactionManager.getTransaction %s: connectionLost() of the serial client calls it with the stored deferreds (that is what iterating the FIFO manager yields), '
                  'so the call raises TypeError and no outstanding deferred is failed when the connection is lost' % (bad[1] if bad else ''))
    ck.floor(rule, 1, 1, 'FIFO pickup method')


def run(ck, tier):
    cx = Ctx()
    ck.rule('R1', 'execute: id from getNextTID assigned before buildPacket; deferred registered under that id')
    ck.rule('R2', 'getNextTID = (tid + 1) & 0xffff')
    ck.rule('R3', 'reply routed by reply.transaction_id; unsolicited replies dropped')
    ck.rule('R4', 'registry entry removed (pop) before the callback fires')
    ck.rule('R5', 'connectionLost clears the flag, iterates a snapshot, errbacks every pending deferred')
    ck.rule('R6', 'requests while not connected get a failed deferred and are not registered')
    ck.rule('R7', 'FIFO variant: append / pop(0)')
    cls = cx.idx.cls(PROTO)
    n = r1_execute(ck, cx, cls)
    r1_execute(ck, cx, cx.idx.cls(UDP))
    ck.guard(r2_tid, ck, cx)
    ck.guard(r3_r4_handle, ck, cx, cls)
    r3_r4_handle(ck, cx, cx.idx.cls(UDP))
    ck.guard(r4_managers, ck, cx)
    ck.guard(r5_r6_connection, ck, cx, cls)
    ck.guard(r5_registry_only_emptied_by_pickup, ck, cx, cls)
    # which manager the protocol uses
    init = cx.method(cls, '__init__')
    sel = {}
    for p in cx.enum(init, cls, max_depth=0):
        st = annotate(p, heap=True)
        socket = None
        for i, e in enumerate(p.ev):
            if e.kind == 'cond' and isinstance(e._sub, ast.Call) and callee_name(e._sub) == 'isinstance' and len(e._sub.args) == 2 \
                    and U(e._sub.args[1]) == 'ModbusSocketFramer':
                socket = e.a
                # the test must see the framer the protocol is going to use: no later rebinding of the tested attribute
                tested = U(e.node.args[0]) if isinstance(e.node, ast.Call) and e.node.args else None
                late = [x for x in p.ev[i + 1:] if x.kind == 'assign' and tested and U(x.a) == tested]
                ck.ob('R7', init.qn, 'the framer tested for the manager selection is the final framer object', not late,
                      detail='framer-rebound-after-selection', loc=cx.floc(init, late[0].node) if late else cx.floc(init),
                      message='%s is assigned again after the transaction manager was chosen by isinstance(%s, ModbusSocketFramer): '
                              'a framer passed as a class is tested before it is instantiated and gets the FIFO manager' % (tested, tested))
        v = st.heap.get('self.transaction')
        if socket is not None and isinstance(v, ast.Call):
            sel.setdefault(socket, set()).add(U(v.func))
        elif socket is None and isinstance(v, ast.Call) and isinstance(v.func, ast.Call) and isinstance(v.func.func, ast.Attribute) \
                and isinstance(v.func.func.value, ast.Name) and v.func.func.value.id in ('self', cls.name):
            # the manager class is chosen by a private helper: its paths give the same table (framer test -> class returned)
            h = cx.idx.find_method(cls, v.func.func.attr)
            if h is not None:
                for hp in cx.enum(h, cls, max_depth=0):
                    annotate(hp, heap=False)
                    pol = None
                    for e in hp.ev:
                        if e.kind == 'cond' and isinstance(e._sub, ast.Call) and callee_name(e._sub) == 'isinstance' and len(e._sub.args) == 2 \
                                and U(e._sub.args[1]) == 'ModbusSocketFramer':
                            pol = e.a
                    r = ret_expr(hp)
                    if pol is not None and isinstance(r, ast.Name):
                        sel.setdefault(pol, set()).add(r.id)
    txt = {k: sorted(v) for k, v in sel.items()}
    ck.ob('R7', init.qn, 'socket framer -> dictionary manager, other framers -> FIFO manager',
          txt == {True: ['DictTransactionManager'], False: ['FifoTransactionManager']},
          detail='manager-selection %s' % sorted(txt.items()), loc=cx.floc(init))
    ck.floor('R1', n, 1, 'execute paths')
    ck.rule('R8', 'several replies in one segment are all dispatched: the socket framer consumes exactly one ADU per delivered message (shared with C03 R2)')
    from ..share import import_findings
    import_findings(ck, 'C03', 'R8', ('R2',), 'the reply that follows in the same TCP segment is cut or lost and its deferred never fires',
                    detail_prefixes=('getFrame-range', 'advance'), construct_contains=('socket_framer',))
    ck.assume('Deferred semantics (fires once) are Twisted\'s; behaviour with more than 65535 outstanding requests is not decided')
    from .. import ownership as _own
    ck.guard(_own.rule_instance_owned, ck, cx, 'R9', _own.MANAGERS[1:], 'pending deferreds of one connection are visible to (and consumed by) another connection with the same transaction ids', 2)
    from .. import ownership as _own3
    ck.guard(_own3.rule_instance_owned, ck, cx, 'R10', _own3.TWISTED_CLIENTS, 'the receive buffer and the pending-request table of one connection are used by every other connection of the process (a fragment left by one shifts the replies of all)', 3, None, ('framer', 'transaction'))
    ck.guard(r11_client_admits_every_reply, ck, cx)
    ck.guard(r12_every_chunk_reaches_the_framer, ck, cx)
    ck.guard(r13_fifo_pickup_ignores_its_argument, ck, cx)
    return cx.idx
