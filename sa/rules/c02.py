"""C02 — encode/decode are mutual inverses and encoding is pure (structural rules)."""
import ast

from ..common import Ctx, U, AnalysisError, callee_name
from ..layout import Writer, normalise, rename_rep, select, show, Seq
from ..declayout import summarise_decode
from ..pdumatch import Spec, match_decode, words_ok
from ..msgtables import table, code_of
from .c01 import all_codec_classes
from spec import pdu_layouts as PL

TITLE = 'encode/decode are mutual inverses and encoding is pure'

MUTATORS = {'append', 'extend', 'insert', 'update', 'setdefault', 'pop', 'remove', 'clear', 'add'}


def as_reader_spec(seq, spec_seq):
    """turn a writer summary into the item language match_decode understands; RAW lengths inside
    repeated records are taken from the spec entry when the spec has the same RAW at that position"""
    out = Seq()
    for i, it in enumerate(seq):
        sp = spec_seq[i] if spec_seq is not None and i < len(spec_seq) else None
        if it[0] in ('F', 'BITS', 'OBJECTS', 'WORDS'):
            out.append(it)
        elif it[0] == 'RAW':
            if sp is not None and sp[0] == 'RAW' and sp[1] == it[1] and len(sp) > 2:
                out.append(('RAW', it[1], sp[2]))
            else:
                out.append(it)
        elif it[0] == 'REP':
            inner_spec = sp[1] if sp is not None and sp[0] == 'REP' else None
            out.append(('REP', as_reader_spec(it[1], inner_spec), it[2], it[3]))
        elif it[0] == 'ALT':
            # diagnostic message data
            src = None
            for leaf in _leaves(it):
                for x in leaf:
                    if x[0] in ('REP',):
                        src = x[2]
                    elif x[0] == 'F':
                        src = x[2]
            if src is not None and words_ok(Seq([it]), src):
                out.append(('WORDS', src))
            else:
                return None
        else:
            return None
    return out


def _leaves(alt):
    res = []
    for br in (alt[2], alt[3]):
        if len(br) == 1 and br[0][0] == 'ALT':
            res += _leaves(br[0])
        else:
            res.append(br)
    return res


def r1_agreement(ck, cx):
    ck.rule('R1', 'writer/reader agreement: decode() reads every field that encode() writes at the same offset with the same width into the attribute it was packed from; repeated items are read with the stride and count they were written with (independent of the spec table)')
    done = set()
    n = 0
    classes = all_codec_classes(cx) + [(cx.idx.cls('pymodbus.pdu.ExceptionResponse'), None, 'exception')]
    for k, spec, kind in classes:
        enc, dec = cx.idx.find_method(k, 'encode'), cx.idx.find_method(k, 'decode')
        if enc is None or dec is None:
            continue
        fc = code_of(cx, k)
        entry = PL.EXCEPTION if kind == 'exception' else (spec.get(fc) or {})
        got = rename_rep(normalise(select(Writer(cx, k).func(enc), lambda c: False if c == 'self.skip_encode' else None)))
        sp = Spec(cx, k)
        spec_seq = sp.parse(entry.get('layout', ''))
        if spec_seq and spec_seq[-1][0] == 'OBJECTS':
            # MEI object list: header fields only here, the object list is decided by C20
            got = Seq(list(got[:len(spec_seq) - 1]) + [('OBJECTS', 'self.information')])
        rs = as_reader_spec(got, spec_seq)
        fn, s = summarise_decode(cx, k)
        key = (enc.qn, dec.qn)
        ck.saw('classes', k.qn)
        if key in done:
            continue
        done.add(key)
        n += 1
        if rs is None:
            ck.ob('R1', enc.qn, 'encode layout is expressible for comparison', False, detail='encode-not-comparable', loc=cx.floc(enc),
                  message='encode() of %s has a shape the comparison does not understand: %s' % (k.name, show(got)[:120]))
            continue
        diffs = match_decode(rs, s, cx.nz(fn.mod, k), dict(entry.get('inv') or {}, __min_record__=entry.get('min_record', 1)))
        if len(ck.samples) < 8:
            ck.sample({'class': k.name, 'encode': show(got)[:140], 'decode-reads': [repr(r) for r in s.reads][:8]})
        # the other direction: a leading fixed field that decode() stores in attribute A is written by encode() from A --
        # an encode() that emits its own constant there (or resets A first) loses what was decoded
        import re as _re
        from ..sym import Poly as _Poly
        from ..pdumatch import _isz
        off = 0
        for it in got:
            if it[0] != 'F':
                break
            rd = [r for r in s.reads if r.loop is None and r.off == _Poly.const(off) and r.fmt.lstrip('<>!=') == it[1].lstrip('<>!=')]
            if rd:
                attrs = [a for a, vals in s.assigns.items() if any(v == rd[0].rid for v, _lp in vals)]
                for a in attrs:
                    ck.ob('R1', '%s / %s' % (enc.qn, dec.qn.split('.')[-2] + '.decode'), 'field at offset %d, decoded into self.%s, is encoded from self.%s (or derived from the message), not from a constant' % (off, a, a),
                          bool(_re.search(r'\bself\.%s\b' % _re.escape(a), str(it[2]))) or 'self.' in str(it[2]),
                          detail='encode-ignores-decoded %s@%d' % (a, off), loc=cx.floc(enc),
                          message='%s: decode() stores the field at offset %d in self.%s but encode() writes `%s` there: decode followed by encode does not give the bytes back'
                                  % (k.name, off, a, it[2]))
            off += _isz(it[1])
        ck.ob('R1', '%s / %s' % (enc.qn, dec.qn.split('.')[-2] + '.decode'), 'decode reads what encode writes', not diffs,
              detail='asymmetric ' + '; '.join(d[0] for d in diffs), loc=cx.floc(dec),
              message='%s: encode writes `%s` but %s' % (k.name, show(got)[:160], ' | '.join(d[1] for d in diffs)))
    ck.floor('R1', n, 30, 'distinct encode/decode pairs')


def _self_callees(cx, cls, fn, seen=None):
    seen = seen if seen is not None else {}
    if fn.qn in seen:
        return seen
    seen[fn.qn] = fn
    for c in ast.walk(fn.node):
        if isinstance(c, ast.Call) and isinstance(c.func, ast.Attribute) and U(c.func.value) == 'self':
            m = cx.idx.find_method(cls, c.func.attr)
            if m is not None:
                _self_callees(cx, cls, m, seen)
    return seen


def _rmw_sites(fn):
    """(attr, node, kind) for in-place modifications of self.<attr> in fn"""
    out = []
    for n in ast.walk(fn.node):
        if isinstance(n, ast.AugAssign) and isinstance(n.target, ast.Attribute) and U(n.target.value) == 'self':
            out.append((n.target.attr, n, 'augmented assignment'))
        elif isinstance(n, ast.Call) and isinstance(n.func, ast.Attribute) and n.func.attr in MUTATORS and \
                isinstance(n.func.value, ast.Attribute) and U(n.func.value.value) == 'self':
            out.append((n.func.value.attr, n, n.func.attr + '()'))
        elif isinstance(n, ast.Assign):
            for t in n.targets:
                if isinstance(t, ast.Subscript) and isinstance(t.value, ast.Attribute) and U(t.value.value) == 'self':
                    out.append((t.value.attr, n, 'item assignment'))
    return out


def _fresh_before(fn, attr, site):
    """is self.<attr> assigned unconditionally (top-level statement of fn) before `site`?"""
    pos = [i for i, s in enumerate(fn.node.body) if s is site]
    for i, s in enumerate(fn.node.body):
        # statement order, not line numbers: inlined helper bodies keep the line numbers of the helper
        if (pos and i >= pos[0]) or (not pos and s.lineno >= site.lineno):
            break
        if isinstance(s, ast.Assign):
            for t in s.targets:
                for el in (t.elts if isinstance(t, ast.Tuple) else [t]):
                    if isinstance(el, ast.Attribute) and U(el) == 'self.' + attr:
                        return True
    return False


def r2_r3_purity(ck, cx):
    ck.rule('R2', 'encode purity: an attribute modified in place during encode() (or its helpers) is assigned a fresh value earlier in the same encode() call')
    ck.rule('R3', 'decode does not accumulate: an attribute grown in place during decode() is assigned a fresh value earlier in the same decode() call')
    seen = set()
    n2 = n3 = 0
    for k, spec, kind in all_codec_classes(cx):
        for which, rule in (('encode', 'R2'), ('decode', 'R3')):
            root = cx.idx.find_method(k, which)
            if root is None or (root.qn, k.name if which == 'encode' else '') in seen:
                continue
            seen.add((root.qn, k.name if which == 'encode' else ''))
            fns = _self_callees(cx, k, root)
            for f in fns.values():
                for attr, node, how in _rmw_sites(f):
                    if rule == 'R2':
                        n2 += 1
                    else:
                        n3 += 1
                    # the reset must be in the root method, before the first statement that can reach the site
                    if f is root:
                        anchor = node
                    else:
                        calls = [c for c in ast.walk(root.node) if isinstance(c, ast.Call) and isinstance(c.func, ast.Attribute)
                                 and U(c.func.value) == 'self' and c.func.attr in [x.name for x in fns.values()]]
                        anchor = min(calls, key=lambda c: c.lineno) if calls else node
                    # climb to the top-level statement of root containing the anchor
                    top = anchor
                    while getattr(top, '_parent', None) is not None and top._parent is not root.node:
                        top = top._parent
                    ok = _fresh_before(root, attr, top)
                    if which == 'encode':
                        # only matters if the attribute is also read (flows into the bytes or into a later decision)
                        reads = [x for x in ast.walk(root.node) if isinstance(x, ast.Attribute) and U(x) == 'self.' + attr and isinstance(x.ctx, ast.Load)]
                        for g in fns.values():
                            reads += [x for x in ast.walk(g.node) if isinstance(x, ast.Attribute) and U(x) == 'self.' + attr and isinstance(x.ctx, ast.Load)
                                      and not isinstance(getattr(x, '_parent', None), ast.AugAssign)]
                        if not reads:
                            ok = True
                    ck.ob(rule, root.qn, 'self.%s modified by %s in %s is freshly assigned earlier in %s()' % (attr, how, f.name, which), ok,
                          detail='%s-accumulates self.%s' % (which, attr), loc=cx.floc(f, node),
                          message='%s.%s(): self.%s is modified in place (%s in %s) without being reset in this call: a second %s on the same object gives a different result'
                                  % (k.name, which, attr, how, f.name, which))
    ck.floor('R3', n3, 8, 'in-place growth sites in decode methods')
    ck.floor('R2', n2, 2, 'in-place modification sites in encode methods')


def _attrs_assigned(cx, cls, name):
    fn = cx.idx.find_method(cls, name)
    out = set()
    todo, seen = [(fn, cls)] if fn else [], set()
    while todo:
        f, c = todo.pop()
        if f is None or f.qn in seen:
            continue
        seen.add(f.qn)
        for n in ast.walk(f.node):
            if isinstance(n, ast.Assign):
                for t in n.targets:
                    for el in (t.elts if isinstance(t, ast.Tuple) else [t]):
                        if isinstance(el, ast.Attribute) and U(el.value) == 'self':
                            out.add(el.attr)
            # Base.__init__(self, ...) / super().__init__
            if isinstance(n, ast.Call) and isinstance(n.func, ast.Attribute) and n.func.attr == name:
                if isinstance(n.func.value, ast.Name):
                    r = cx.idx.lookup(f.mod, n.func.value.id)
                    if r and r[0] == 'class':
                        todo.append((cx.idx.find_method(r[1], name), r[1]))
                elif isinstance(n.func.value, ast.Call) and U(n.func.value.func) == 'super' and f.cls is not None:
                    todo.append((cx.idx.find_method_after(c, f.cls, name), c))
    return out


def r4_reclass(ck, cx):
    ck.rule('R4', 're-classing by sub-function code is lossless: what the installed class reads in encode/execute is assigned by decode, by the base constructor or is a class constant')
    n = 0
    for dn in ('ServerDecoder', 'ClientDecoder'):
        d, ft = table(cx, dn, '__function_table')
        _, st = table(cx, dn, '__sub_function_table')
        bases = {code_of(cx, k): k for k in ft}
        for k in st:
            base = bases.get(code_of(cx, k))
            if base is None or base is k:
                continue
            n += 1
            a_base = _attrs_assigned(cx, base, '__init__')
            a_sub = _attrs_assigned(cx, k, '__init__')
            a_dec = _attrs_assigned(cx, k, 'decode')
            reads = set()
            for m in ('encode', 'execute', 'get_response_pdu_size'):
                fn = cx.idx.find_method(k, m)
                if fn is not None:
                    for x in ast.walk(fn.node):
                        if isinstance(x, ast.Attribute) and U(x.value) == 'self' and isinstance(x.ctx, ast.Load):
                            reads.add(x.attr)
            classlevel = {a for a in reads if cx.idx.find_attr(k, a)[0] is not None or cx.idx.find_method(k, a) is not None}
            lost = (reads & a_sub) - a_base - a_dec - classlevel
            ck.ob('R4', k.qn, 'no constructor-only state is needed after re-classing from %s' % base.name, not lost,
                  detail='reclass-loses %s' % sorted(lost), loc=k.loc,
                  message='%s is installed by __class__ assignment on a %s instance: attributes %s are set only by its own __init__ but read later' % (k.name, base.name, sorted(lost)))
    ck.floor('R4', n, 30, 're-classed sub-function classes')
    # the re-classing itself
    for dn in ('ServerDecoder', 'ClientDecoder'):
        h = cx.method(cx.idx.cls('pymodbus.factory.' + dn), '_helper')
        sets = [x for x in ast.walk(h.node) if isinstance(x, ast.Assign) and any(isinstance(t, ast.Attribute) and t.attr == '__class__' for t in x.targets)]
        ck.ob('R4', h.qn, 'sub-function dispatch re-classes the decoded message', len(sets) == 1, detail='no-reclass', loc=cx.floc(h))


def _may_be_default(e, param):
    """can expression e evaluate to the very object bound to `param` when param is its (empty, mutable, not-None) default?"""
    def truth(t):
        # truth value of a test under param = empty mutable default; None = unknown
        if isinstance(t, ast.Name) and t.id == param:
            return False
        if isinstance(t, ast.UnaryOp) and isinstance(t.op, ast.Not):
            v = truth(t.operand)
            return None if v is None else (not v)
        if isinstance(t, ast.Compare) and len(t.ops) == 1 and isinstance(t.left, ast.Name) and t.left.id == param \
                and isinstance(t.comparators[0], ast.Constant) and t.comparators[0].value is None:
            if isinstance(t.ops[0], (ast.Is, ast.Eq)):
                return False
            if isinstance(t.ops[0], (ast.IsNot, ast.NotEq)):
                return True
        if isinstance(t, ast.Call) and isinstance(t.func, ast.Name) and t.func.id == 'len' and t.args and isinstance(t.args[0], ast.Name) \
                and t.args[0].id == param:
            return False
        return None
    if isinstance(e, ast.Name):
        return e.id == param
    if isinstance(e, ast.BoolOp):
        if isinstance(e.op, ast.Or):
            for v in e.values[:-1]:
                tv = truth(v)
                if tv is True:
                    return _may_be_default(v, param)
                if tv is None and _may_be_default(v, param):
                    return True
            return _may_be_default(e.values[-1], param)
        for v in e.values[:-1]:        # And: the first falsy operand is the value
            tv = truth(v)
            if tv is False:
                return _may_be_default(v, param)
            if tv is None and _may_be_default(v, param):
                return True
        return _may_be_default(e.values[-1], param)
    if isinstance(e, ast.IfExp):
        tv = truth(e.test)
        if tv is True:
            return _may_be_default(e.body, param)
        if tv is False:
            return _may_be_default(e.orelse, param)
        return _may_be_default(e.body, param) or _may_be_default(e.orelse, param)
    return False


def r5_no_shared_default_state(ck, cx, rule='R5'):
    """a message object must not keep a reference to a mutable default argument: that one object is shared by every
    instance built without the argument (the decoders build all messages that way), so what one decode appends
    shows up in every later message"""
    ck.rule(rule, 'message constructors do not store a mutable default argument ([] / {} / set()) in the instance')
    from .c01 import all_codec_classes
    seen, n = set(), 0
    for k, _spec, _role in all_codec_classes(cx):
        for c in cx.idx.mro(k):
            init = c.methods.get('__init__')
            if init is None or init.qn in seen:
                continue
            seen.add(init.qn)
            a = init.node.args
            pos = a.posonlyargs + a.args
            muts = {}
            for arg, d in list(zip(pos[len(pos) - len(a.defaults):], a.defaults)) + [(x, y) for x, y in zip(a.kwonlyargs, a.kw_defaults) if y is not None]:
                if isinstance(d, (ast.List, ast.Dict, ast.Set)) or (isinstance(d, ast.Call) and isinstance(d.func, ast.Name)
                                                                      and d.func.id in ('list', 'dict', 'set', 'bytearray') and not d.args):
                    muts[arg.arg] = d
            n += 1
            if not muts:
                continue
            from ..common import annotate
            for p in cx.enum(init, c, max_depth=1):
                annotate(p, heap=False)
                for ev in p.ev:
                    v = getattr(ev, '_sub', None)
                    if ev.kind == 'assign' and isinstance(ev.a, ast.Attribute) and ev.frame.fid == 0 and U(ev.a.value) == 'self' and v is not None:
                        for prm in muts:
                            ck.ob(rule, init.qn, 'self.%s does not alias the mutable default of `%s`' % (ev.a.attr, prm), not _may_be_default(v, prm),
                                  detail='mutable-default-stored %s=%s' % (ev.a.attr, prm), loc=cx.floc(init, ev.node),
                                  message='%s stores its default argument %s=%s in self.%s: every message built without that argument shares one object, '
                                          'so decoded values leak from one message into the next' % (init.qn, prm, U(muts[prm]), ev.a.attr))
    ck.floor(rule, n, 40, 'message constructors examined')


def r1_encode_side(ck, cx):
    """a class whose decode() follows the specified layout while its encode() deviates from it cannot round-trip"""
    from .c01 import r2_r3_layouts
    sub = type(ck)(ck.pid, ck.tier)
    sub.guard(r2_r3_layouts, sub, cx)
    bad_dec = {f.construct.rsplit('.', 1)[0] for f in sub.findings if f.rule == 'R3'}
    already = {f.construct.split(' / ')[0].rsplit('.', 1)[0] for f in ck.findings if f.rule == 'R1'}     # reported by the direct comparison
    for f in sub.findings:
        if f.rule == 'R2' and f.construct.rsplit('.', 1)[0] not in bad_dec and f.construct.rsplit('.', 1)[0] not in already:
            ck.finding('R1', f.construct, f.detail, f.loc, f.message + ' — its decode() reads the specified layout, so decode(encode(m)) differs from m')


def r6_bit_helpers_fresh(ck, cx, rule='R6'):
    """unpack_bitstring / pack_bitstring are the trusted base of every bit-list codec; trusted means: no memoisation
    (decorators), and what unpack_bitstring returns is a list built by that very call -- a cached or table-owned list would be
    shared between all messages decoded from the same bytes, so editing one response changes the next one decoded"""
    ck.rule(rule, 'the bit-list helpers are plain functions returning a freshly built list (no decorator, no list owned by module state)')
    from ..common import annotate, ret_expr
    m = cx.idx.mod('pymodbus.utilities')
    n = 0
    for name in ('unpack_bitstring', 'pack_bitstring'):
        fn = m.funcs.get(name)
        if fn is None:
            raise AnalysisError('pymodbus.utilities.%s vanished' % name)
        ck.saw('functions', fn.qn)
        n += 1
        ck.ob(rule, fn.qn, 'no decorator (memoisation shares the mutable result between callers)', not fn.node.decorator_list,
              detail='decorated %s' % [U(d)[:30] for d in fn.node.decorator_list], loc=cx.floc(fn),
              message='%s is decorated with %s: every caller that decodes the same bytes gets the same list object' % (fn.qn, [U(d) for d in fn.node.decorator_list]))
        # the argument belongs to the caller (a message's own bit list): the helper reads it and never changes it in place
        for par in fn.params:
            for x in ast.walk(fn.node):
                hit = None
                if isinstance(x, ast.AugAssign) and isinstance(x.target, ast.Name) and x.target.id == par and not isinstance(x.value, ast.Constant):
                    hit = '%s %s= ...' % (par, {ast.Add: '+', ast.Mult: '*'}.get(type(x.op), '?'))
                elif isinstance(x, (ast.Assign, ast.AugAssign, ast.Delete)):
                    for t in (x.targets if isinstance(x, (ast.Assign, ast.Delete)) else [x.target]):
                        if isinstance(t, ast.Subscript) and isinstance(t.value, ast.Name) and t.value.id == par:
                            hit = '%s[...] written' % par
                elif isinstance(x, ast.Call) and isinstance(x.func, ast.Attribute) and isinstance(x.func.value, ast.Name) and x.func.value.id == par \
                        and x.func.attr in ('append', 'extend', 'insert', 'pop', 'remove', 'sort', 'reverse', 'clear'):
                    hit = '%s.%s()' % (par, x.func.attr)
                if hit:
                    # a rebinding of the parameter to a fresh object earlier in the function makes the name the helper's own
                    # (on every path: an assignment under a condition leaves the caller's object in the name on the other branch)
                    rebound = any(isinstance(y, ast.Assign) and any(isinstance(t, ast.Name) and t.id == par for t in y.targets) and y.lineno < x.lineno
                                  and y in fn.node.body for y in ast.walk(fn.node))
                    n += 1
                    ck.ob(rule, fn.qn, 'the helper does not modify its argument in place', rebound, detail='helper-mutates-argument %s' % hit.split()[0].split('[')[0].split('.')[0],
                          loc=cx.floc(fn, x), message='%s changes its argument in place (%s): the list belongs to the message that is being encoded, so the '
                                                      'message is different after encode() -- a second encode (a retry) puts other bytes on the wire' % (fn.qn, hit))
        if name != 'unpack_bitstring':
            continue
        globals_ = set(m.consts) | {t.id for nd in m.tree.body if isinstance(nd, ast.Assign) for t in nd.targets if isinstance(t, ast.Name)}
        for p in cx.enum(fn, None, max_depth=0):
            if p.exit and p.exit[0] == 'exc':
                continue
            annotate(p, heap=False)
            r = ret_expr(p)
            if r is None:
                continue
            n += 1
            # the returned object: a local bound to a list display / list() / comprehension / concatenation, never (an element of) a module global
            def fresh_outer(x):
                # forms whose value is a new list whatever their parts are
                if isinstance(x, (ast.List, ast.ListComp)):
                    return True
                if isinstance(x, ast.Call) and isinstance(x.func, ast.Name) and x.func.id in ('list', 'sorted'):
                    return True
                if isinstance(x, ast.BinOp) and isinstance(x.op, (ast.Add, ast.Mult)):
                    return True
                if isinstance(x, ast.Subscript) and isinstance(x.slice, ast.Slice):
                    return True         # a slice of a list is a copy
                return False
            shared = (not fresh_outer(r)) and any(isinstance(x, ast.Name) and x.id in globals_ and x.id not in ('IS_PYTHON3',) and not
                                                 (cx.idx.lookup(fn.mod, x.id) or ('',))[0] in ('func', 'class', 'extern', 'module') for x in ast.walk(r))
            ck.ob(rule, fn.qn, 'the returned list is built by this call', not shared, detail='returns-shared-list %s' % U(r)[:40], loc=cx.floc(fn),
                  message='unpack_bitstring can return `%s`, an object owned by module state: all messages decoded from that byte share one bit list' % U(r)[:60])
    ck.floor(rule, n, 3, 'bit helper obligations')


def r4_dispatch_reaches_every_code(ck, cx):
    """decode(encode(m)) gives back the class of m only if the sub-function dispatch is reached for every
    sub-function code, 0 included (shared with C01 R4)"""
    from .c01 import r4_dispatch
    sub = type(ck)(ck.pid, ck.tier)
    r4_dispatch(sub, cx)
    keep = ('sub-dispatch-truthiness', 'sub-lookup-key', 'no-reclass-path')
    for o in sub.obligations:
        if 'sub-function' in str(o[2]) or 're-class' in str(o[2]):
            ck.obligations.append(('R4',) + tuple(o[1:]))
    for f in sub.findings:
        if f.detail.startswith(keep):
            ck.finding('R4', f.construct, f.detail, f.loc, f.message + ' — decode(encode(m)) no longer returns the class of m')


def run(ck, tier):
    cx = Ctx()
    ck.guard(r1_agreement, ck, cx)
    ck.guard(r2_r3_purity, ck, cx)
    ck.guard(r4_reclass, ck, cx)
    ck.guard(r1_encode_side, ck, cx)
    ck.guard(r4_dispatch_reaches_every_code, ck, cx)
    ck.guard(r5_no_shared_default_state, ck, cx)
    ck.guard(r6_bit_helpers_fresh, ck, cx)
    from .c01 import r7_register_keeps_tables
    ck.guard(r7_register_keeps_tables, ck, cx, 'R4')
    ck.assume('equality of values through struct is trusted; bit lists round-trip up to zero padding as a consequence of pack_bitstring/unpack_bitstring (trusted base)')
    from .. import ownership as _own
    ck.guard(_own.rule_instance_owned, ck, cx, 'R7', _own.DECODERS, 'registering a class on one decoder changes what every other decoder gives back for the bytes of a standard message (the round trip no longer returns the type that was encoded)', 4)
    from .. import ownership as _own2
    ck.rule('R8', 'no unsound memoisation (a caching decorator on a method, or on a function that returns a mutable container) in the modules this property rests on')
    ck.guard(_own2.rule_no_unsafe_memo, ck, cx, 'R8', ('pymodbus.utilities', 'pymodbus.pdu', 'pymodbus.factory', 'pymodbus.bit_read_message', 'pymodbus.bit_write_message', 'pymodbus.register_read_message', 'pymodbus.register_write_message', 'pymodbus.diag_message', 'pymodbus.file_message', 'pymodbus.other_message', 'pymodbus.mei_message'), 'the second encode / decode of an object no longer reflects its fields')
    from ..share import import_findings as _imp2
    ck.rule('R9', 'MEI objects: the length byte written for an object is the length of the bytes emitted for it, so that decode() cuts the object where encode() ended it (shared with C20 R1b)')
    _imp2(ck, 'C20', 'R9', ('R1b',), 'decode() then cuts the object short and parses the rest of it as further object headers: the decoded message differs from the encoded one')
    from .c01 import r14_truth_tested_messages_are_truthy
    ck.guard(r14_truth_tested_messages_are_truthy, ck, cx, 'R11')
    ck.rule('R10', 'MEI objects: decode() reads the object list as encode() writes it -- (id, length, value) repeated to the end of the PDU, an empty value included (shared with C20 R3)')
    _imp2(ck, 'C20', 'R10', ('R3',), 'an object that encode() emits is dropped or cut by decode(): the decoded message differs from the encoded one', construct_contains=('.decode',))
    return cx.idx
