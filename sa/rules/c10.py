"""C10 — requests act only on the addressed unit; broadcast acts on all."""
import ast

from ..common import Ctx, U, annotate, ret_expr, is_const, callee_name, AnalysisError
from ..frontends import FRONTENDS, frontend_exec_paths, recv_paths, CONTEXT_EXPRS
from .c18 import r5_server_context
from spec.tables import EXC

TITLE = 'requests act only on the addressed unit; broadcast acts on all'

# front-ends whose constructor accepts broadcast_enable (established by r3 below from the server classes)
CONTEXT_SLAVES = tuple(c + '.slaves()' for c in CONTEXT_EXPRS)
CONTEXT_SINGLE = tuple(c + '.single' for c in CONTEXT_EXPRS)


def r1_unit_filter(ck, cx):
    ck.rule('R1', '_validate_unit_id: single => accept; unit id in the hosted units => accept (rows the property leaves open are unconstrained)')
    c = cx.idx.cls('pymodbus.framer.ModbusFramer')
    f = cx.method(c, '_validate_unit_id')
    ck.saw('functions', f.qn)
    units, single = f.params[1], f.params[2]
    n = 0
    for p in cx.enum(f, c, max_depth=0):
        annotate(p)
        n += 1
        conds = [(U(ev._sub), ev.a) for ev in p.ev if ev.kind == 'cond']
        r = ret_expr(p)
        is_single = (single, True) in conds
        member_false = any(t.replace(' ', '') in ("self._header['uid']in%s" % units,) and pol is False for t, pol in conds)
        row = {'conds': conds, 'returns': U(r) if r is not None else None}
        ck.sample({'rule': 'R1', 'row': str(row)})
        if is_single:
            ck.ob('R1', f.qn, 'single mode accepts every unit id', is_const(r, True), detail='single-not-accepted %s' % row['returns'],
                  loc=cx.floc(f), message='_validate_unit_id returns %s in single mode' % row['returns'])
            continue
        ok = is_const(r, True) or (r is not None and U(r).replace(' ', '') == "self._header['uid']in%s" % units) or \
            ((r is None or is_const(r, False)) and member_false)
        ck.ob('R1', f.qn, 'a frame for a hosted unit is accepted', ok, detail='hosted-unit-row %s -> %s' % (conds, row['returns']),
              loc=cx.floc(f), message='_validate_unit_id can reject a hosted unit: conditions %s return %s' % (conds, row['returns']))
    ck.floor('R1', n, 3, 'decision-table rows')


def r2_r5_routing(ck, cx):
    ck.rule('R2', 'non-broadcast path executes exactly once against context[request.unit_id]; broadcast path (iff broadcast_enable and unit 0) executes once per context.slaves() entry and never sends')
    ck.rule('R5', 'absent unit: nothing sent under ignore_missing_slaves, else exception 0x0B')
    n = 0
    for fe in FRONTENDS:
        cls, f, sendf, fps = frontend_exec_paths(cx, fe)
        ck.saw('functions', f.qn)
        has_bc = any('broadcast_enable' in fp.flags for fp in fps)
        for fp in fps:
            n += 1
            bc = fp.flags.get('broadcast_enable') is True and fp.flags.get('unit0') is True
            if bc:
                ck.ob('R2', f.qn, 'broadcast produces no response', fp.send_calls == 0 and not fp.writes,
                      detail='broadcast-sends %d' % fp.send_calls, loc=cx.floc(f), message='%s sends a response to a broadcast' % fe[0])
                # every iteration of the broadcast loop executes the request: a path that enters the loop and leaves the
                # iteration without execute (a `continue` / guard on the loop variable) skips a hosted unit
                entered = any(ev.kind == 'loop' and ev.a == 'enter' and ev.frame.fid == 0 for ev in fp.path.ev)
                if entered and fp.handler is None and not (fp.exit and fp.exit[0] == 'exc'):
                    ck.ob('R2', f.qn, 'broadcast loop executes the request for every unit it iterates', bool(fp.exec_calls),
                          detail='broadcast-iteration-skips-unit', loc=cx.floc(f),
                          message='%s: an iteration of the broadcast loop can end without executing the request (conditions: %s): a hosted unit is skipped'
                                  % (fe[0], [c for c in fp.flags.get('other', [])][:3]))
                if fp.exec_calls:
                    ok = fp.exec_in_loop and fp.loop_iter in CONTEXT_SLAVES
                    ck.ob('R2', f.qn, 'broadcast iterates context.slaves()', ok, detail='broadcast-iteration %s' % fp.loop_iter, loc=cx.floc(f))
                    for c in fp.exec_calls:
                        a = U(c.args[0]) if c.args else ''
                        ck.ob('R2', f.qn, 'broadcast executes against context[<iterated unit>]',
                              any(a.startswith(cexp + '[') for cexp in CONTEXT_EXPRS) and 'request.unit_id' not in a,
                              detail='broadcast-target %s' % a, loc=cx.floc(f))
                    ck.ob('R2', f.qn, 'broadcast executes once per unit', len(fp.exec_calls) == 1,
                          detail='broadcast-exec-count %d' % len(fp.exec_calls), loc=cx.floc(f))
                continue
            if fp.handler is None and fp.exit and fp.exit[0] == 'return':
                ck.ob('R2', f.qn, 'request executed exactly once', len(fp.exec_calls) == 1,
                      detail='exec-count %d' % len(fp.exec_calls), loc=cx.floc(f),
                      message='%s executes the request %d times' % (fe[0], len(fp.exec_calls)))
                for c in fp.exec_calls:
                    a = U(c.args[0]) if c.args else ''
                    ck.ob('R2', f.qn, 'executed against context[request.unit_id]',
                          any(a == cexp + '[request.unit_id]' for cexp in CONTEXT_EXPRS) and not fp.exec_in_loop,
                          detail='exec-target %s' % a, loc=cx.floc(f),
                          message='%s executes against %s instead of the addressed unit' % (fe[0], a))
            if fp.handler == 'NoSuchSlaveException':
                if fp.flags.get('ignore_missing') is True:
                    ck.ob('R5', f.qn, 'absent unit ignored silently', fp.send_calls == 0, detail='ignored-unit-sends', loc=cx.floc(f))
                elif fp.flags.get('ignore_missing') is False:
                    ck.ob('R5', f.qn, 'absent unit answered with gateway exception 0x0B',
                          fp.response_kind in (('exception', EXC['GatewayNoResponse']), ('exception', EXC['GatewayPathUnavailable'])),
                          detail='absent-unit-response %r' % (fp.response_kind,), loc=cx.floc(f),
                          message='%s answers an absent unit with %r' % (fe[0], fp.response_kind))
                else:
                    ck.ob('R5', f.qn, 'absent-unit handler consults ignore_missing_slaves', False, detail='no-ignore-flag', loc=cx.floc(f))
        # unit 0 is an ordinary address when broadcast is disabled: the non-broadcast branch must not special-case it
        for fp in fps:
            if fp.flags.get('broadcast_enable') is False:
                ck.ob('R2', f.qn, 'unit 0 not special-cased when broadcast is disabled', 'unit0' not in fp.flags,
                      detail='unit0-test-without-broadcast', loc=cx.floc(f))
        ck.ob('R2', f.qn, 'front-end implements the broadcast branch', has_bc, detail='no-broadcast-branch', loc=cx.floc(f),
              message='%s has no broadcast branch: with broadcast_enable a unit-0 write is treated as an ordinary request (answered / 0x0B) instead of applied to all units' % fe[0])
    ck.floor('R2', n, 100, 'execute paths')


def r3_handlers(ck, cx):
    ck.rule('R3', 'every receive loop passes context.slaves() as units and context.single, and accepts unit 0 when broadcast is enabled')
    n = 0
    for fe in FRONTENDS:
        cls, f, rps = recv_paths(cx, fe)
        ck.saw('functions', f.qn)
        calls = [rp for rp in rps if rp.pip is not None]
        ck.ob('R3', f.qn, 'receive loop calls framer.processIncomingPacket', bool(calls), detail='no-framer-call', loc=cx.floc(f))
        bc_paths = [rp for rp in calls if rp.flags.get('broadcast_enable') is True]
        for rp in calls:
            n += 1
            unit = rp.pip.get('unit')
            ut = U(unit) if unit is not None else None
            ok = ut is not None and (ut in CONTEXT_SLAVES or any(ut == '[%s]' % s for s in CONTEXT_SLAVES))
            ck.ob('R3', f.qn, 'units argument is context.slaves()', ok, detail='units-arg %s' % ut, loc=cx.floc(f, rp.pip_node),
                  message='%s passes units=%s to the framer' % (fe[0], ut))
            single = rp.pip.get('single')
            st = U(single) if single is not None else None
            ck.ob('R3', f.qn, 'single argument is context.single', st in CONTEXT_SINGLE, detail='single-arg %s' % st,
                  loc=cx.floc(f, rp.pip_node), message='%s passes single=%s to the framer' % (fe[0], st))
            # the hosted set is read for THIS chunk: in a receive loop the slaves() call lies inside the iteration that hands the chunk to
            # the framer (a unit added to the context while the server runs is hosted from then on: execute() resolves it)
            evs = rp.path.ev
            ip = next((i_ for i_, e_ in enumerate(evs) if e_.kind == 'call' and e_.node is rp.pip_node), None)
            if ip is not None:
                loops_ = [i_ for i_, e_ in enumerate(evs[:ip]) if e_.kind == 'loop' and e_.a in ('enter', 'backedge') and e_.frame.fid == 0]
                sl = [i_ for i_, e_ in enumerate(evs[:ip]) if e_.kind == 'call' and callee_name(e_.node) == 'slaves']
                if loops_ and sl:
                    ck.ob('R3', f.qn, 'context.slaves() is read inside the receive-loop iteration', sl[-1] > loops_[-1], detail='units-read-before-loop', loc=cx.floc(f, evs[sl[-1]].node),
                          message='%s reads context.slaves() once, before its receive loop: the framer filters every later chunk by the set of units hosted when serving started, '
                                  'so a request for a unit added since is dropped although execute() would resolve it' % fe[0])
            cb = rp.pip.get('callback')
            cbt = U(cb) if cb is not None else ''
            ck.ob('R3', f.qn, 'callback is this handler\'s execute', ('self.' + fe[2]) in cbt, detail='callback %s' % cbt[:40],
                  loc=cx.floc(f, rp.pip_node))
        for rp in calls:
            if rp.zero_added:
                ck.ob('R3', f.qn, 'unit 0 is added to the accepted units only when broadcast is enabled', rp.flags.get('broadcast_enable') is True,
                      detail='unit0-admitted-without-broadcast', loc=cx.floc(f, rp.pip_node),
                      message='%s adds unit 0 to the accepted units on a path where broadcast_enable is not set: the framer then lets every unit id '
                              'through and frames for units the server does not host are answered' % fe[0])
        ck.ob('R3', f.qn, 'receive loop admits unit 0 when broadcast is enabled', bool(bc_paths) and
              all(rp.zero_added or True for rp in bc_paths) and any(rp.zero_added for rp in bc_paths),
              detail='no-broadcast-unit-admission', loc=cx.floc(f),
              message='%s never adds unit 0 to the accepted units: with broadcast_enable and a multi-unit context a unit-0 frame is dropped by the framer' % fe[0])
    ck.floor('R3', n, 20, 'processIncomingPacket call paths')


def r7_context_truthiness(ck, cx):
    """the servers choose their default context with `context or ModbusServerContext()`: that is only sound while every
    ModbusServerContext is truthy, i.e. the class defines neither __len__ nor __bool__ (an empty multi-unit context that is
    populated after the server was built would silently be replaced)"""
    ck.rule('R7', 'a context handed to a server is the context it serves: no truthiness test can replace an (empty) ModbusServerContext by a default one')
    c = cx.idx.cls('pymodbus.datastore.context.ModbusServerContext')
    falsy = [m for m in ('__len__', '__bool__', '__nonzero__') if cx.idx.find_method(c, m) is not None]
    n = 0
    for mn in ('pymodbus.server.sync', 'pymodbus.server.async_io', 'pymodbus.server.asynchronous'):
        m = cx.idx.mod(mn)
        for fn in list(m.funcs.values()) + [x for k in m.classes.values() for x in k.methods.values()]:
            for nd in ast.walk(fn.node):
                if isinstance(nd, ast.BoolOp) and isinstance(nd.op, ast.Or) and any(isinstance(v, ast.Call) and U(v.func) == 'ModbusServerContext' for v in nd.values[1:]):
                    n += 1
                    ck.ob('R7', fn.qn, 'default context chosen by truthiness only while every context is truthy', not falsy,
                          detail='context-truthiness %s' % falsy, loc=cx.floc(fn, nd),
                          message='%s picks its context with `%s` but ModbusServerContext defines %s: an empty multi-unit context is replaced by a private '
                                  'default context and the units registered later are never served' % (fn.qn, U(nd), falsy))
    ck.floor('R7', n, 3, 'default-context selections in the server modules')



def r11_slaves_lists_every_hosted_unit(ck, cx, rule='R11'):
    """Every front-end takes the units it serves -- the framer's unit filter and the broadcast loop -- from context.slaves().  A unit
    that __getitem__ resolves but slaves() does not list is hosted and unreachable.  slaves() must enumerate the registry itself:
    every return value is list / tuple / sorted of self._slaves (or its keys()), or an unfiltered comprehension over it."""
    ck.rule(rule, 'ModbusServerContext.slaves() lists every key of the registry (no filter, no other source of ids)')
    c = cx.idx.cls('pymodbus.datastore.context.ModbusServerContext')
    f = cx.method(c, 'slaves')
    ck.saw('functions', f.qn)
    n = 0

    def registry(x):
        if isinstance(x, ast.Call) and isinstance(x.func, ast.Attribute) and x.func.attr == 'keys' and not x.args:
            x = x.func.value
        return isinstance(x, ast.Attribute) and U(x) == 'self._slaves'
    for p in cx.enum(f, c, max_depth=1):
        if p.exit and p.exit[0] == 'exc':
            continue
        annotate(p, heap=False)
        r = ret_expr(p)
        n += 1
        ok = False
        v = r
        while isinstance(v, ast.Call) and isinstance(v.func, ast.Name) and v.func.id in ('list', 'tuple', 'sorted') and len(v.args) == 1 and not v.keywords:
            v = v.args[0]
        if registry(v):
            ok = True
        elif isinstance(v, (ast.ListComp, ast.GeneratorExp)) and len(v.generators) == 1 and not v.generators[0].ifs and registry(v.generators[0].iter) \
                and U(v.elt) == U(v.generators[0].target):
            ok = True
        ck.ob(rule, f.qn, 'slaves() returns the keys of the registry, all of them', ok, detail='slaves-not-the-registry-keys', loc=cx.floc(f),
              message='ModbusServerContext.slaves() returns `%s`: a unit that is registered (and that __getitem__ resolves) but is not in this list is '
                      'filtered out by every front-end before execution and skipped by the broadcast loop' % (U(r)[:80] if r is not None else None))
    ck.floor(rule, n, 1, 'return paths of slaves()')



def r13_unit_id_of_the_delivered_frame(ck, cx, rule='R13'):
    """The unit a request is routed to is the unit id the framer copies into it (populateResult) and tests against the hosted units
    (_validate_unit_id): both read header['uid'].  That field has to be parsed from the very frame that is delivered -- if the
    receive buffer is trimmed (resynchronisation, noise skip) after the unit id was parsed, the frame that ends up being decoded is
    another one and is executed in the name of a unit it was not addressed to.  On every delivering path the last value stored in
    header['uid'] reads the same version of the buffer as the bytes handed to the decoder."""
    ck.rule(rule, 'the unit id a delivered request carries was parsed from the delivered frame: header[\'uid\'] is read from the same version of the receive buffer as the bytes handed to the decoder')
    from ..common import annotated_copy
    from ..framermodel import framer_paths, BUF
    n = 0

    def versions(e):
        # the buffer versions that are SLICED / indexed in e (a version that only appears inside a slice bound is a position, not data)
        return {x.value.id for x in ast.walk(e) if isinstance(x, ast.Subscript) and isinstance(x.value, ast.Name) and x.value.id.startswith('buffer_v')} if e is not None else set()
    for kind in ('tcp', 'rtu', 'ascii', 'binary'):
        cls, f, fps = framer_paths(cx, kind)
        ck.saw('functions', f.qn)
        for fp in fps:
            for d in fp.deliveries:
                hp, _ = annotated_copy(fp.path, heap=True, versioned=(BUF,))
                dec = [ev for ev in hp.ev[:d] if ev.kind == 'call' and callee_name(ev.node) == 'decode' and getattr(ev, '_sub', None) is not None and ev._sub.args]
                if not dec:
                    continue
                dv = versions(dec[-1]._sub.args[0])
                uv = None
                for ev in hp.ev[:d]:
                    if ev.kind != 'assign':
                        continue
                    tg = getattr(ev, '_subt', None)
                    tg = tg if isinstance(tg, ast.AST) else ev.a
                    val = getattr(ev, '_sub', None)
                    for t_, v_ in (zip(tg.elts, val.elts) if isinstance(tg, (ast.Tuple, ast.List)) and isinstance(val, (ast.Tuple, ast.List)) and len(tg.elts) == len(val.elts) else [(tg, val)]):
                        if U(t_) == "self._header['uid']" and isinstance(v_, ast.AST):
                            uv = (versions(v_), ev)
                        elif U(t_) == 'self._header' and isinstance(v_, ast.Dict):
                            for k_, x_ in zip(v_.keys, v_.values):
                                if isinstance(k_, ast.Constant) and k_.value == 'uid' and versions(x_):
                                    uv = (versions(x_), ev)
                if uv is None or not uv[0] or not dv:
                    continue
                n += 1
                ck.ob(rule, f.qn, 'unit id parsed from the buffer version that is delivered', uv[0] <= dv, detail='uid-from-stale-buffer', loc=cx.floc(f, uv[1].node),
                      message='%s framer: header[\'uid\'] is parsed from %s, the frame handed to the decoder is cut from %s — the buffer was trimmed in between, so the request '
                              'that is executed carries (and is routed by) the unit id of bytes that were thrown away' % (kind, sorted(uv[0]), sorted(dv)))
    ck.floor(rule, n, 4, 'delivering framer paths with a parsed unit id')


def r12_do_exception_contract(ck, cx, rule='R12'):
    """Every front-end answers an absent unit with request.doException(GatewayNoResponse) and a datastore fault with
    request.doException(SlaveFailure), whatever class the decoder produced (IllegalFunctionRequest included).  The answer carries the
    code the front-end chose only if the doException that is resolved for the class builds ExceptionResponse(function code, <its
    argument>)."""
    from ..msgtables import registered_classes
    ck.rule(rule, 'for every request class the decoder can produce, doException(code) returns ExceptionResponse(self.function_code, code): no override replaces the code it is given')
    req, _ = registered_classes(cx)
    n = 0
    seen = set()
    for k in req + [cx.idx.cls('pymodbus.pdu.IllegalFunctionRequest')]:
        fn = cx.idx.find_method(k, 'doException')
        if fn is None:
            ck.ob(rule, k.qn, 'the class has doException', False, detail='no-doException', loc=k.loc)
            continue
        if fn.qn in seen:
            continue
        seen.add(fn.qn)
        ck.saw('functions', fn.qn)
        par = fn.params[1] if len(fn.params) > 1 else None
        for p in cx.enum(fn, k, max_depth=1):
            if p.exit and p.exit[0] == 'exc':
                continue
            annotate(p, heap=False)
            r = ret_expr(p)
            n += 1
            ok = isinstance(r, ast.Call) and callee_name(r) == 'ExceptionResponse' and len(r.args) >= 2 and U(r.args[0]) == 'self.function_code' \
                and isinstance(r.args[1], ast.Name) and r.args[1].id == par
            ck.ob(rule, fn.qn, 'doException(code) returns ExceptionResponse(self.function_code, code)', ok, detail='doException-ignores-its-code', loc=cx.floc(fn),
                  message='%s returns `%s`: the exception code the front-end asked for (0x0B for an absent unit, 0x04 for a datastore fault) is replaced, '
                          'so a request for a unit that is not hosted is answered as if the unit existed' % (fn.qn, U(r)[:70] if r is not None else None))
    ck.floor(rule, n, 1, 'doException implementations')


def run(ck, tier):
    cx = Ctx()
    ck.guard(r1_unit_filter, ck, cx)
    ck.guard(r2_r5_routing, ck, cx)
    ck.guard(r3_handlers, ck, cx)
    ck.rule('R4', 'server-context routing and id interval (shared with C18 R5)')
    sub = type(ck)(ck.pid, ck.tier)
    r5_server_context(sub, cx)
    for o in sub.obligations:
        ck.obligations.append(('R4',) + tuple(o[1:]))
    for f in sub.findings:
        ck.finding('R4', f.construct, f.detail, f.loc, f.message)
    from .c18 import r6_table_isolation
    ck.guard(r6_table_isolation, ck, cx, 'R6')
    ck.guard(r7_context_truthiness, ck, cx)
    ck.rule('R8', 'the unit id a framer hands on is the unsigned byte on the wire (shared with C03 R7)')
    from ..share import import_findings
    import_findings(ck, 'C03', 'R8', ('R7',), 'a request for a unit id >= 128 is not routed to the unit it addresses', detail_prefixes=('signedness-mismatch',))
    ck.assume('non-interference between units as a run-time fact follows from R2 + C05 R2 and is not decided itself')
    from .. import ownership as _own
    ck.guard(_own.rule_instance_owned, ck, cx, 'R9', _own.STORES + _own.REMOTE, 'a write addressed to one unit changes the tables of another unit (a forwarding context: is sent on to another unit)', 4)
    from .c17 import r8_handler_bound_to_its_server
    ck.guard(r8_handler_bound_to_its_server, ck, cx, 'R10')
    ck.guard(r11_slaves_lists_every_hosted_unit, ck, cx)
    ck.guard(r12_do_exception_contract, ck, cx)
    ck.guard(r13_unit_id_of_the_delivered_frame, ck, cx)
    from .. import options as _opt
    ck.guard(_opt.rule_options_read_at_construction, ck, cx, 'R14', ('pymodbus.server.sync', 'pymodbus.server.async_io', 'pymodbus.server.asynchronous'), ('IgnoreMissingSlaves', 'broadcast_enable'), 'the broadcast / missing-unit policy the application configured is ignored by this front-end')
    ck.guard(_own.rule_no_mutable_default_stored, ck, cx, 'R15', _own.STORES + _own.REMOTE, 'what is configured for (or written through) the context of one unit shows up in the context of another unit', 3)
    return cx.idx
