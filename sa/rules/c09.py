"""C09 — server sends exactly one matching response per accepted request."""
import ast
import inspect

from ..common import Ctx, U, AnalysisError, annotate, callee_name, ret_expr
from ..frontends import (FRONTENDS, frontend_exec_paths, recv_paths, is_transport_write,
                         TRANSPORT_RECEIVERS, TRANSPORT_WRITES)
from ..msgtables import registered_classes

TITLE = 'server sends exactly one matching response per accepted request'

SERVER_MODULES = ('pymodbus.server.sync', 'pymodbus.server.async_io', 'pymodbus.server.asynchronous')
FRAMERS = ['pymodbus.framer.socket_framer.ModbusSocketFramer', 'pymodbus.framer.rtu_framer.ModbusRtuFramer',
           'pymodbus.framer.ascii_framer.ModbusAsciiFramer', 'pymodbus.framer.binary_framer.ModbusBinaryFramer',
           'pymodbus.framer.tls_framer.ModbusTlsFramer']
SCHEDULERS = {'create_task', 'ensure_future', 'call_soon', 'call_later', 'callLater', 'callFromThread', 'deferToThread',
              'run_in_executor', 'Thread', 'start_new_thread', 'call_soon_threadsafe'}


def expected_sends(fp):
    if fp.handler == 'NoSuchSlaveException' and fp.flags.get('ignore_missing') is True:
        return 0, 'absent unit and ignore_missing_slaves'
    if fp.flags.get('broadcast_enable') is True and fp.flags.get('unit0') is True:
        return 0, 'broadcast'
    return 1, 'ordinary request'


def r1_r2(ck, cx):
    ck.rule('R1', 'every path through execute calls send exactly once (0 only for broadcast / ignored absent unit); send writes at most once, only under should_respond, the bytes of framer.buildPacket(message)')
    ck.rule('R2', 'response.transaction_id / unit_id are copied from the request before send')
    total = 0
    for fe in FRONTENDS:
        cls, f, sendf, fps = frontend_exec_paths(cx, fe)
        ck.saw('functions', f.qn)
        ck.saw('functions', sendf.qn)
        ck.saw('front-ends', fe[0])
        for fp in fps:
            total += 1
            if fp.exit and fp.exit[0] == 'exc':
                ck.ob('R1', f.qn, 'no exception escapes execute', False, detail='escaping-exception %s' % fp.exit[1], loc=cx.floc(f),
                      message='%s: %s escapes execute()' % (fe[0], fp.exit[1]))
                continue
            want, why = expected_sends(fp)
            cond = 'flags=%s handler=%s' % (sorted((k, v) for k, v in fp.flags.items() if k != 'other'), fp.handler)
            ck.ob('R1', f.qn, '%d send call(s) on path {%s} (%s)' % (want, cond, why), fp.send_calls == want,
                  detail='send-count %d expected %d on %s/%s' % (fp.send_calls, want, why, fp.handler), loc=cx.floc(f),
                  message='%s: %d send call(s) on path {%s}, expected %d (%s)' % (fe[0], fp.send_calls, cond, want, why))
            ck.ob('R1', sendf.qn, 'at most one transport write per send', len(fp.writes) <= max(fp.send_calls, 0),
                  detail='write-count %d for %d send(s)' % (len(fp.writes), fp.send_calls), loc=cx.floc(sendf))
            for w, g, b in zip(fp.writes, fp.gated, fp.built):
                ck.ob('R1', sendf.qn, 'transport write only under message.should_respond', g,
                      detail='ungated-write', loc=cx.floc(sendf, w.node),
                      message='%s: %s writes to the transport without testing message.should_respond' % (fe[0], sendf.name))
                ck.ob('R1', sendf.qn, 'bytes written are framer.buildPacket(message)', b,
                      detail='write-not-from-buildPacket', loc=cx.floc(sendf, w.node))
            if fp.send_calls:
                ck.ob('R2', f.qn, 'transaction_id and unit_id copied request -> response before send',
                      fp.id_copies == {'transaction_id', 'unit_id'},
                      detail='id-copy %s' % sorted(fp.id_copies), loc=cx.floc(f),
                      message='%s: response sent with only %s copied from the request' % (fe[0], sorted(fp.id_copies)))
                ck.ob('R1', f.qn, 'the message sent is the execute result or a doException of this request',
                      fp.response_kind == 'execute' or (isinstance(fp.response_kind, tuple) and fp.response_kind[0] == 'exception'),
                      detail='response-origin %r' % (fp.response_kind,), loc=cx.floc(f))
        ck.sample({'rule': 'R1', 'front-end': fe[0], 'paths': len(fps),
                   'send-count-table': sorted(set((str(sorted((k, v) for k, v in fp.flags.items() if k != 'other')), str(fp.handler), fp.send_calls) for fp in fps))[:6]})
    ck.floor('R1', total, 100, 'execute paths over 7 front-ends')


def r3_fc_pairing(ck, cx):
    ck.rule('R3', 'every response class returned by Request.execute has the request function code (and sub-function code)')
    reqs, _ = registered_classes(cx)
    n = 0
    for cls in reqs:
        ex = cx.idx.find_method(cls, 'execute')
        if ex is None:
            continue
        ck.saw('classes', cls.qn)
        fc = cx.ce.try_ev(ast.Name(id='function_code', ctx=ast.Load()), cls.mod, cls)
        sub = cx.ce.try_ev(ast.Name(id='sub_function_code', ctx=ast.Load()), cls.mod, cls)
        # the returned expressions with locals substituted (a response bound to a local first is still that constructor call)
        rets, seen_r = [], set()
        try:
            for p in cx.enum(ex, cls, max_depth=2, max_paths=5000):      # a body shared through a helper method is followed per request class
                if p.exit and p.exit[0] == 'exc':
                    continue
                annotate(p, heap=False)
                rv = ret_expr(p)
                src = next((e.node for e in reversed(p.ev) if e.kind == 'return' and e.frame.fid == 0), None)
                if rv is not None and (id(src), U(rv)) not in seen_r:
                    seen_r.add((id(src), U(rv)))
                    rets.append((src, rv))
        except AnalysisError:
            rets = [(nd, nd.value) for nd in ast.walk(ex.node) if isinstance(nd, ast.Return) and nd.value is not None]
        for node, val in rets:
            if isinstance(val, ast.Call) and isinstance(val.func, ast.Name):
                r = cx.idx.lookup(ex.mod, val.func.id)
                if not r or r[0] != 'class':
                    continue
                k = r[1]
                if k.name == 'ExceptionResponse':
                    continue
                n += 1
                kfc = cx.ce.try_ev(ast.Name(id='function_code', ctx=ast.Load()), k.mod, k)
                ksub = cx.ce.try_ev(ast.Name(id='sub_function_code', ctx=ast.Load()), k.mod, k)
                ck.ob('R3', cls.qn, 'returns %s with function code %r' % (k.name, fc), kfc == fc,
                      detail='response-fc %s=%r' % (k.name, kfc), loc=cx.floc(ex, node),
                      message='%s (fc %r) returns %s (fc %r)' % (cls.name, fc, k.name, kfc))
                if sub is not None:
                    ck.ob('R3', cls.qn, 'returns %s with sub-function %r' % (k.name, sub), ksub == sub,
                          detail='response-sub %s=%r' % (k.name, ksub), loc=cx.floc(ex, node),
                          message='%s (sub %r) returns %s (sub %r)' % (cls.name, sub, k.name, ksub))
    ck.floor('R3', n, 35, 'response constructor returns')


def r4_who_may_send(ck, cx):
    ck.rule('R4', 'transport writes in the server modules occur only in send/_send/_send_, called only from execute/_execute, which is only used as the framer callback')
    allowed_writers = {fe[3] for fe in FRONTENDS} | {'_send_'}
    exec_names = {fe[2] for fe in FRONTENDS}
    n = 0

    def execute_only(c, name, seen=()):
        """a private helper that is only ever *called* (never passed around) and only from execute or from other such helpers"""
        if name in exec_names:
            return True
        if name in seen or not name.startswith('_'):
            return False
        callers, escapes = set(), False
        for k in cx.idx.mro(c):
            for g in k.methods.values():
                for node in ast.walk(g.node):
                    if isinstance(node, ast.Attribute) and node.attr == name and U(node.value) == 'self' and isinstance(node.ctx, ast.Load):
                        par = getattr(node, '_parent', None)
                        if isinstance(par, ast.Call) and par.func is node:
                            callers.add(g.name)
                        else:
                            escapes = True
        return bool(callers) and not escapes and all(execute_only(c, g, seen + (name,)) for g in callers)
    for mn in SERVER_MODULES:
        m = cx.idx.mod(mn)
        ck.saw('modules', mn)
        for c in m.classes.values():
            for fn in c.methods.values():
                for node in ast.walk(fn.node):
                    if isinstance(node, ast.Call) and is_transport_write(node):
                        n += 1
                        ck.ob('R4', fn.qn, 'transport write inside a send method', fn.name in allowed_writers,
                              detail='write-outside-send', loc=cx.floc(fn, node),
                              message='%s writes to the transport outside send/_send' % fn.qn)
                    if isinstance(node, ast.Call) and isinstance(node.func, ast.Attribute) and U(node.func.value) == 'self':
                        if node.func.attr in allowed_writers and node.func.attr != '_send_':
                            ck.ob('R4', fn.qn, 'send is called only from execute (or a private helper only execute calls)', fn.name in exec_names or execute_only(c, fn.name),
                                  detail='send-called-from %s' % fn.name, loc=cx.floc(fn, node),
                                  message='%s calls %s outside execute' % (fn.qn, node.func.attr))
                        if node.func.attr == '_send_':
                            ck.ob('R4', fn.qn, '_send_ is called only from send', fn.name in allowed_writers,
                                  detail='_send_-called-from %s' % fn.name, loc=cx.floc(fn, node))
                    # references to execute: only as callback argument (directly or inside a lambda body that is the callback)
                    if isinstance(node, ast.Attribute) and node.attr in exec_names and U(node.value) == 'self' and fn.name not in exec_names:
                        par = getattr(node, '_parent', None)
                        ok = False
                        # climb to the enclosing call of processIncomingPacket
                        p = node
                        lam = None
                        while p is not None and p is not fn.node:
                            if isinstance(p, ast.Lambda):
                                lam = p
                            if isinstance(p, ast.Call) and callee_name(p) == 'processIncomingPacket':
                                ok = True
                                break
                            p = getattr(p, '_parent', None)
                        if not ok:
                            # nested function (def) whose name is handed to processIncomingPacket in the enclosing method
                            q2 = node
                            while q2 is not None and q2 is not fn.node:
                                if isinstance(q2, (ast.FunctionDef, ast.AsyncFunctionDef)):
                                    nm2 = q2.name
                                    ok = any(isinstance(c2, ast.Call) and callee_name(c2) == 'processIncomingPacket' and
                                             any(isinstance(a, ast.Name) and a.id == nm2 for a in list(c2.args) + [k.value for k in c2.keywords])
                                             for c2 in ast.walk(fn.node))
                                    break
                                q2 = getattr(q2, '_parent', None)
                        if not ok and lam is not None:
                            # lambda assigned to a local that is then passed as the callback
                            asg = getattr(lam, '_parent', None)
                            if isinstance(asg, ast.Assign) and isinstance(asg.targets[0], ast.Name):
                                nm = asg.targets[0].id
                                ok = any(isinstance(c2, ast.Call) and callee_name(c2) == 'processIncomingPacket' and
                                         any(isinstance(a, ast.Name) and a.id == nm for a in list(c2.args) + [k.value for k in c2.keywords])
                                         for c2 in ast.walk(fn.node))
                        ck.ob('R4', fn.qn, 'execute is referenced only as the framer callback', ok,
                              detail='execute-referenced-in %s' % fn.name, loc=cx.floc(fn, node),
                              message='%s uses %s other than as the processIncomingPacket callback' % (fn.qn, node.attr))
    ck.floor('R4', n, 6, 'transport write sites')
    # embedded positive example: a write outside send must be recognised
    ex = ast.parse("class H:\n def handle(self):\n  self.request.send(b'x')\n").body[0].body[0]
    flagged = any(isinstance(nd, ast.Call) and is_transport_write(nd) for nd in ast.walk(ex)) and ex.name not in allowed_writers
    ck.positive('R4', flagged, 'self.request.send in handle()')


def _class_ref(cx, fn, e):
    """is `e` a reference to a framer CLASS: a parameter of the hook, a class of the module, an attribute path hanging off self
    (self.server.framer, self.factory.framer), or a choice (`a or B`, `a if a else B`) between such references -- never the result
    of a call and never a module-level function"""
    if isinstance(e, ast.BoolOp):
        return all(_class_ref(cx, fn, x) for x in e.values)
    if isinstance(e, ast.IfExp):
        return _class_ref(cx, fn, e.body) and _class_ref(cx, fn, e.orelse)
    if isinstance(e, ast.Name):
        if e.id in fn.params:
            return True
        r = cx.idx.lookup(fn.mod, e.id)
        return bool(r) and r[0] == 'class'
    if isinstance(e, ast.Attribute):
        root = e
        while isinstance(root, ast.Attribute):
            root = root.value
        return isinstance(root, ast.Name) and root.id == 'self' and e.attr == 'framer'
    return False


def r5_per_connection_framer(ck, cx):
    ck.rule('R5', 'each connection handler creates its own framer instance in its per-connection set-up method')
    hooks = {'setup', 'connection_made', 'connectionMade', '__init__'}
    n = 0
    for fe in FRONTENDS:
        cls = cx.idx.cls(fe[1])
        found = []
        for k in cx.idx.mro(cls):
            for fn in k.methods.values():
                for node in ast.walk(fn.node):
                    if isinstance(node, ast.Assign) and any(U(t) == 'self.framer' for t in node.targets):
                        found.append((fn, node))
        ok = False
        for fn, node in found:
            v = node.value
            # the assigned value with locals substituted, on every path that reaches the assignment
            subs = []
            for p in cx.enum(fn, cls, max_depth=0):
                annotate(p)
                subs += [getattr(e, '_sub', None) for e in p.ev if e.kind == 'assign' and e.node is node]
            subs = [x for x in subs if x is not None] or [v]
            fresh = all(isinstance(x, ast.Call) and _class_ref(cx, fn, x.func) for x in subs)
            if fresh and fn.name in hooks:
                ok = True
            n += 1
            ck.ob('R5', fn.qn, 'self.framer is a fresh instance created per connection', fresh and fn.name in hooks,
                  detail='framer-assignment %s in %s' % (U(v)[:40], fn.name), loc=cx.floc(fn, node),
                  message='%s assigns self.framer = %s in %s (shared or late framer => connections share a buffer)' % (fe[0], U(v)[:40], fn.name))
        ck.ob('R5', cls.qn, 'handler creates a framer', ok, detail='no-framer-creation', loc=cls.loc)
        # the class-level default must not be a shared instance
        k, v = cx.idx.find_attr(cls, 'framer')
        if k is not None:
            ck.ob('R5', cls.qn, 'no class-level framer instance', isinstance(v, ast.Constant) and v.value is None,
                  detail='class-level-framer ' + U(v)[:40], loc=k.loc)
    ck.floor('R5', n, 5, 'framer assignments')


def r6_signature(ck, cx):
    ck.rule('R6', 'every call of framer.processIncomingPacket in the server modules supplies data, callback and unit (the parameters all five framers require)')
    required = None
    for qn in FRAMERS:
        c = cx.idx.cls(qn)
        fn = cx.method(c, 'processIncomingPacket')
        a = fn.node.args
        pos = [x.arg for x in a.args][1:]
        req = pos[:len(pos) - len(a.defaults)]
        required = req if required is None else required
        ck.ob('R6', fn.qn, 'framers agree on the required parameters %s' % required, req == required,
              detail='signature %s' % req, loc=cx.floc(fn))
    n = 0
    for mn in SERVER_MODULES:
        m = cx.idx.mod(mn)
        for c in m.classes.values():
            for fn in c.methods.values():
                for node in ast.walk(fn.node):
                    if isinstance(node, ast.Call) and callee_name(node) == 'processIncomingPacket':
                        n += 1
                        given = set(required[:len(node.args)]) | {k.arg for k in node.keywords if k.arg}
                        # f(..., **options): the keys of a dictionary built in this function are arguments too; an unknown one may supply anything
                        opaque = False
                        for k in node.keywords:
                            if k.arg is not None:
                                continue
                            v = k.value
                            if isinstance(v, ast.Name):
                                binds = [a.value for a in ast.walk(fn.node) if isinstance(a, ast.Assign) and any(isinstance(t, ast.Name) and t.id == v.id for t in a.targets)]
                                v = binds[0] if len(binds) == 1 else None
                            if isinstance(v, ast.Call) and callee_name(v) == 'dict' and not v.args and all(x.arg for x in v.keywords):
                                given |= {x.arg for x in v.keywords}
                            elif isinstance(v, ast.Dict) and all(isinstance(x, ast.Constant) for x in v.keys):
                                given |= {x.value for x in v.keys}
                            else:
                                opaque = True
                        missing = [] if opaque else [r for r in required if r not in given]
                        ck.ob('R6', fn.qn, 'call supplies %s' % required, not missing,
                              detail='missing-arguments %s' % missing, loc=cx.floc(fn, node),
                              message='%s calls processIncomingPacket without %s: TypeError on every packet' % (fn.qn, missing))
    ck.floor('R6', n, 6, 'processIncomingPacket call sites in server modules')


def r7_synchronous(ck, cx):
    ck.rule('R7', 'send is invoked synchronously inside the framer callback (no task / timer / thread scheduling between delivery and write)')
    n = 0
    for fe in FRONTENDS:
        cls = cx.idx.cls(fe[1])
        for name in (fe[2], fe[3], '_send_'):
            fn = cx.idx.find_method(cls, name)
            if fn is None:
                continue
            n += 1
            bad = [U(c.func) for c in ast.walk(fn.node) if isinstance(c, ast.Call) and callee_name(c) in SCHEDULERS]
            ck.ob('R7', fn.qn, 'no deferred scheduling in the response path', not bad,
                  detail='scheduling %s' % bad, loc=cx.floc(fn),
                  message='%s defers work through %s: responses may be reordered' % (fn.qn, bad))
            ck.ob('R7', fn.qn, 'response path is not a coroutine', not fn.is_async, detail='async-response-path', loc=cx.floc(fn))
    ck.floor('R7', n, 14, 'execute/send methods')


def r8_datagram_destination(ck, cx):
    ck.rule('R8', 'datagram front-ends answer the sender of the request: the destination of the transport write is carried with the request (parameter chain / per-request handler attribute), never an instance attribute that a later datagram overwrites')
    n = 0
    for fe in FRONTENDS:
        if fe[5] != 'datagram':
            continue
        cls = cx.idx.cls(fe[1])
        n += 1
        ext = cx.idx.extern_bases(cls)
        per_request_handler = any('BaseRequestHandler' in b for b in ext)      # socketserver creates one handler object per datagram
        # methods that run once per received datagram and could store the peer on the shared object
        recv_cbs = [m for m in ('datagram_received', 'datagramReceived') if cx.idx.find_method(cls, m) is not None]
        stored = set()
        for m in recv_cbs:
            fn = cx.idx.find_method(cls, m)
            for nd in ast.walk(fn.node):
                if isinstance(nd, ast.Assign):
                    for t in nd.targets:
                        if isinstance(t, ast.Attribute) and U(t.value) == 'self':
                            stored.add(t.attr)
        # the write
        for name in (fe[3], '_send_'):
            fn = cx.idx.find_method(cls, name)
            if fn is None:
                continue
            for c in ast.walk(fn.node):
                if isinstance(c, ast.Call) and is_transport_write(c):
                    dest = [a for a in c.args[1:]] + [k.value for k in c.keywords]
                    used = {x.attr for d in dest for x in ast.walk(d) if isinstance(x, ast.Attribute) and U(x.value) == 'self'}
                    params = set(fn.params)
                    from_params = all(any(isinstance(x, ast.Name) and x.id in params for x in ast.walk(d)) or
                                      (per_request_handler and U(d) == 'self.client_address') for d in dest) and bool(dest)
                    shared = used & stored
                    ck.ob('R8', fn.qn, 'write destination comes from the request (parameter) not from shared per-object state',
                          from_params and not shared and not (used - ({'client_address'} if per_request_handler else set())),
                          detail='datagram-destination %s' % sorted(used or {U(d) for d in dest}), loc=cx.floc(fn, c),
                          message='%s sends the response to %s, which %s: with datagrams from two peers in flight a response goes to the wrong peer' % (
                              fe[0], [U(d) for d in dest], 'is overwritten by every received datagram' if shared else 'is not tied to the request'))
        # the chain: receive callback hands (data, addr) on together; execute/send forward their extra arguments
        for m in recv_cbs:
            fn = cx.idx.find_method(cls, m)
            addr = fn.params[2] if len(fn.params) > 2 else None
            uses = [nd for nd in ast.walk(fn.node) if isinstance(nd, ast.Name) and nd.id == addr and isinstance(nd.ctx, ast.Load)]
            together = any(isinstance(getattr(u, '_parent', None), ast.Tuple) or isinstance(getattr(u, '_parent', None), (ast.Call, ast.Lambda)) or
                           isinstance(getattr(getattr(u, '_parent', None), '_parent', None), ast.Lambda) for u in uses)
            ck.ob('R8', fn.qn, 'the sender address is passed on together with the datagram', bool(uses) and together and not any(
                isinstance(getattr(u, '_parent', None), ast.Assign) and isinstance(u._parent.targets[0], ast.Attribute) for u in uses),
                detail='address-not-carried-with-datagram', loc=cx.floc(fn))
    ck.floor('R8', n, 3, 'datagram front-ends')


def r8_one_datagram_per_framer_call(ck, cx, rule='R8'):
    """datagram front-ends: what is handed to one processIncomingPacket call is the payload of exactly one receive event
    (so that the reply address belongs to every request decoded from it)"""
    from ..frontends import recv_paths, TRANSPORT_RECEIVERS
    n = 0
    for fe in FRONTENDS:
        if fe[5] != 'datagram':
            continue
        cls, f, rps = recv_paths(cx, fe)
        for rp in rps:
            if rp.pip is None:
                continue
            n += 1
            idx = [i for i, ev in enumerate(rp.path.ev) if ev.kind == 'call' and ev.node is rp.pip_node]
            upto = idx[0] if idx else len(rp.path.ev)
            # receive events of this iteration: transport reads and queue gets since the serving loop was entered (one iteration is enumerated)
            start = min([i for i, ev in enumerate(rp.path.ev[:upto]) if ev.kind == 'loop' and ev.a == 'enter' and ev.frame.fid == 0] or [0])
            recvs = []
            for ev in rp.path.ev[start:upto]:
                if ev.kind == 'call' and isinstance(ev.node.func, ast.Attribute):
                    a, r = ev.node.func.attr, U(ev.node.func.value)
                    if (a in ('recv', 'recvfrom', 'read') and r in TRANSPORT_RECEIVERS) or (a in ('get', 'get_nowait') and 'queue' in r):
                        recvs.append(ev)
            ck.ob(rule, f.qn, 'one receive event per framer call on a datagram front-end', len(recvs) <= 1,
                  detail='datagrams-coalesced %d' % len(recvs), loc=cx.floc(f, recvs[1].node) if len(recvs) > 1 else cx.floc(f),
                  message='%s feeds the payload of %d receive events to one framer call: requests of different peers are answered to one address'
                          % (fe[0], len(recvs)))
    ck.floor(rule, n, 4, 'datagram framer-call paths')


def r13_listen_only_stays_unsendable(ck, cx, rule='R13'):
    """Every front-end's send gates on message.should_respond.  The flag is a CLASS constant (True on the base, False on the
    listen-only response); an assignment to self.should_respond in a constructor of the hierarchy shadows the class constant, so the
    gate then reads the instance value.  For each response class the value an instance carries after construction (constructor
    paths with the base initialisers inlined, keyword options at their defaults) must be the class constant."""
    from ..msgtables import registered_classes
    from ..common import annotate
    ck.rule(rule, 'the should_respond flag a response instance carries after construction is the constant its class declares (False for the listen-only response): no constructor of the hierarchy shadows it')
    n = nfalse = 0
    for k in registered_classes(cx)[1] + [cx.idx.cls('pymodbus.pdu.ExceptionResponse')]:
        want = cx.ce.try_ev(ast.Name(id='should_respond', ctx=ast.Load()), k.mod, k, default=None)
        if want is None:
            ck.ob(rule, k.qn, 'the class declares should_respond as a constant', False, detail='should-respond-not-constant', loc=k.loc)
            continue
        nfalse += want is False
        init = cx.idx.find_method(k, '__init__')
        if init is None:
            continue
        ck.saw('classes', k.qn)
        for p in cx.enum(init, k, max_depth=3, default_kwargs=True):
            if p.exit and p.exit[0] == 'exc':
                continue
            st = annotate(p, heap=False)
            n += 1
            v = st.heap.get('self.should_respond')
            if v is None:
                continue
            same = isinstance(v, ast.Constant) and v.value is want
            # a computed instance value shadows the class constant: the front-ends that gate on it (all but one) then stay silent for
            # some responses while the one that does not gate answers -- and a response to an accepted request is withheld
            site = next((e for e in p.ev if e.kind == 'assign' and U(e.a) == 'self.should_respond'), None)
            ck.ob(rule, k.qn, 'an instance carries should_respond = %r, the constant of its class' % want, same,
                  detail='instance-should-respond %s' % U(v)[:40], loc=cx.floc(site.frame.func, site.node) if site is not None and site.frame.func is not None else k.loc,
                  message='%s declares should_respond = %r, but its constructor chain stores `%s` on the instance, which is what the front-ends\' send gate reads: %s'
                          % (k.name, want, U(v)[:50], 'a frame is written for a listen-only response' if want is False else 'the response to a request is suppressed'))
    ck.floor(rule, n, 30, 'constructor paths of response classes')
    ck.floor(rule, nfalse, 1, 'response classes declared should_respond = False')


def run(ck, tier):
    cx = Ctx()
    ck.guard(r1_r2, ck, cx)
    ck.guard(r3_fc_pairing, ck, cx)
    from .c01 import r7_register_keeps_tables
    ck.guard(r7_register_keeps_tables, ck, cx, 'R3')
    ck.guard(r4_who_may_send, ck, cx)
    ck.guard(r5_per_connection_framer, ck, cx)
    ck.guard(r6_signature, ck, cx)
    ck.guard(r7_synchronous, ck, cx)
    ck.guard(r8_datagram_destination, ck, cx)
    ck.guard(r8_one_datagram_per_framer_call, ck, cx)
    ck.guard(r13_listen_only_stays_unsendable, ck, cx)
    from ..share import import_findings
    ck.rule('R12', 'after input the framer could not digest the receive loop drops it, so that the requests that follow are still answered (shared with C12 R1)')
    import_findings(ck, 'C12', 'R12', ('R1',), 'every later request on that line gets no response', detail_prefixes=('no-reset-after',))
    ck.rule('R11', 'the unit filter handed to the framer is the current content of the context (shared with C10 R3): a hosted unit is not filtered out')
    import_findings(ck, 'C10', 'R11', ('R3',), 'a request for a unit the server hosts is dropped by the framer and never answered', detail_prefixes=('units-arg', 'single-arg'))
    ck.rule('R10', 'the ids copied into the response are the ids on the wire: MBAP header parsed with the format and codes it is built with (shared with C03 R2/R7)')
    from ..share import import_findings
    import_findings(ck, 'C03', 'R10', ('R2', 'R7'), 'the response then carries another transaction / unit id than the request, or cannot be built at all',
                    detail_prefixes=('header-binding', 'signedness-mismatch'))
    ck.rule('R9', 'every complete frame for a hosted unit reaches the callback: framer state carried between calls stays coherent (shared with C06 R6/R7)')
    from .c06 import r6_header_cache_coherence, r7_add_appends, r5_chunk_independent_control, r14_single_shot_skip_keeps_nothing
    from ..framermodel import framer_paths
    for kind in ('tcp', 'rtu', 'ascii', 'binary'):
        kcls, kf, kfps = framer_paths(cx, kind)
        ck.guard(r6_header_cache_coherence, ck, cx, kind, kcls, kf, kfps, 'R9')
        ck.guard(r7_add_appends, ck, cx, kind, kcls, 'R9')
        ck.guard(r14_single_shot_skip_keeps_nothing, ck, cx, kind, kcls, kf, kfps, 'R9', ' — each response then answers the previous request')
        ck.guard(r5_chunk_independent_control, ck, cx, kind, kcls, kf, kfps, 'R9', ' — a request whose bytes arrive cut that way stays in the buffer and is never answered')
    ck.assume('request.execute may raise any Exception; context lookup may raise NoSuchSlaveException; other statements of execute() are treated as non-raising')
    ck.assume('byte-exact output streams over generated request histories are not decided')
    from .. import ownership as _own
    ck.guard(_own.rule_instance_owned, ck, cx, 'R14', _own.DECODERS[:1], 'a request for a function only another server registered is executed and answered here', 2)
    from .c17 import r8_handler_bound_to_its_server
    ck.guard(r8_handler_bound_to_its_server, ck, cx, 'R15')
    from ..share import import_findings as _imp
    ck.rule('R16', 'the server keeps the context object it was given: `context or default` is sound only while ModbusServerContext defines neither __len__ nor __bool__ (shared with C10 R7)')
    _imp(ck, 'C10', 'R16', ('R7',), 'the server then answers requests for units it does not host (from a private default context) instead of staying silent / answering with a gateway exception')
    from .c17 import r9_read_size_covers_an_adu
    ck.guard(r9_read_size_covers_an_adu, ck, cx, 'R17')
    from ..share import import_findings as _imp3
    ck.rule('R20', 'the exception response to a request that cannot be served carries the function code that was received: IllegalFunctionRequest is built from the first PDU byte (shared with C01 R4)')
    _imp3(ck, 'C01', 'R20', ('R4',), 'the response does not match the request it answers (wrong function code), or cannot be built at all', detail_prefixes=('illegal-function-code-source',))
    ck.rule('R19', 'the RTU frame length oracle sizes every request correctly up to the 256-byte ADU limit (shared with C03 R3)')
    _imp3(ck, 'C03', 'R19', ('R3',), 'a maximum-size request is never answered', detail_prefixes=('rtuFrameSize-shape', 'size-from-buffered-length', 'custom-size-override', 'fifo-size', 'mei-size-shape', 'base-size-shape'))
    from .. import options as _opt
    ck.guard(_opt.rule_options_read_at_construction, ck, cx, 'R21', ('pymodbus.server.sync', 'pymodbus.server.async_io', 'pymodbus.server.asynchronous'), ('IgnoreMissingSlaves', 'broadcast_enable'), 'requests for absent units / broadcasts are answered or dropped against the configured policy')
    return cx.idx
