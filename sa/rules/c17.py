"""C17 — all server front-ends are behaviourally interchangeable (sibling cross-check)."""
import ast

from ..common import Ctx, U, AnalysisError
from ..frontends import recv_loop_iterations, FRONTENDS, frontend_exec_paths, recv_paths, CONTEXT_EXPRS
from .c09 import r5_per_connection_framer

TITLE = 'all server front-ends are behaviourally interchangeable'
REFERENCE = 'sync-stream'


def _norm_ctx(t):
    if t is None:
        return None
    for c in CONTEXT_EXPRS:
        t = t.replace(c, 'CONTEXT')
    return t


def exec_table(fps):
    rows = set()
    for fp in fps:
        if fp.flags.get('broadcast_enable') is True and fp.flags.get('unit0') is True:
            continue        # broadcast is not supported by every front-end: exempt here, decided by C10
        if fp.exit and fp.exit[0] == 'exc':
            rows.add(('escapes', fp.exit[1]))
            continue
        target = tuple(sorted(_norm_ctx(U(c.args[0])) if c.args else '' for c in fp.exec_calls))
        rows.add((fp.handler, fp.flags.get('ignore_missing'), str(fp.response_kind), tuple(sorted(fp.id_copies)), fp.send_calls, target))
    return rows


def send_table(fps):
    rows = set()
    for fp in fps:
        if fp.send_calls:
            rows.add((len(fp.writes) <= 1, all(fp.gated) if fp.writes else 'no-write', all(fp.built) if fp.writes else 'no-write'))
    # collapse: a front-end's send behaviour = {(gated, built)} over writing paths + whether a non-writing path exists
    writes = {(g, b) for (_, g, b) in rows if g != 'no-write'}
    silent = any(g == 'no-write' for (_, g, b) in rows)
    return writes, silent


def recv_table(fe, rps):
    rows = set()
    for rp in rps:
        if rp.pip is None:
            continue
        u = _norm_ctx(U(rp.pip['unit'])) if 'unit' in rp.pip else None
        if u is not None and u.startswith('[') and u.endswith(']'):
            u = u[1:-1]
        s = _norm_ctx(U(rp.pip['single'])) if 'single' in rp.pip else None
        cb = U(rp.pip['callback']) if 'callback' in rp.pip else ''
        rows.add((u, s, 'execute' if ('self.' + fe[2]) in cb else cb[:30]))
    # admission of unit 0 outside the broadcast feature (broadcast rows themselves are exempt, see C10)
    rows.add(('unit-0-admitted-without-broadcast', any(rp.zero_added and rp.flags.get('broadcast_enable') is not True for rp in rps if rp.pip is not None), ''))
    return rows


def r5_no_reset_on_clean_iteration(ck, cx):
    """Stream front-ends keep the bytes of a split request until the next chunk arrives (the Twisted stream
    front-end has no reset at all): on an iteration of the receive loop in which neither the transport read nor
    the framer raised, the handler must not call framer.resetFrame() -- for every reachable value of the
    loop-carried flag locals (computed as a fixpoint over the loop body)."""
    ck.rule('R5', 'stream receive loops: no framer.resetFrame() on an iteration without a fault, for every reachable state of the loop-carried flags')
    n = 0
    for fe in FRONTENDS:
        if fe[5] != 'stream':
            continue
        cls, f, loop, its = recv_loop_iterations(cx, fe)
        if loop is None:
            continue
        ck.saw('functions', f.qn)
        for state, paths in its:
            for p in paths:
                if any(ev.kind in ('raise', 'handler') for ev in p.ev):
                    continue
                n += 1
                resets = [ev for ev in p.ev if ev.kind == 'call' and isinstance(ev.node.func, ast.Attribute) and ev.node.func.attr == 'resetFrame'
                          and U(ev.node.func.value) == 'self.framer']
                st = ', '.join('%s=%s' % kv for kv in sorted(state.items(), key=str)) or '-'
                ck.ob('R5', f.qn, 'no framer reset on a fault-free iteration (flags on entry: %s)' % st, not resets,
                      detail='reset-on-clean-iteration %s' % st, loc=cx.floc(f, resets[0].node) if resets else cx.floc(f),
                      message='%s: an iteration that starts with %s and in which nothing fails still calls framer.resetFrame(): the '
                              'first part of a request split over two chunks is thrown away (the other stream front-ends keep it)' % (fe[0], st))
    ck.floor('R5', n, 6, 'fault-free iteration paths')



SETUP_METHODS = ('__init__', 'setup', 'finish', 'connection_made', 'connectionMade', 'connection_lost', 'connectionLost', 'error_received')
MUTATORS = ('append', 'add', 'update', 'setdefault', 'insert', 'extend', 'put', 'put_nowait', 'appendleft', '__setitem__', 'pop', 'popitem', 'remove', 'discard', 'clear')


def r11_no_memory_of_earlier_traffic(ck, cx, rule='R11'):
    """What a front-end answers is a function of the request and of the datastore.  The reference front-end keeps nothing of the
    traffic it has seen (its only per-connection state is the framer, which holds unconsumed bytes, and constant flags); a sibling
    that stores something derived from a received message / peer address in an attribute of its own and consults it later answers
    from its memory where the others execute the request.  The asyncio handlers' receive queue (an asyncio.Queue created in
    __init__, the channel between the protocol callbacks and the handler task) is transport, not memory."""
    ck.rule(rule, 'no front-end stores anything derived from received traffic (message bytes, peer address, decoded request, built reply) in its own attributes outside connection set-up: replies depend on the request and the datastore only, as in the reference front-end')
    n = 0
    for fe in FRONTENDS:
        k = cx.idx.cls(fe[1])
        queues = set()
        for c in cx.idx.mro(k):
            if not c.qn.startswith('pymodbus'):
                continue
            for m in c.methods.values():
                if m.name in SETUP_METHODS:
                    for a in ast.walk(m.node):
                        if isinstance(a, ast.Assign) and isinstance(a.value, ast.Call) and U(a.value.func).endswith('Queue'):
                            queues.update(U(t) for t in a.targets)
        for c in cx.idx.mro(k):
            if not c.qn.startswith('pymodbus'):
                continue
            for m in c.methods.values():
                if m.name in SETUP_METHODS:
                    continue
                ck.saw('functions', m.qn)
                n += 1
                local = set(m.params[1:])
                for a in ast.walk(m.node):
                    if isinstance(a, (ast.Assign, ast.AugAssign, ast.For, ast.With, ast.NamedExpr)):
                        for t in ast.walk(a.targets[0] if isinstance(a, ast.Assign) else getattr(a, 'target', a)):
                            if isinstance(t, ast.Name) and isinstance(t.ctx, ast.Store):
                                local.add(t.id)

                def derived(e):
                    return sorted({x.id for x in ast.walk(e) if isinstance(x, ast.Name) and x.id in local})
                for a in ast.walk(m.node):
                    hit = None
                    if isinstance(a, (ast.Assign, ast.AugAssign)):
                        for t in (a.targets if isinstance(a, ast.Assign) else [a.target]):
                            if U(t).startswith('self.') and not U(t).startswith(('self.server.', 'self.factory.')):
                                d = derived(a.value) + (derived(t.slice) if isinstance(t, ast.Subscript) else [])
                                if d:
                                    hit = (U(t), d)
                    elif isinstance(a, ast.Call) and isinstance(a.func, ast.Attribute) and a.func.attr in MUTATORS and U(a.func.value).startswith('self.') \
                            and U(a.func.value) not in queues and not U(a.func.value).startswith(('self.server.', 'self.factory.', 'self.framer', 'self.transport', 'self.request', 'self.socket')):
                        d = [x for arg in list(a.args) + [kw.value for kw in a.keywords] for x in derived(arg)]
                        if d:
                            hit = (U(a.func.value) + '.' + a.func.attr, d)
                    if hit:
                        ck.ob(rule, m.qn, 'keeps nothing of the traffic it handles', False, detail='remembers-traffic %s' % hit[0][:40], loc=cx.floc(m, a),
                              message='%s (%s) stores `%s` derived from %s: the front-end remembers earlier traffic, so what it answers to a request can depend on what it '
                                      'was sent before — the other front-ends execute every request against the datastore' % (m.qn, fe[0], hit[0][:60], ', '.join(sorted(set(hit[1])))))
        ck.ob(rule, k.qn, '%s: methods examined for traffic-derived attribute stores' % fe[0], True)
    ck.floor(rule, n, 14, 'front-end methods examined')


def r12_same_fate_after_a_framer_fault(ck, cx, rule='R12'):
    """What happens to a stream connection when the framer cannot digest what it was given is part of the observable behaviour: the
    reference front-end ends the connection (its handler clears `running`); the Twisted one lets the exception reach the reactor,
    which drops the connection (C12 assumption, cross-checked against the installed Twisted in the thorough tier).  A stream
    front-end that catches the fault and carries on serves requests its siblings never see."""
    ck.rule(rule, 'after an exception from framer.processIncomingPacket every stream front-end does what the reference does: the connection ends (handler stops the loop, or the exception leaves the receive callback); none resets and carries on')
    n = 0
    fate = {}
    where = {}
    for fe in FRONTENDS:
        if fe[5] != 'stream' or fe[0] == 'sync-single':
            continue        # the serial handler has no connection to end: it resets the framer and keeps listening on the line (C11 R4)
        cls, f, rps = recv_paths(cx, fe)
        ck.saw('functions', f.qn)
        outs = set()
        for rp in rps:
            if not (rp.raised and 'processIncomingPacket' in rp.raised[1]):
                continue
            n += 1
            escapes = bool(rp.exit and rp.exit[0] == 'exc')
            outs.add('ends' if (escapes or rp.stops) else 'continues')
        fate[fe[0]] = outs
        where[fe[0]] = f
    ref = fate.get(REFERENCE, set())
    for name, outs in sorted(fate.items()):
        if name == REFERENCE or not outs:
            continue
        ck.ob(rule, where[name].qn, '%s: fate of the connection after a framer fault = %s (reference)' % (name, sorted(ref)), outs == ref or not ref,
              detail='after-framer-fault %s vs %s' % (sorted(outs), sorted(ref)), loc=cx.floc(where[name]),
              message='%s: after an exception from the framer the connection %s, on %s it %s: the same byte stream is answered differently (requests that follow '
                      'the undigestible bytes are served by one front-end and never seen by the other)' % (name, '/'.join(sorted(outs)), REFERENCE, '/'.join(sorted(ref))))
    ck.floor(rule, n, 2, 'framer-fault paths of the connection-oriented front-ends')


def r8_handler_bound_to_its_server(ck, cx, rule='R8'):
    """asyncio front-end: the event loop creates one protocol object per connection (per endpoint for datagrams) by calling the
    factory it was given WITHOUT arguments.  The handler reads everything it serves from `self.server` (context, unit list,
    broadcast / ignore flags, framer class).  It is the right server only if (a) the factory handed to create_server /
    create_datagram_endpoint builds the handler with the server object that makes the call, and (b) every constructor path of the
    handler binds self.server to that argument -- a value left on the handler CLASS belongs to whichever server was constructed
    last in the process."""
    ck.rule(rule, 'asyncio: the protocol factory given to the event loop constructs the handler with the creating server, and every constructor path of the handler binds self.server to that argument')
    from ..common import annotate
    mod = cx.idx.mod('pymodbus.server.async_io')
    n = 0
    for k in mod.classes.values():
        for fn in k.methods.values():
            for c in ast.walk(fn.node):
                if not (isinstance(c, ast.Call) and isinstance(c.func, ast.Attribute) and c.func.attr in ('create_server', 'create_datagram_endpoint', 'create_connection') and c.args):
                    continue
                fac = c.args[0]
                body = None
                if isinstance(fac, ast.Lambda):
                    body = fac.body
                elif isinstance(fac, ast.Name):
                    for d in ast.walk(fn.node):
                        if isinstance(d, ast.FunctionDef) and d.name == fac.id and d.body and isinstance(d.body[-1], ast.Return):
                            body = d.body[-1].value
                n += 1
                ok = isinstance(body, ast.Call) and any(isinstance(a, ast.Name) and a.id == 'self' for a in list(body.args) + [kw.value for kw in body.keywords])
                ck.saw('functions', fn.qn)
                ck.ob(rule, fn.qn, 'the protocol factory `%s` constructs the handler with this server' % U(fac)[:40], ok,
                      detail='handler-factory-does-not-pass-server', loc=cx.floc(fn, c),
                      message='%s gives the event loop `%s` as protocol factory: the loop calls it without arguments, so the handler is not constructed with the '
                              'server that accepted the connection; whatever `server` it then finds (a class attribute set by the most recently constructed '
                              'server) decides which datastore, unit list and options answer the request' % (fn.qn, U(fac)[:60]))
    ck.floor(rule, n, 3, 'protocol factories handed to the event loop')
    base = cx.idx.cls('pymodbus.server.async_io.ModbusBaseRequestHandler')
    m = 0
    for k in [base] + cx.idx.subclasses(base):
        init = cx.idx.find_method(k, '__init__')
        if init is None:
            ck.ob(rule, k.qn, 'the handler has a constructor that binds self.server', False, detail='handler-has-no-constructor', loc=k.loc)
            continue
        owner = init.params[1] if len(init.params) > 1 else None
        for p in cx.enum(init, k, max_depth=3, default_kwargs=True):
            if p.exit and p.exit[0] == 'exc':
                continue
            annotate(p, heap=False)
            m += 1
            vals = [getattr(e, '_sub', None) for e in p.ev if e.kind == 'assign' and isinstance(e.a, ast.Attribute) and U(e.a) == 'self.server']
            ok = bool(vals) and isinstance(vals[-1], ast.Name) and vals[-1].id == owner
            ck.ob(rule, k.qn, 'every constructor path binds self.server to the constructor argument', ok,
                  detail='handler-server-not-bound-per-instance', loc=cx.floc(init),
                  message='%s: a constructor path of the handler %s, so `self.server` resolves to the class attribute, which every server constructor '
                          'overwrites: connections of an earlier server are served from the datastore and options of the latest one'
                          % (k.qn, 'does not assign self.server' if not vals else 'assigns self.server `%s`, not the constructor argument' % U(vals[-1])[:40]))
    ck.floor(rule, m, 3, 'constructor paths of the asyncio handlers')



def r9_read_size_covers_an_adu(ck, cx, rule='R9'):
    """The other front-ends (asyncio, Twisted) hand the framer whatever the event loop read -- up to 64 KiB -- and a datagram whole.
    The threaded front-end chooses the size itself: `recv(N)` in its handlers and `max_packet_size` of its UDP server.  A datagram
    longer than N is truncated by the kernel and lost; on the stream handlers a request longer than N is split across two reads,
    which this framer does not survive (C06).  The largest legal request ADU on the socket framing is 7 + 253 = 260 bytes, so N >= 260
    is necessary for the threaded front-end to serve what the others serve."""
    ck.rule(rule, 'the threaded front-end asks its transport for at least one maximum-size ADU (260 bytes) per read: recv(N) in the handlers and max_packet_size of the UDP server')
    mod = cx.idx.mod('pymodbus.server.sync')
    n = 0
    MAX_ADU = 260
    for k in mod.classes.values():
        for fn in k.methods.values():
            for c in ast.walk(fn.node):
                if isinstance(c, ast.Call) and isinstance(c.func, ast.Attribute) and c.func.attr in ('recv', 'recvfrom', 'read') and c.args \
                        and U(c.func.value) in ('self.request', 'self.socket', 'self.rfile'):
                    n += 1
                    v = cx.ce.try_ev(c.args[0], fn.mod, k, default=None)
                    ck.saw('functions', fn.qn)
                    if k.name == 'ModbusSingleRequestHandler' and isinstance(v, int) and v >= 256:
                        ck.ob(rule, fn.qn, 'the serial handler asks for at least one serial ADU (256 bytes)', True)
                        continue        # serial line: the RTU ADU limit is 256 bytes
                    ck.ob(rule, fn.qn, '`%s` asks for at least %d bytes' % (U(c)[:40], MAX_ADU), not isinstance(v, int) or v >= MAX_ADU,
                          detail='read-size-below-max-adu %s' % v, loc=cx.floc(fn, c),
                          message='%s reads at most %s bytes per pass: a maximum-size request (write of 123 registers / 1968 coils: 259-260 bytes on the socket '
                                  'framing) arrives in two pieces, which the framer answers by dropping it or closing the connection, while the asyncio and '
                                  'Twisted front-ends serve it' % (fn.qn, v))
        for name in ('max_packet_size',):
            if name in k.attrs:
                n += 1
                v = cx.ce.try_ev(k.attrs[name], k.mod, k, default=None)
                ck.ob(rule, k.qn, '%s.%s >= %d' % (k.name, name, MAX_ADU), not isinstance(v, int) or v >= MAX_ADU, detail='datagram-size-below-max-adu %s' % v, loc=k.loc,
                      message='%s sets max_packet_size = %s: a datagram carrying a maximum-size request (259-260 bytes) is truncated by the kernel and '
                              'dropped without an answer, while the other datagram front-ends serve it' % (k.qn, v))
    ck.floor(rule, n, 2, 'transport reads of the threaded front-end')


def run(ck, tier):
    cx = Ctx()
    ck.rule('R1', 'execute summaries (exception->response map, id copies, send count, context key) equal those of the reference front-end')
    ck.rule('R2', 'send summaries (should_respond gate, buildPacket payload, single write) equal')
    ck.rule('R3', 'receive-loop summaries (units source, single flag, callback) equal')
    ck.rule('R4', 'per-connection framer (shared with C09 R5)')
    tabs = {}
    for fe in FRONTENDS:
        cls, f, sendf, fps = frontend_exec_paths(cx, fe)
        _, rf, rps = recv_paths(cx, fe)
        ck.saw('functions', f.qn)
        ck.saw('functions', sendf.qn)
        ck.saw('functions', rf.qn)
        tabs[fe[0]] = (exec_table(fps), send_table(fps), recv_table(fe, rps), f, sendf, rf)
    ref = tabs[REFERENCE]
    ck.sample({'rule': 'R1', 'reference': REFERENCE, 'execute-table': sorted(str(r) for r in ref[0])})
    ck.sample({'rule': 'R3', 'reference': REFERENCE, 'receive-table': sorted(str(r) for r in ref[2])})
    n = 0
    for fe in FRONTENDS:
        if fe[0] == REFERENCE:
            continue
        et, st, rt, f, sendf, rf = tabs[fe[0]]
        n += 1
        diff = sorted(str(x) for x in (et ^ ref[0]))
        ck.ob('R1', f.qn, 'execute table equals %s' % REFERENCE, not diff, detail='execute-differs ' + '; '.join(diff)[:300], loc=cx.floc(f),
              message='%s execute() differs from %s in rows: %s' % (fe[0], REFERENCE, diff))
        ck.ob('R2', sendf.qn, 'every write is gated by should_respond, as in %s' % REFERENCE,
              {g for g, b in st[0]} == {g for g, b in ref[1][0]}, detail='send-gate-differs %s' % sorted(st[0]), loc=cx.floc(sendf),
              message='%s send: gate/payload table %s, reference %s' % (fe[0], sorted(st[0]), sorted(ref[1][0])))
        ck.ob('R2', sendf.qn, 'payload is framer.buildPacket(message), as in %s' % REFERENCE,
              {b for g, b in st[0]} == {b for g, b in ref[1][0]}, detail='send-payload-differs %s' % sorted(st[0]), loc=cx.floc(sendf))
        rdiff = sorted(str(x) for x in (rt ^ ref[2]))
        ck.ob('R3', rf.qn, 'receive-loop table equals %s' % REFERENCE, not rdiff, detail='receive-differs ' + '; '.join(rdiff)[:300], loc=cx.floc(rf),
              message='%s receive loop differs from %s: %s' % (fe[0], REFERENCE, rdiff))
    ck.floor('R1', n, 6, 'front-ends compared')
    # a front-end whose execute() receives the peer address as extra arguments forwards them to every send (the stream variant of
    # the same class passes a placeholder, the datagram variant needs the address to answer at all)
    for fe in FRONTENDS:
        cls_ = cx.idx.cls(fe[1])
        ex_ = cx.method(cls_, fe[2])
        va = ex_.node.args.vararg
        if va is None:
            continue
        for k_ in cx.idx.mro(cls_):
            for m_ in k_.methods.values():
                if m_.name == fe[3]:
                    continue
                for c_ in ast.walk(m_.node):
                    if isinstance(c_, ast.Call) and isinstance(c_.func, ast.Attribute) and U(c_.func.value) == 'self' and c_.func.attr == fe[3]:
                        fwd = any(isinstance(a_, ast.Starred) for a_ in c_.args) or len(c_.args) >= 2
                        ck.ob('R1', m_.qn, 'send is called with the peer address execute received', fwd, detail='send-without-peer-address', loc=cx.floc(m_, c_),
                              message='%s calls self.%s(%s) without the peer address: on the datagram variant the reply cannot be sent, the other '
                                      'front-ends answer the same request' % (m_.qn, fe[3], ', '.join(U(a_) for a_ in c_.args)))
    ck.guard(r5_no_reset_on_clean_iteration, ck, cx)
    ck.rule('R6', 'datagram front-ends hand the framer one datagram at a time (shared with C09 R8)')
    from .c09 import r8_one_datagram_per_framer_call
    ck.guard(r8_one_datagram_per_framer_call, ck, cx, 'R6')
    sub = type(ck)(ck.pid, ck.tier)
    r5_per_connection_framer(sub, cx)
    for o in sub.obligations:
        ck.obligations.append(('R4',) + tuple(o[1:]))
    for fnd in sub.findings:
        ck.finding('R4', fnd.construct, fnd.detail, fnd.loc, fnd.message)
    ck.assume('features not all front-ends support are exempt by the property wording: broadcast rows are excluded here and decided by C10')
    ck.assume('byte-identical outputs over request histories and interleavings of connections are not decided')
    from .. import ownership as _own
    ck.guard(_own.rule_instance_owned, ck, cx, 'R7', _own.FRAMERS, 'framing state is no longer private to a connection', 4)
    ck.guard(r8_handler_bound_to_its_server, ck, cx)
    ck.guard(r9_read_size_covers_an_adu, ck, cx)
    from .c09 import r13_listen_only_stays_unsendable
    ck.guard(r13_listen_only_stays_unsendable, ck, cx, 'R10')
    ck.guard(r11_no_memory_of_earlier_traffic, ck, cx)
    ck.guard(r12_same_fate_after_a_framer_fault, ck, cx)
    from .. import options as _opt
    ck.guard(_opt.rule_options_read_at_construction, ck, cx, 'R13', ('pymodbus.server.sync', 'pymodbus.server.async_io', 'pymodbus.server.asynchronous'), ('IgnoreMissingSlaves', 'broadcast_enable'), 'this front-end runs with the import-time policy while its siblings read the configured one: the same requests are answered differently')
    from ..share import import_findings as _imp17
    ck.rule('R14', 'the unit list a front-end hands to its framer is its own: slaves() returns a fresh list of the hosted units on every call, so the `append(0)` of a broadcast-enabled listener does not change what the other listeners on that context admit (shared with C10 R11)')
    _imp17(ck, 'C10', 'R14', ('R11',), 'listeners that share one context stop filtering alike: after broadcast traffic on one of them the others answer requests for units nobody hosts')
    return cx.idx
