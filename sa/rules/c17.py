"""C17 — all server front-ends are behaviourally interchangeable (sibling cross-check)."""
import ast

from ..common import Ctx, U, AnalysisError
from ..frontends import recv_loop_iterations, FRONTENDS, frontend_exec_paths, recv_paths, CONTEXT_EXPRS
from .c09 import r5_per_connection_framer

TITLE = 'all server front-ends are behaviourally interchangeable'
REFERENCE = 'sync-stream'


def _norm_ctx(t):
    if t is None:
        return None
    for c in CONTEXT_EXPRS:
        t = t.replace(c, 'CONTEXT')
    return t


def exec_table(fps):
    rows = set()
    for fp in fps:
        if fp.flags.get('broadcast_enable') is True and fp.flags.get('unit0') is True:
            continue        # broadcast is not supported by every front-end: exempt here, decided by C10
        if fp.exit and fp.exit[0] == 'exc':
            rows.add(('escapes', fp.exit[1]))
            continue
        target = tuple(sorted(_norm_ctx(U(c.args[0])) if c.args else '' for c in fp.exec_calls))
        rows.add((fp.handler, fp.flags.get('ignore_missing'), str(fp.response_kind), tuple(sorted(fp.id_copies)), fp.send_calls, target))
    return rows


def send_table(fps):
    rows = set()
    for fp in fps:
        if fp.send_calls:
            rows.add((len(fp.writes) <= 1, all(fp.gated) if fp.writes else 'no-write', all(fp.built) if fp.writes else 'no-write'))
    # collapse: a front-end's send behaviour = {(gated, built)} over writing paths + whether a non-writing path exists
    writes = {(g, b) for (_, g, b) in rows if g != 'no-write'}
    silent = any(g == 'no-write' for (_, g, b) in rows)
    return writes, silent


def recv_table(fe, rps):
    rows = set()
    for rp in rps:
        if rp.pip is None:
            continue
        u = _norm_ctx(U(rp.pip['unit'])) if 'unit' in rp.pip else None
        if u is not None and u.startswith('[') and u.endswith(']'):
            u = u[1:-1]
        s = _norm_ctx(U(rp.pip['single'])) if 'single' in rp.pip else None
        cb = U(rp.pip['callback']) if 'callback' in rp.pip else ''
        rows.add((u, s, 'execute' if ('self.' + fe[2]) in cb else cb[:30]))
    # admission of unit 0 outside the broadcast feature (broadcast rows themselves are exempt, see C10)
    rows.add(('unit-0-admitted-without-broadcast', any(rp.zero_added and rp.flags.get('broadcast_enable') is not True for rp in rps if rp.pip is not None), ''))
    return rows


def r5_no_reset_on_clean_iteration(ck, cx):
    """Stream front-ends keep the bytes of a split request until the next chunk arrives (the Twisted stream
    front-end has no reset at all): on an iteration of the receive loop in which neither the transport read nor
    the framer raised, the handler must not call framer.resetFrame() -- for every reachable value of the
    loop-carried flag locals (computed as a fixpoint over the loop body)."""
    ck.rule('R5', 'stream receive loops: no framer.resetFrame() on an iteration without a fault, for every reachable state of the loop-carried flags')
    n = 0
    for fe in FRONTENDS:
        if fe[5] != 'stream':
            continue
        cls, f, loop, its = recv_loop_iterations(cx, fe)
        if loop is None:
            continue
        ck.saw('functions', f.qn)
        for state, paths in its:
            for p in paths:
                if any(ev.kind in ('raise', 'handler') for ev in p.ev):
                    continue
                n += 1
                resets = [ev for ev in p.ev if ev.kind == 'call' and isinstance(ev.node.func, ast.Attribute) and ev.node.func.attr == 'resetFrame'
                          and U(ev.node.func.value) == 'self.framer']
                st = ', '.join('%s=%s' % kv for kv in sorted(state.items(), key=str)) or '-'
                ck.ob('R5', f.qn, 'no framer reset on a fault-free iteration (flags on entry: %s)' % st, not resets,
                      detail='reset-on-clean-iteration %s' % st, loc=cx.floc(f, resets[0].node) if resets else cx.floc(f),
                      message='%s: an iteration that starts with %s and in which nothing fails still calls framer.resetFrame(): the '
                              'first part of a request split over two chunks is thrown away (the other stream front-ends keep it)' % (fe[0], st))
    ck.floor('R5', n, 6, 'fault-free iteration paths')


def run(ck, tier):
    cx = Ctx()
    ck.rule('R1', 'execute summaries (exception->response map, id copies, send count, context key) equal those of the reference front-end')
    ck.rule('R2', 'send summaries (should_respond gate, buildPacket payload, single write) equal')
    ck.rule('R3', 'receive-loop summaries (units source, single flag, callback) equal')
    ck.rule('R4', 'per-connection framer (shared with C09 R5)')
    tabs = {}
    for fe in FRONTENDS:
        cls, f, sendf, fps = frontend_exec_paths(cx, fe)
        _, rf, rps = recv_paths(cx, fe)
        ck.saw('functions', f.qn)
        ck.saw('functions', sendf.qn)
        ck.saw('functions', rf.qn)
        tabs[fe[0]] = (exec_table(fps), send_table(fps), recv_table(fe, rps), f, sendf, rf)
    ref = tabs[REFERENCE]
    ck.sample({'rule': 'R1', 'reference': REFERENCE, 'execute-table': sorted(str(r) for r in ref[0])})
    ck.sample({'rule': 'R3', 'reference': REFERENCE, 'receive-table': sorted(str(r) for r in ref[2])})
    n = 0
    for fe in FRONTENDS:
        if fe[0] == REFERENCE:
            continue
        et, st, rt, f, sendf, rf = tabs[fe[0]]
        n += 1
        diff = sorted(str(x) for x in (et ^ ref[0]))
        ck.ob('R1', f.qn, 'execute table equals %s' % REFERENCE, not diff, detail='execute-differs ' + '; '.join(diff)[:300], loc=cx.floc(f),
              message='%s execute() differs from %s in rows: %s' % (fe[0], REFERENCE, diff))
        ck.ob('R2', sendf.qn, 'every write is gated by should_respond, as in %s' % REFERENCE,
              {g for g, b in st[0]} == {g for g, b in ref[1][0]}, detail='send-gate-differs %s' % sorted(st[0]), loc=cx.floc(sendf),
              message='%s send: gate/payload table %s, reference %s' % (fe[0], sorted(st[0]), sorted(ref[1][0])))
        ck.ob('R2', sendf.qn, 'payload is framer.buildPacket(message), as in %s' % REFERENCE,
              {b for g, b in st[0]} == {b for g, b in ref[1][0]}, detail='send-payload-differs %s' % sorted(st[0]), loc=cx.floc(sendf))
        rdiff = sorted(str(x) for x in (rt ^ ref[2]))
        ck.ob('R3', rf.qn, 'receive-loop table equals %s' % REFERENCE, not rdiff, detail='receive-differs ' + '; '.join(rdiff)[:300], loc=cx.floc(rf),
              message='%s receive loop differs from %s: %s' % (fe[0], REFERENCE, rdiff))
    ck.floor('R1', n, 6, 'front-ends compared')
    # a front-end whose execute() receives the peer address as extra arguments forwards them to every send (the stream variant of
    # the same class passes a placeholder, the datagram variant needs the address to answer at all)
    for fe in FRONTENDS:
        cls_ = cx.idx.cls(fe[1])
        ex_ = cx.method(cls_, fe[2])
        va = ex_.node.args.vararg
        if va is None:
            continue
        for k_ in cx.idx.mro(cls_):
            for m_ in k_.methods.values():
                if m_.name == fe[3]:
                    continue
                for c_ in ast.walk(m_.node):
                    if isinstance(c_, ast.Call) and isinstance(c_.func, ast.Attribute) and U(c_.func.value) == 'self' and c_.func.attr == fe[3]:
                        fwd = any(isinstance(a_, ast.Starred) for a_ in c_.args) or len(c_.args) >= 2
                        ck.ob('R1', m_.qn, 'send is called with the peer address execute received', fwd, detail='send-without-peer-address', loc=cx.floc(m_, c_),
                              message='%s calls self.%s(%s) without the peer address: on the datagram variant the reply cannot be sent, the other '
                                      'front-ends answer the same request' % (m_.qn, fe[3], ', '.join(U(a_) for a_ in c_.args)))
    ck.guard(r5_no_reset_on_clean_iteration, ck, cx)
    ck.rule('R6', 'datagram front-ends hand the framer one datagram at a time (shared with C09 R8)')
    from .c09 import r8_one_datagram_per_framer_call
    ck.guard(r8_one_datagram_per_framer_call, ck, cx, 'R6')
    sub = type(ck)(ck.pid, ck.tier)
    r5_per_connection_framer(sub, cx)
    for o in sub.obligations:
        ck.obligations.append(('R4',) + tuple(o[1:]))
    for fnd in sub.findings:
        ck.finding('R4', fnd.construct, fnd.detail, fnd.loc, fnd.message)
    ck.assume('features not all front-ends support are exempt by the property wording: broadcast rows are excluded here and decided by C10')
    ck.assume('byte-identical outputs over request histories and interleavings of connections are not decided')
    return cx.idx
