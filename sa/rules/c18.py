"""C18 — datastore blocks and contexts address exactly their cells.

All arithmetic in the anchored code is affine and touched only through
comparisons / slices / range bounds, so its *shape* is decidable:
R1 sequential validate, R2 sequential get/set slices, R3 sparse block,
R4 slave-context offset (zero_mode) and table selection, R5 server-context
routing and id interval.
"""
import ast

from ..common import (Ctx, U, annotate, ret_expr, path_constraints, constraints, cstr, Poly, NotInt,
                      AnalysisError, is_const, callee_name)

TITLE = 'datastore blocks and contexts address exactly their cells'


def P(nz, s, env=None):
    return nz.norm(ast.parse(s, mode='eval').body, env)


def _accept_sets(cx, func, cls, nz):
    """for a boolean function: list of (constraint list) over which it returns truthy"""
    acc, rej = [], []
    for p in cx.enum(func, cls):
        st = annotate(p)
        if p.exit and p.exit[0] == 'exc':
            continue
        r = ret_expr(p)
        cs = path_constraints(p, st, nz)
        if r is None or is_const(r, False) or is_const(r, None):
            rej.append(cs)
        elif is_const(r, True):
            acc.append(cs)
        else:
            acc.append(cs + constraints(r, True, nz))
    return acc, rej


def _canon_set(cs):
    return frozenset(cstr(c) for c in cs)


def r1_sequential_validate(ck, cx):
    ck.rule('R1', 'ModbusSequentialDataBlock.validate accepts exactly {start <= address, address+count <= start+len(values)}')
    c = cx.idx.cls('pymodbus.datastore.store.ModbusSequentialDataBlock')
    f = cx.method(c, 'validate')
    ck.saw('functions', f.qn)
    nz = cx.nz(f.mod, c)
    a, cnt = f.params[1], f.params[2]
    exp = {cstr(('ge', P(nz, '%s - self.address' % a))),
           cstr(('ge', P(nz, 'self.address + len(self.values) - %s - %s' % (a, cnt))))}
    extras = {cstr(('ge', P(nz, '%s - 1' % cnt))), cstr(('ge', P(nz, cnt)))}
    acc, rej = _accept_sets(cx, f, c, nz)
    ck.ob('R1', f.qn, 'has an accepting path', bool(acc), detail='no-accepting-path', loc=cx.floc(f))
    for cs in acc:
        got = set(_canon_set(cs))
        ck.sample({'rule': 'R1', 'function': f.qn, 'accepting-constraints': sorted(got)})
        missing = exp - got
        extra = got - exp - extras
        ck.ob('R1', f.qn, 'accept => start <= address and address+count <= start+len(values)', not missing,
              detail='accepts-outside-block: missing ' + '; '.join(sorted(missing)), loc=cx.floc(f),
              message='validate() accepts a range without requiring %s' % '; '.join(sorted(missing)))
        ck.ob('R1', f.qn, 'accept <= spec region (no extra requirement)', not extra,
              detail='rejects-inside-block: extra ' + '; '.join(sorted(extra)), loc=cx.floc(f),
              message='validate() additionally requires %s' % '; '.join(sorted(extra)))


def _slice_of(node):
    if isinstance(node, ast.Subscript) and isinstance(node.slice, ast.Slice) and node.slice.step is None:
        return node.value, node.slice.lower, node.slice.upper
    if isinstance(node, ast.Subscript) and isinstance(node.slice, ast.Call) and isinstance(node.slice.func, ast.Name) and node.slice.func.id == 'slice' \
            and len(node.slice.args) == 2 and not node.slice.keywords:
        return node.value, node.slice.args[0], node.slice.args[1]        # xs[slice(a, b)] is xs[a:b]
    return None


def r2_sequential_getset(ck, cx):
    ck.rule('R2', 'sequential getValues/setValues use slice [address-start : address-start+n] of self.values, n = count resp. len(values)')
    c = cx.idx.cls('pymodbus.datastore.store.ModbusSequentialDataBlock')
    g = cx.method(c, 'getValues')
    s = cx.method(c, 'setValues')
    nz = cx.nz(g.mod, c)
    ck.saw('functions', g.qn)
    ck.saw('functions', s.qn)
    # --- get
    a, cnt = g.params[1], g.params[2]
    n = 0
    for p in cx.enum(g, c):
        annotate(p)
        r = ret_expr(p)
        sl = _slice_of(r) if r is not None else None
        n += 1
        ok = sl is not None and U(sl[0]) == 'self.values'
        ck.ob('R2', g.qn, 'returns a slice of self.values', ok, detail='not-a-slice-of-values', loc=cx.floc(g))
        if not ok:
            continue
        lo = nz.norm(sl[1]) if sl[1] is not None else Poly.const(0)
        hi = nz.norm(sl[2]) if sl[2] is not None else None
        ck.sample({'rule': 'R2', 'function': g.qn, 'slice': [str(lo), str(hi)]})
        ck.ob('R2', g.qn, 'slice lower bound = address - self.address', lo == P(nz, '%s - self.address' % a),
              detail='get-lower-bound ' + str(lo), loc=cx.floc(g),
              message='getValues slice starts at %s, expected address - self.address' % lo)
        ck.ob('R2', g.qn, 'slice length = count', hi is not None and (hi - lo) == P(nz, cnt),
              detail='get-length ' + (str(hi - lo) if hi is not None else 'open'), loc=cx.floc(g),
              message='getValues slice length is %s, expected count' % ((hi - lo) if hi is not None else 'open'))
    # --- set
    a, vals = s.params[1], s.params[2]
    stores = 0
    for p in cx.enum(s, c):
        annotate(p)
        for ev in p.ev:
            if ev.kind == 'assign' and isinstance(ev.a, ast.Subscript):
                tgt = ev._subt
                sl = _slice_of(tgt)
                if U(tgt.value) != 'self.values':
                    continue
                stores += 1
                ok = sl is not None
                ck.ob('R2', s.qn, 'writes self.values through a slice', ok, detail='set-not-a-slice', loc=cx.floc(s, ev.node))
                if not ok:
                    continue
                rhs = ev._sub
                lo = nz.norm(sl[1]) if sl[1] is not None else Poly.const(0)
                hi = nz.norm(sl[2]) if sl[2] is not None else None
                n_rhs = Poly.atom('len(%s)' % nz.canon(rhs))
                ck.ob('R2', s.qn, 'slice lower bound = address - self.address', lo == P(nz, '%s - self.address' % a),
                      detail='set-lower-bound ' + str(lo), loc=cx.floc(s, ev.node),
                      message='setValues slice starts at %s, expected address - self.address' % lo)
                ck.ob('R2', s.qn, 'slice length = len(values written)', hi is not None and (hi - lo) == n_rhs,
                      detail='set-length ' + (str(hi - lo) if hi is not None else 'open'), loc=cx.floc(s, ev.node),
                      message='setValues replaces a slice of length %s with %s' % ((hi - lo) if hi is not None else 'open', n_rhs))
                base = rhs
                while isinstance(base, ast.List) and len(base.elts) == 1:
                    base = base.elts[0]
                ck.ob('R2', s.qn, 'stored values are the values argument', isinstance(base, ast.Name) and base.id == vals,
                      detail='set-rhs ' + nz.canon(rhs), loc=cx.floc(s, ev.node))
    ck.ob('R2', s.qn, 'setValues stores into self.values', stores > 0, detail='no-store', loc=cx.floc(s))
    # get and set agree on the base
    ck.floor('R2', n, 1, 'getValues paths')


def _range_args(node):
    """range(a, b) -> (a, b)"""
    if isinstance(node, ast.Call) and callee_name(node) == 'range' and len(node.args) == 2:
        return node.args
    return None


def _keys_of_values(node):
    """is node an expression denoting the key set of self.values?"""
    t = U(node)
    return t in ('set(iterkeys(self.values))', 'set(self.values.keys())', 'self.values.keys()', 'set(self.values)',
                 'self.values', 'iterkeys(self.values)', 'frozenset(self.values)', 'frozenset(self.values.keys())')


def r3_sparse(ck, cx):
    ck.rule('R3', 'sparse validate = {address..address+count-1} subset of keys; get/set index address+i for i in range(n)')
    c = cx.idx.cls('pymodbus.datastore.store.ModbusSparseDataBlock')
    v, g, s = cx.method(c, 'validate'), cx.method(c, 'getValues'), cx.method(c, 'setValues')
    nz = cx.nz(v.mod, c)
    for f in (v, g, s):
        ck.saw('functions', f.qn)
    a, cnt = v.params[1], v.params[2]
    accepting = 0
    for p in cx.enum(v, c):
        st = annotate(p)
        r = ret_expr(p)
        if r is None or is_const(r, False):
            # rejecting path: allowed only for count == 0 (or count < 1)
            cs = _canon_set(path_constraints(p, st, nz))
            allowed = {cstr(('eq', P(nz, cnt))), cstr(('ge', P(nz, '0 - %s' % cnt)))}
            ck.ob('R3', v.qn, 'constant rejection only for count == 0', bool(cs & allowed),
                  detail='rejects ' + '; '.join(sorted(cs)), loc=cx.floc(v),
                  message='validate() rejects unconditionally under: %s' % '; '.join(sorted(cs)))
            continue
        accepting += 1
        ok = False
        rng = None
        if isinstance(r, ast.Call) and callee_name(r) == 'issubset' and isinstance(r.func, ast.Attribute) and len(r.args) == 1:
            lhs = r.func.value
            if isinstance(lhs, ast.Call) and callee_name(lhs) in ('set', 'frozenset') and lhs.args:
                rng = _range_args(lhs.args[0])
            ok = rng is not None and _keys_of_values(r.args[0])
        elif isinstance(r, ast.Compare) and len(r.ops) == 1 and isinstance(r.ops[0], (ast.LtE, ast.GtE)):
            # set(range(..)) <= set(keys)   /   set(keys) >= set(range(..)) : the subset test spelt with an operator
            small, big = (r.left, r.comparators[0]) if isinstance(r.ops[0], ast.LtE) else (r.comparators[0], r.left)
            if isinstance(small, ast.Call) and callee_name(small) in ('set', 'frozenset') and small.args and isinstance(big, ast.Call) \
                    and callee_name(big) in ('set', 'frozenset') and big.args:
                rng = _range_args(small.args[0])
                ok = rng is not None and _keys_of_values(big.args[0])
        elif isinstance(r, ast.Call) and callee_name(r) == 'all' and r.args and isinstance(r.args[0], (ast.GeneratorExp, ast.ListComp)):
            ge = r.args[0]
            if len(ge.generators) == 1 and not ge.generators[0].ifs and isinstance(ge.elt, ast.Compare) and \
                    len(ge.elt.ops) == 1 and isinstance(ge.elt.ops[0], ast.In) and \
                    U(ge.elt.left) == U(ge.generators[0].target) and _keys_of_values(ge.elt.comparators[0]):
                rng = _range_args(ge.generators[0].iter)
                ok = rng is not None
        ck.ob('R3', v.qn, 'accepts iff range(address, address+count) is a subset of the keys', ok,
              detail='validate-shape ' + U(r)[:80], loc=cx.floc(v))
        if ok:
            lo, hi = nz.norm(rng[0]), nz.norm(rng[1])
            ck.sample({'rule': 'R3', 'function': v.qn, 'range': [str(lo), str(hi)]})
            ck.ob('R3', v.qn, 'range starts at address', lo == P(nz, a), detail='validate-range-lower ' + str(lo), loc=cx.floc(v))
            ck.ob('R3', v.qn, 'range has count elements', (hi - lo) == P(nz, cnt), detail='validate-range-length ' + str(hi - lo), loc=cx.floc(v))
    ck.ob('R3', v.qn, 'has an accepting path', accepting > 0, detail='no-accepting-path', loc=cx.floc(v))
    # get
    a, cnt = g.params[1], g.params[2]
    for p in cx.enum(g, c):
        annotate(p)
        r = ret_expr(p)
        ok = False
        if isinstance(r, ast.ListComp) and len(r.generators) == 1 and not r.generators[0].ifs:
            gen = r.generators[0]
            rng = _range_args(gen.iter)
            e = r.elt
            if rng is not None and isinstance(e, ast.Subscript) and U(e.value) == 'self.values' and isinstance(gen.target, ast.Name):
                lo, hi = nz.norm(rng[0]), nz.norm(rng[1])
                i = nz.norm(e.slice)
                # index expression minus loop var, plus range lower == address
                base = i - Poly.atom(gen.target.id) + lo
                ok = True
                ck.ob('R3', g.qn, 'reads cells address .. address+count-1', base == P(nz, a) and (hi - lo) == P(nz, cnt),
                      detail='get-range base=%s n=%s' % (base, hi - lo), loc=cx.floc(g))
        raw_rets = [n_.value for n_ in ast.walk(g.node) if isinstance(n_, ast.Return) and n_.value is not None]
        if not ok and len(raw_rets) == 1 and isinstance(raw_rets[0], ast.Name):
            r = raw_rets[0]
            # the same list built by a loop:  out = []; for i in range(a, a + n): out.append(self.values[i]); return out
            inits = [n_ for n_ in ast.walk(g.node) if isinstance(n_, ast.Assign) and any(isinstance(t, ast.Name) and t.id == r.id for t in n_.targets)]
            loops_ = [n_ for n_ in ast.walk(g.node) if isinstance(n_, ast.For) and isinstance(n_.target, ast.Name) and not n_.orelse]
            if len(inits) == 1 and isinstance(inits[0].value, ast.List) and not inits[0].value.elts and len(loops_) == 1:
                lp = loops_[0]
                rng = _range_args(lp.iter)
                body = [b for b in lp.body if not (isinstance(b, ast.Expr) and isinstance(b.value, ast.Constant))]
                if rng is not None and len(body) == 1 and isinstance(body[0], ast.Expr) and isinstance(body[0].value, ast.Call) \
                        and callee_name(body[0].value) == 'append' and U(body[0].value.func.value) == r.id and len(body[0].value.args) == 1:
                    e = body[0].value.args[0]
                    if isinstance(e, ast.Subscript) and U(e.value) == 'self.values':
                        lo, hi = nz.norm(rng[0]), nz.norm(rng[1])
                        base = nz.norm(e.slice) - Poly.atom(lp.target.id) + lo
                        ok = True
                        ck.ob('R3', g.qn, 'reads cells address .. address+count-1', base == P(nz, a) and (hi - lo) == P(nz, cnt),
                              detail='get-range base=%s n=%s' % (base, hi - lo), loc=cx.floc(g))
        ck.ob('R3', g.qn, 'getValues is [self.values[i] for i in range(address, address+count)]', ok,
              detail='get-shape', loc=cx.floc(g))
    # set (list branch)
    a, vals = s.params[1], s.params[2]
    found = 0
    for n in ast.walk(s.node):
        if isinstance(n, ast.For) and isinstance(n.iter, ast.Call) and callee_name(n.iter) == 'enumerate' and \
                isinstance(n.target, ast.Tuple) and len(n.target.elts) == 2:
            it = n.iter.args[0]

            def _is_vals(x):
                # the values argument itself, or the argument wrapped into a one-element list when it is not a list
                if isinstance(x, ast.Name) and x.id == vals:
                    return True
                if isinstance(x, ast.List) and len(x.elts) == 1 and isinstance(x.elts[0], ast.Name) and x.elts[0].id == vals:
                    return True
                if isinstance(x, ast.IfExp):
                    return _is_vals(x.body) and _is_vals(x.orelse)
                return False
            if isinstance(it, ast.Name) and it.id != vals:
                binds_ = [b_.value for b_ in ast.walk(s.node) if isinstance(b_, ast.Assign) and any(isinstance(t, ast.Name) and t.id == it.id for t in b_.targets)]
                if not (binds_ and all(_is_vals(b_) for b_ in binds_)):
                    continue
            elif not (isinstance(it, ast.Name) and it.id == vals):
                continue
            start = nz.norm(n.iter.args[1]) if len(n.iter.args) > 1 else Poly.const(0)
            iv, vv = n.target.elts
            for b in n.body:
                if isinstance(b, ast.Assign) and isinstance(b.targets[0], ast.Subscript) and U(b.targets[0].value) == 'self.values':
                    found += 1
                    i = nz.norm(b.targets[0].slice) - Poly.atom(iv.id) + start
                    ck.ob('R3', s.qn, 'writes cell address + i for the i-th value', i == P(nz, a) and U(b.value) == U(vv),
                          detail='set-index %s value %s' % (i, U(b.value)), loc=cx.floc(s, b))
    ck.ob('R3', s.qn, 'setValues stores each value at address+i', found > 0, detail='no-indexed-store', loc=cx.floc(s))


def r4_context_offset(ck, cx):
    ck.rule('R4', 'ModbusSlaveContext validate/getValues/setValues: address+1 unless zero_mode, store selected by decode(fx), same-named block method')
    c = cx.idx.cls('pymodbus.datastore.context.ModbusSlaveContext')
    nz = cx.nz(c.mod, c)
    seen = 0
    for name in ('validate', 'getValues', 'setValues'):
        f = cx.method(c, name)
        ck.saw('functions', f.qn)
        fx, a, third = f.params[1], f.params[2], f.params[3]
        pols = set()
        for p in cx.enum(f, c, max_depth=1):
            st = annotate(p)
            zs = [ev for ev in p.ev if ev.kind == 'cond' and 'zero_mode' in U(ev.node)]
            zero = None
            for ev in zs:
                t = ev.node
                pol = ev.a
                while isinstance(t, ast.UnaryOp) and isinstance(t.op, ast.Not):
                    t, pol = t.operand, not pol
                if U(t) == 'self.zero_mode':
                    zero = pol
            def _recv(ev):
                r_ = getattr(ev, '_sub', ev.node).func.value
                if isinstance(r_, ast.Call):
                    inl_ = cx.pure_inline_call(r_, f.mod, c)      # self._block(fx) -> self.store[self.decode(fx)]
                    if inl_ is not None:
                        r_ = inl_
                return r_
            calls = [ev for ev in p.ev if ev.kind == 'call' and callee_name(ev.node) == name and ev.frame.fid == 0
                     and isinstance(ev.node.func, ast.Attribute) and isinstance(getattr(ev, '_sub', ev.node).func, ast.Attribute)
                     and isinstance(_recv(ev), ast.Subscript)]
            ck.ob('R4', f.qn, 'delegates to the block method of the same name exactly once', len(calls) == 1,
                  detail='delegation-count %d' % len(calls), loc=cx.floc(f))
            if len(calls) != 1:
                continue
            call = calls[0]._sub
            recv = _recv(calls[0])
            ck.ob('R4', f.qn, 'block selected by self.store[self.decode(fx)]',
                  U(recv.value) == 'self.store' and U(recv.slice) == 'self.decode(%s)' % fx,
                  detail='store-key ' + U(recv), loc=cx.floc(f, calls[0].node))
            ck.ob('R4', f.qn, 'zero_mode decides the offset', zero is not None, detail='no-zero-mode-branch', loc=cx.floc(f))
            if zero is None or len(call.args) < 2:
                continue
            pols.add(zero)
            seen += 1
            want = P(nz, a) if zero else P(nz, a + ' + 1')
            try:
                got = nz.norm(call.args[0])
            except NotInt:
                got = None
            ck.sample({'rule': 'R4', 'function': f.qn, 'zero_mode': zero, 'block-address': str(got)})
            ck.ob('R4', f.qn, 'block address = address%s when zero_mode is %s' % ('' if zero else '+1', zero), got == want,
                  detail='offset zero_mode=%s got %s' % (zero, got), loc=cx.floc(f, calls[0].node),
                  message='%s passes %s to the block with zero_mode=%s, expected %s' % (name, got, zero, want))
            ck.ob('R4', f.qn, 'count/values passed through unchanged', U(call.args[1]) == third,
                  detail='second-arg ' + U(call.args[1]), loc=cx.floc(f, calls[0].node))
        ck.ob('R4', f.qn, 'both zero_mode polarities analysed', pols == {True, False}, detail='polarities %s' % sorted(pols), loc=cx.floc(f))
    ck.floor('R4', seen, 6, 'method x zero_mode instances')
    # the option itself: an explicit zero_mode (False included) is what the context uses
    init = cx.method(c, '__init__')
    nb = 0
    for p in cx.enum(init, c, max_depth=0):
        annotate(p, heap=False)
        for ev in p.ev:
            if ev.kind == 'assign' and U(ev.a) == 'self.zero_mode':
                nb += 1
                v = getattr(ev, '_sub', None) or ev.node.value
                lossy = (isinstance(v, ast.BoolOp) and isinstance(v.op, ast.Or) and not (isinstance(v.values[-1], ast.Constant) and not v.values[-1].value)) or \
                    (isinstance(v, ast.IfExp) and not (isinstance(v.test, ast.Compare) and 'None' in U(v.test)) and 'kwargs' in U(v.test))
                ck.ob('R4', init.qn, 'an explicit zero_mode argument (False included) overrides the default', not lossy,
                      detail='zero-mode-falsy-overridden', loc=cx.floc(init, ev.node),
                      message='ModbusSlaveContext takes zero_mode from `%s`: an explicit zero_mode=False is replaced by the library default, '
                              'so with Defaults.ZeroMode = True the one-based offset cannot be selected' % U(ev.node.value))
    ck.floor('R4', nb, 1, 'zero_mode bindings in __init__')
    # fx mapper
    ic = cx.idx.cls('pymodbus.interfaces.IModbusSlaveContext')
    try:
        m = cx.ce.class_member(ic, '__fx_mapper')
    except Exception as e:
        raise AnalysisError('cannot fold IModbusSlaveContext.__fx_mapper: %s' % e)
    from spec.tables import FX_TABLE
    ck.tables.append('spec.tables.FX_TABLE (MODBUS Application Protocol V1.1b3 §4.3/§6: primary tables per function code)')
    for fc, t in sorted(FX_TABLE.items()):
        ck.ob('R4', ic.qn + '.__fx_mapper', 'fc %d -> table %r' % (fc, t), m.get(fc) == t,
              detail='fx %d -> %r' % (fc, m.get(fc)), loc=ic.loc)
    d = cx.method(ic, 'decode')
    # the returned expression with locals looked through (value propagation on the single path)
    ok = False
    rps = [p_ for p_ in cx.enum(d, ic, max_depth=0) if not (p_.exit and p_.exit[0] == 'exc')]
    if len(rps) == 1:
        annotate(rps[0], heap=False)
        rv = ret_expr(rps[0])
        ok = isinstance(rv, ast.Subscript) and U(rv.value).endswith('__fx_mapper') and U(rv.value).startswith('self.') and U(rv.slice) == d.params[1]
    ck.ob('R4', d.qn, 'decode(fx) is the table lookup __fx_mapper[fx]', ok, detail='decode-shape', loc=cx.floc(d))


def r5_server_context(ck, cx):
    ck.rule('R5', 'ModbusServerContext: single -> Defaults.UnitId; else membership or NoSuchSlaveException; set/del accept exactly 0..247')
    c = cx.idx.cls('pymodbus.datastore.context.ModbusServerContext')
    nz = cx.nz(c.mod, c)
    from spec.tables import UNIT_ID_RANGE
    # __getitem__
    g = cx.method(c, '__getitem__')
    ck.saw('functions', g.qn)
    sl = g.params[1]
    n = 0
    for p in cx.enum(g, c, max_depth=0):
        st = annotate(p)
        single = None
        member = None
        for ev in p.ev:
            if ev.kind == 'cond':
                if U(ev._sub) == 'self.single':
                    single = ev.a
                elif isinstance(ev._sub, ast.Compare) and isinstance(ev._sub.ops[0], (ast.In, ast.NotIn)) and \
                        U(ev._sub.comparators[0]) in ('self._slaves', 'self._slaves.keys()'):
                    member = ev.a if isinstance(ev._sub.ops[0], ast.In) else (not ev.a)
                    key = ev._sub.left
        if single is None:
            ck.ob('R5', g.qn, 'branches on self.single', False, detail='no-single-branch', loc=cx.floc(g))
            continue
        n += 1
        if member is None:
            ck.ob('R5', g.qn, 'tests membership in self._slaves', False, detail='no-membership-test single=%s' % single, loc=cx.floc(g))
            continue
        want_key = 'Defaults.UnitId' if single else sl
        ck.ob('R5', g.qn, 'lookup key is %s when single=%s' % (want_key, single), U(key) == want_key,
              detail='key single=%s %s' % (single, U(key)), loc=cx.floc(g))
        if member:
            r = ret_expr(p)
            okr = r is not None and U(r) in ('self._slaves.get(%s)' % want_key, 'self._slaves[%s]' % want_key)
            ck.ob('R5', g.qn, 'returns the registered context', okr and p.exit[0] == 'return',
                  detail='return single=%s %s' % (single, U(r) if r is not None else p.exit), loc=cx.floc(g))
        else:
            ck.ob('R5', g.qn, 'unknown id raises NoSuchSlaveException', p.exit == ('exc', 'NoSuchSlaveException'),
                  detail='absent single=%s exit %s' % (single, p.exit), loc=cx.floc(g))
    ck.floor('R5', n, 4, '__getitem__ paths')
    # __setitem__ / __delitem__
    for name in ('__setitem__', '__delitem__'):
        f = cx.method(c, name)
        ck.saw('functions', f.qn)
        sl = f.params[1]
        okpaths = 0
        for p in cx.enum(f, c, max_depth=0):
            st = annotate(p)
            mut = [ev for ev in p.ev if (ev.kind == 'assign' and isinstance(ev.a, ast.Subscript) and U(ev.a.value) == 'self._slaves')
                   or (ev.kind == 'del' and 'self._slaves' in U(ev.node))]
            single = None
            for ev in p.ev:
                if ev.kind == 'cond' and U(ev._sub).replace('not ', '') == 'self.single':
                    single = ev.a if not U(ev._sub).startswith('not ') else (not ev.a)
            cs = []
            for ev in p.ev:
                if ev.kind == 'cond' and 'single' not in U(ev._sub):
                    # interval conditions on the unit id (locals substituted: a renamed / remapped local still
                    # denotes the parameter on the multi-unit path)
                    cs += constraints(_inline_class_ranges(cx, c, ev._sub), ev.a, nz)
            got = _canon_set(cs)
            lo, hi = UNIT_ID_RANGE
            exp = {cstr(('ge', P(nz, '%s - %d' % (sl, lo)))), cstr(('ge', P(nz, '%d - %s' % (hi, sl))))}
            if mut:
                okpaths += 1
                if name == '__setitem__' and single:
                    # single mode: key is remapped to Defaults.UnitId before the range test
                    continue
                if name == '__delitem__':
                    ck.ob('R5', f.qn, 'deletion only in multi mode', single is False, detail='delete-in-single', loc=cx.floc(f))
                ck.ob('R5', f.qn, 'mutation only for ids %d..%d' % (lo, hi), got == exp,
                      detail='accept-interval ' + '; '.join(sorted(got)), loc=cx.floc(f),
                      message='%s accepts ids under {%s}, expected %d <= id <= %d' % (name, '; '.join(sorted(got)), lo, hi))
                ck.sample({'rule': 'R5', 'function': f.qn, 'accept': sorted(got)})
            else:
                ck.ob('R5', f.qn, 'refusal raises NoSuchSlaveException', p.exit == ('exc', 'NoSuchSlaveException'),
                      detail='refusal exit %s' % (p.exit,), loc=cx.floc(f))
        ck.ob('R5', f.qn, 'has a mutating path', okpaths > 0, detail='no-mutating-path', loc=cx.floc(f))
    # construction: in single mode the one context is registered under Defaults.UnitId
    i = cx.method(c, '__init__')
    ck.saw('functions', i.qn)
    want = cx.ce.try_ev(ast.parse('Defaults.UnitId', mode='eval').body, c.mod, c)
    seen_single = 0
    for p in cx.enum(i, c, max_depth=0):
        st = annotate(p)
        single = None
        for ev in p.ev:
            if ev.kind == 'cond' and U(ev._sub).replace('not ', '') in ('self.single', i.params[2]):
                single = ev.a if not U(ev._sub).startswith('not ') else (not ev.a)
        if single:
            seen_single += 1
            v = st.heap.get('self._slaves')
            keys_ = None
            if isinstance(v, ast.Dict):
                keys_ = list(v.keys)
            elif isinstance(v, ast.Call) and callee_name(v) == 'dict' and len(v.args) == 1 and isinstance(v.args[0], (ast.List, ast.Tuple)) \
                    and all(isinstance(x, (ast.Tuple, ast.List)) and len(x.elts) == 2 for x in v.args[0].elts):
                keys_ = [x.elts[0] for x in v.args[0].elts]          # dict([(key, value)])
            ok = keys_ is not None and len(keys_) == 1 and cx.ce.try_ev(keys_[0], c.mod, c) == want
            ck.ob('R5', i.qn, 'single mode stores the one context under Defaults.UnitId', ok,
                  detail='single-init ' + (U(v)[:60] if v is not None else 'unset'), loc=cx.floc(i))
    ck.ob('R5', i.qn, 'constructor distinguishes single mode', seen_single > 0, detail='no-single-branch-in-init', loc=cx.floc(i))



def _inline_class_ranges(cx, cls, expr):
    """`x in self.NAME` / `x in Cls.NAME` where NAME is bound once in the class body to range(...) / a tuple of constants: the
    class-level value is substituted, so that a named id range means what the inline range means"""
    import copy

    class T(ast.NodeTransformer):
        def visit_Attribute(self, n):
            self.generic_visit(n)
            if isinstance(n.value, ast.Name) and n.value.id in ('self', 'cls', cls.name) and isinstance(n.ctx, ast.Load):
                k, v = cx.idx.find_attr(cls, n.attr)
                if k is not None and isinstance(v, ast.Call) and isinstance(v.func, ast.Name) and v.func.id == 'range':
                    stores = [x for kk in cx.idx.mro(cls) for m in kk.methods.values() for x in ast.walk(m.node)
                              if isinstance(x, ast.Attribute) and x.attr == n.attr and isinstance(x.ctx, ast.Store)]
                    if not stores:
                        return copy.deepcopy(v)
            return n
    try:
        return T().visit(copy.deepcopy(expr))
    except Exception:
        return expr

def r6_table_isolation(ck, cx, rule='R6'):
    """Storage isolation: the four tables of a slave context, and the tables of different contexts, are distinct
    objects unless the application passes the same block itself.  Decided on ModbusSlaveContext.__init__: the
    default of every self.store[...] entry is traced to its origin; it must be a constructor / create() call
    evaluated once per entry and per instance -- not one local shared by several entries, and not an object that
    outlives the instance (class attribute, module global)."""
    ck.rule(rule, 'slave-context tables are pairwise distinct fresh blocks by default: no default block shared between tables or between contexts')
    c = cx.idx.cls('pymodbus.datastore.context.ModbusSlaveContext')
    f = cx.method(c, '__init__')
    ck.saw('functions', f.qn)
    params = set(f.params) | {a.arg for a in [f.node.args.vararg, f.node.args.kwarg] if a is not None}
    n = 0
    for p in cx.enum(f, c, max_depth=0, default_kwargs=True):      # the call that passes no tables: explicit `'di' in kwargs` tests are false
        origins = {}
        depth = 0
        loop_depth_at = {}
        for i, ev in enumerate(p.ev):
            if ev.kind == 'loop':
                depth += 1 if ev.a == 'enter' else (-1 if ev.a in ('exit', 'leave') else 0)
            loop_depth_at[i] = depth
        for i, ev in enumerate(p.ev):
            if not (ev.kind == 'assign' and isinstance(ev.a, ast.Subscript) and U(ev.a.value) == 'self.store'):
                continue
            n += 1
            key = U(ev.a.slice)
            v = ev.node.value
            # the default: second argument of a .get / .pop on the keyword dict, right operand of `or`, else the value itself
            d = v
            if isinstance(v, ast.Call) and isinstance(v.func, ast.Attribute) and v.func.attr in ('get', 'pop', 'setdefault') and len(v.args) == 2:
                d = v.args[1]
            elif isinstance(v, ast.BoolOp) and isinstance(v.op, ast.Or):
                d = v.values[-1]
            elif isinstance(v, ast.IfExp):
                # the default is the branch that is not taken from the caller's arguments
                kwn = f.node.args.kwarg.arg if f.node.args.kwarg is not None else None
                def _from_args(x):
                    return any(isinstance(n_, ast.Name) and (n_.id == kwn or n_.id in f.params[1:]) for n_ in ast.walk(x))
                if _from_args(v.body) and not _from_args(v.orelse):
                    d = v.orelse
                elif _from_args(v.orelse) and not _from_args(v.body):
                    d = v.body
                else:
                    d = v.orelse if 'None' in U(v.test) and ' is None' not in U(v.test) else v.body
            # trace a local name back to the statement that bound it
            at, hops = i, 0
            while isinstance(d, ast.Name) and d.id not in params and hops < 5:
                hops += 1
                src = None
                for j in range(at - 1, -1, -1):
                    e2 = p.ev[j]
                    if e2.kind == 'assign' and isinstance(e2.a, ast.Name) and e2.a.id == d.id and e2.frame.fid == ev.frame.fid:
                        src = j
                        break
                if src is None:
                    break
                d, at = p.ev[src].node.value, src
            txt = U(d)
            if isinstance(d, ast.Name) and d.id in params:
                continue        # supplied by the application
            if isinstance(d, ast.Call):
                shared_in_loop = loop_depth_at.get(at, 0) < loop_depth_at.get(i, 0)
                okey = at            # the event that evaluated the call: the store assignment itself or the local it was bound to
                prev = origins.get(okey)
                ck.ob(rule, f.qn, 'default block of store[%s] is created for this entry alone' % key, prev is None and not shared_in_loop,
                      detail='shared-default %s' % txt[:50], loc=cx.floc(f, ev.node),
                      message='ModbusSlaveContext: store[%s] and store[%s] default to the same object `%s`: a write to one table changes the other'
                              % (key, prev if prev is not None else 'the other loop iterations', txt[:60]))
                origins.setdefault(okey, key)
                # the call must produce a new object: a class, or a classmethod / function returning a constructor call
                fresh = _fresh_call(cx, d, c)
                if fresh is False:
                    ck.ob(rule, f.qn, 'default of store[%s] is a newly constructed block' % key, False, detail='default-not-fresh %s' % txt[:50],
                          loc=cx.floc(f, ev.node), message='ModbusSlaveContext: the default for store[%s], `%s`, does not construct a new block' % (key, txt[:60]))
                continue
            # not a call: an attribute / subscript / global that outlives this __init__ call
            root = d
            while isinstance(root, (ast.Attribute, ast.Subscript)):
                root = root.value
            persistent = isinstance(d, (ast.Attribute, ast.Subscript)) or (isinstance(d, ast.Name) and d.id not in params)
            if isinstance(root, ast.Name) and root.id == 'self':
                # an attribute this very __init__ call has just created is per-instance: not decided here
                base = d
                while isinstance(base, ast.Subscript):
                    base = base.value
                if any(e2.kind == 'assign' and U(e2.a) == U(base) for e2 in p.ev[:i]):
                    ck.note('store[%s] defaults to %s, created earlier in __init__: sharing between tables not decided' % (key, txt[:40]))
                    continue
            ck.ob(rule, f.qn, 'default block of store[%s] does not outlive the context' % key, not persistent,
                  detail='persistent-default %s' % txt[:50], loc=cx.floc(f, ev.node),
                  message='ModbusSlaveContext: store[%s] defaults to `%s`, an object shared by every context that omits this table: '
                          'a write addressed to one unit changes the others' % (key, txt[:60]))
    from .. import ownership as _own
    n += _own.rule_no_sharing_idiom(ck, cx, rule, ('pymodbus.datastore.context.ModbusSlaveContext',),
                                    'the tables that default share one block: a write to one table (or unit) changes the other')
    ck.floor(rule, n, 1, 'store entries traced')
    # the block constructors take a private copy of the initial values
    sq = cx.idx.cls('pymodbus.datastore.store.ModbusSequentialDataBlock')
    init = cx.method(sq, '__init__')
    vals = init.params[2]
    def may_alias(v, depth=0):
        """can the expression evaluate to the very object the constructor was given?"""
        if isinstance(v, ast.Name):
            return v.id == vals
        if isinstance(v, (ast.BoolOp,)):
            return any(may_alias(x, depth) for x in v.values)
        if isinstance(v, ast.IfExp):
            return may_alias(v.body, depth) or may_alias(v.orelse, depth)
        if isinstance(v, ast.Call) and isinstance(v.func, ast.Name) and depth < 2:
            r = cx.idx.lookup(init.mod, v.func.id)
            if r and r[0] == 'func':
                # a helper of the package: it aliases when some return hands back the parameter that receives our list
                h = r[1]
                for i_, a_ in enumerate(v.args):
                    if may_alias(a_, depth) and i_ < len(h.params):
                        pn = h.params[i_]
                        for rt in ast.walk(h.node):
                            if isinstance(rt, ast.Return) and rt.value is not None and any(isinstance(x, ast.Name) and x.id == pn for x in [rt.value] +
                                                                                         (list(rt.value.values) if isinstance(rt.value, ast.BoolOp) else []) +
                                                                                         ([rt.value.body, rt.value.orelse] if isinstance(rt.value, ast.IfExp) else [])):
                                return True
        return False
    for p in cx.enum(init, sq, max_depth=0):
        annotate(p, heap=False)
        for ev in p.ev:
            if ev.kind == 'assign' and U(ev.a) == 'self.values':
                v_ = getattr(ev, '_sub', None) or ev.node.value
                ck.ob(rule, init.qn, 'sequential block keeps its own list (copy or fresh list), not the caller\'s', not may_alias(v_),
                      detail='values-aliased', loc=cx.floc(init, ev.node),
                      message='ModbusSequentialDataBlock stores the list it was given (`%s`): two blocks built from one list share their cells' % U(v_)[:60])
    cr = cx.method(sq, 'create')
    rets = [r for r in ast.walk(cr.node) if isinstance(r, ast.Return)]
    def _fresh_local(a):
        # a local of create() bound (once) to a list built by this very call:  blank = [0] * N ;  blank = list(...) ;  a comprehension
        if not isinstance(a, ast.Name):
            return False
        binds = [n_.value for n_ in ast.walk(cr.node) if isinstance(n_, ast.Assign) and any(isinstance(t_, ast.Name) and t_.id == a.id for t_ in n_.targets)]
        if len(binds) != 1 or a.id in cr.params:
            return False
        v = binds[0]
        return isinstance(v, (ast.List, ast.ListComp, ast.Dict, ast.DictComp)) or (isinstance(v, ast.BinOp) and isinstance(v.op, ast.Mult) and (isinstance(v.left, ast.List) or isinstance(v.right, ast.List))) \
            or (isinstance(v, ast.Call) and isinstance(v.func, ast.Name) and v.func.id in ('list', 'dict'))
    ck.ob(rule, cr.qn, 'create() builds a new block from a new list on every call',
          len(rets) == 1 and isinstance(rets[0].value, ast.Call) and U(rets[0].value.func) == cr.params[0] and
          all(not isinstance(a, (ast.Name, ast.Attribute)) or isinstance(cx.ce.try_ev(a, cr.mod, sq, default=None), (int, str, bytes, float)) or _fresh_local(a)
              for a in rets[0].value.args),
          detail='create-not-fresh', loc=cx.floc(cr))


def _fresh_call(cx, call, cls):
    """True: constructs a new object; False: certainly does not; None: unknown"""
    fn = call.func
    mod = cls.mod

    def klass(name):
        r = cx.idx.lookup(mod, name)
        return r[1] if r and r[0] == 'class' else None
    if isinstance(fn, ast.Name):
        if fn.id in ('dict', 'list', 'set'):
            return True
        return True if klass(fn.id) is not None else None
    if isinstance(fn, ast.Attribute) and isinstance(fn.value, ast.Name):
        tgt = klass(fn.value.id)
        if tgt is not None:
            m = cx.idx.find_method(tgt, fn.attr)
            if m is not None:
                rets = [r for r in ast.walk(m.node) if isinstance(r, ast.Return) and r.value is not None]
                if rets and all(isinstance(r.value, ast.Call) for r in rets):
                    return True
                if rets and any(isinstance(r.value, (ast.Attribute, ast.Subscript)) for r in rets):
                    return False
    return None


def r7_reset_keeps_extent(ck, cx):
    ck.rule('R7', 'reset() of a data block restores the values and nothing else: the start address (and with it the accepted range) is unchanged')
    n = 0
    base = cx.idx.cls('pymodbus.datastore.store.BaseModbusDataBlock')
    for k in [base] + cx.idx.subclasses(base):
        fn = cx.idx.find_method(k, 'reset')
        if fn is None:
            continue
        ck.saw('functions', fn.qn)
        for p in cx.enum(fn, k, max_depth=2):
            if p.exit and p.exit[0] == 'exc':
                continue
            n += 1
            writes = [e for e in p.ev if e.kind in ('assign', 'aug') and isinstance(e.a, ast.Attribute) and e.a.attr == 'address']
            ck.ob('R7', k.qn + '.reset', 'reset() does not assign the block address', not writes, detail='reset-moves-block', loc=cx.floc(fn),
                  message='%s.reset() assigns the block address (`%s`): a block that does not start at 0 rejects its own cells after a reset'
                          % (k.name, U(writes[0].node)[:50] if writes else ''))
    ck.floor('R7', n, 2, 'reset paths')


def run(ck, tier):
    cx = Ctx()
    ck.guard(r1_sequential_validate, ck, cx)
    ck.guard(r2_sequential_getset, ck, cx)
    ck.guard(r3_sparse, ck, cx)
    ck.guard(r4_context_offset, ck, cx)
    ck.guard(r5_server_context, ck, cx)
    ck.guard(r6_table_isolation, ck, cx)
    ck.guard(r7_reset_keeps_extent, ck, cx)
    ck.assume('Python slice, dict and set semantics are trusted')
    ck.assume('histories of operations are not decided; the rules fix the shape of every address computation')
    from .. import ownership as _own
    ck.guard(_own.rule_instance_owned, ck, cx, 'R8', _own.STORES, 'a write changes cells outside the addressed block', 4)
    from .. import ownership as _own2
    ck.rule('R9', 'no unsound memoisation (a caching decorator on a method, or on a function that returns a mutable container) in the modules this property rests on')
    ck.guard(_own2.rule_no_unsafe_memo, ck, cx, 'R9', ('pymodbus.datastore.context', 'pymodbus.datastore.store'), 'validate / getValues answer from a value cached before the block changed')
    from .. import options as _opt
    ck.guard(_opt.rule_options_read_at_construction, ck, cx, 'R9', ('pymodbus.datastore.context', 'pymodbus.datastore.store'), ('ZeroMode',), 'contexts address their blocks one off from the configured mode')
    return cx.idx
