"""C04 — server executes data-access requests as a Modbus register file."""
import ast
import itertools

from ..common import Ctx, U, cstr, Poly, NotInt, AnalysisError, annotate, callee_name
from ..execmodel import DATA_ACCESS, exec_paths
from spec.tables import FX_TABLE

TITLE = 'server executes data-access requests as a Modbus register file'

READS = (1, 2, 3, 4)

# what the normal response must echo ([APP] §6.5, §6.6, §6.11, §6.12, §6.16):  fc -> constructor arguments
ECHO = {
    5: ['self.address', ('stored-or-request', 'self.value')],
    6: ['self.address', ('stored-or-request', 'self.value')],
    15: ['self.address', ('quantity', 'len(self.values)')],
    16: ['self.address', ('quantity', 'self.count')],
    22: ['self.address', 'self.and_mask', 'self.or_mask'],
}


def _bits(expr, env):
    """evaluate an expression built from & | ^ ~ over named symbols for one bit position"""
    if isinstance(expr, ast.BinOp):
        a, b = _bits(expr.left, env), _bits(expr.right, env)
        if isinstance(expr.op, ast.BitAnd):
            return a & b
        if isinstance(expr.op, ast.BitOr):
            return a | b
        if isinstance(expr.op, ast.BitXor):
            return a ^ b
        raise NotInt('op')
    if isinstance(expr, ast.UnaryOp) and isinstance(expr.op, ast.Invert):
        return 1 - _bits(expr.operand, env)
    key = U(expr)
    if key in env:
        return env[key]
    if isinstance(expr, ast.Constant) and expr.value in (0xffff, 0xFFFF):
        return 1
    if isinstance(expr, ast.Constant) and expr.value == 0:
        return 0
    raise NotInt(key)


def r1_fx(ck, cx):
    ck.rule('R1', 'function code -> table map equals the spec data model')
    ic = cx.idx.cls('pymodbus.interfaces.IModbusSlaveContext')
    m = cx.ce.class_member(ic, '__fx_mapper')
    ck.tables.append('spec.tables.FX_TABLE ([APP] §4.3, §6.x)')
    for fc, t in sorted(FX_TABLE.items()):
        ck.ob('R1', ic.qn + '.__fx_mapper', 'fc %d -> table %r' % (fc, t), m.get(fc) == t,
              detail='fx %d -> %r' % (fc, m.get(fc)), loc=ic.loc)
    # distinct tables must be distinct keys of the store
    sc = cx.idx.cls('pymodbus.datastore.context.ModbusSlaveContext')
    init = cx.method(sc, '__init__')
    keys = {}
    for p in cx.enum(init, sc, max_depth=0):
        annotate(p, heap=False)
        for ev in p.ev:
            if ev.kind == 'assign' and isinstance(ev.a, ast.Subscript) and U(ev.a.value) == 'self.store':
                tgt = getattr(ev, '_subt', None) or ev.a
                k = cx.ce.try_ev(tgt.slice, sc.mod, sc)
                v = getattr(ev, '_sub', None) or ev.node.value
                kw = None
                kwn = init.node.args.kwarg.arg if init.node.args.kwarg is not None else None
                for x in ast.walk(v):
                    # the keyword the block is taken from: kwargs.get('co', ..) / kwargs.pop('co', ..) / kwargs['co']
                    if isinstance(x, ast.Call) and callee_name(x) in ('get', 'pop') and x.args and isinstance(x.func, ast.Attribute) and U(x.func.value) == kwn:
                        kw = cx.ce.try_ev(x.args[0], sc.mod, sc)
                    elif isinstance(x, ast.Subscript) and U(x.value) == kwn and isinstance(x.ctx, ast.Load):
                        kw = cx.ce.try_ev(x.slice, sc.mod, sc)
                if kw is not None or k not in keys:
                    keys[k] = kw        # the path on which the option was supplied names the keyword
    want = {'d': 'di', 'c': 'co', 'i': 'ir', 'h': 'hr'}
    for k, kw in sorted(want.items()):
        ck.ob('R1', init.qn, "store[%r] is the block passed as %r" % (k, kw), keys.get(k) == kw,
              detail='store-key %s <- %r' % (k, keys.get(k)), loc=cx.floc(init))


def r2_execute(ck, cx):
    ck.rule('R2', 'reads return getValues(fc, validated address, validated count); writes store at the validated address; FC23 writes before it reads; responses echo the spec fields')
    n = 0
    for fc, qn in sorted(DATA_ACCESS.items()):
        cls = cx.idx.cls(qn)
        f, eps = exec_paths(cx, cls)
        nz = cx.nz(f.mod, cls)
        ck.saw('functions', f.qn)
        for ep in eps:
            if ep.ret[0] != 'response':
                continue
            n += 1
            k, call = ep.ret[1], ep.ret[2]
            gets = [o for o in ep.ops if o.kind == 'get']
            sets = [o for o in ep.ops if o.kind == 'set']
            vals = [o for o in ep.ops if o.kind == 'validate' and o.polarity]
            ck.sample({'rule': 'R2', 'fc': fc, 'ops': [repr(o) for o in ep.ops], 'response': U(call)[:120]})
            if fc in READS or fc == 23:
                arg = call.args[0] if call.args else None
                ok = isinstance(arg, ast.Call) and callee_name(arg) == 'getValues' and U(arg.func.value) == f.params[1]
                ck.ob('R2', cls.qn, 'response values are the result of context.getValues', ok,
                      detail='response-not-from-getValues ' + (U(arg)[:50] if arg is not None else 'none'), loc=cx.floc(f),
                      message='FC%d response is built from %s, not from context.getValues' % (fc, U(arg)[:60] if arg is not None else None))
                if ok:
                    want_a, want_n = ('self.read_address', 'self.read_count') if fc == 23 else ('self.address', 'self.count')
                    ck.ob('R2', cls.qn, 'values read at (%s, %s) with the request function code' % (want_a, want_n),
                          len(arg.args) >= 3 and U(arg.args[0]) == 'self.function_code' and nz.canon(arg.args[1]) == want_a
                          and nz.canon(arg.args[2]) == want_n,
                          detail='read-range ' + ', '.join(U(a) for a in arg.args), loc=cx.floc(f),
                          message='FC%d reads getValues(%s), expected (%s, %s, %s)' % (fc, ', '.join(U(a) for a in arg.args), 'self.function_code', want_a, want_n))
                if fc in READS:
                    ck.ob('R2', cls.qn, 'read request does not write', not sets, detail='read-request-writes', loc=cx.floc(f))
            if fc in (5, 6, 15, 16, 22, 23):
                ck.ob('R2', cls.qn, 'write request performs exactly one setValues', len(sets) == 1,
                      detail='set-count %d' % len(sets), loc=cx.floc(f),
                      message='FC%d performs %d setValues on the normal path' % (fc, len(sets)))
                for s in sets:
                    want_a = 'self.write_address' if fc == 23 else 'self.address'
                    ck.ob('R2', cls.qn, 'write address is %s' % want_a, len(s.call.args) >= 3 and nz.canon(s.call.args[1]) == want_a
                          and U(s.call.args[0]) == 'self.function_code',
                          detail='write-address ' + ', '.join(U(a) for a in s.call.args[:2]), loc=cx.floc(f, s.ev.node))
                    want_v = {5: '[self.value]', 6: '[self.value]', 15: 'self.values', 16: 'self.values', 23: 'self.write_registers'}.get(fc)
                    if want_v:
                        ck.ob('R2', cls.qn, 'values written are %s' % want_v, len(s.call.args) >= 3 and nz.canon(s.call.args[2]) == want_v,
                              detail='write-values ' + (U(s.call.args[2])[:50] if len(s.call.args) >= 3 else ''), loc=cx.floc(f, s.ev.node),
                              message='FC%d writes %s, expected %s' % (fc, U(s.call.args[2])[:50] if len(s.call.args) >= 3 else None, want_v))
            if fc == 23 and sets and gets:
                ck.ob('R2', cls.qn, 'FC23: write is applied before the read', max(s.index for s in sets) < min(g.index for g in gets),
                      detail='fc23-read-before-write', loc=cx.floc(f),
                      message='FC23 reads before it writes; the spec performs the write first')
            if fc in ECHO:
                want = ECHO[fc]
                ok = len(call.args) == len(want) and not call.keywords
                det = []
                if ok:
                    for a, w in zip(call.args, want):
                        if isinstance(w, tuple) and w[0] == 'stored-or-request':
                            # either the request value or the value read back from the same cell after the write
                            good = nz.canon(a) == w[1]
                            if not good and isinstance(a, ast.Subscript) and isinstance(a.value, ast.Call) and callee_name(a.value) == 'getValues':
                                g = a.value
                                good = (isinstance(a.slice, ast.Constant) and a.slice.value == 0 and len(g.args) >= 3 and
                                        U(g.args[0]) == 'self.function_code' and nz.canon(g.args[1]) == 'self.address' and U(g.args[2]) == '1'
                                        and sets and gets and max(s.index for s in sets) < max(x.index for x in gets))
                        elif isinstance(w, tuple):
                            good = nz.canon(a) == w[1]
                        else:
                            good = nz.canon(a) == w
                        if not good:
                            ok = False
                            det.append(U(a)[:40])
                ck.ob('R2', cls.qn, 'response echoes %s' % ', '.join(w if isinstance(w, str) else w[1] for w in want), ok,
                      detail='echo ' + '; '.join(det or [U(call)[:60]]), loc=cx.floc(f),
                      message='FC%d response is %s' % (fc, U(call)[:100]))
    ck.floor('R2', n, 10, 'normal-response paths')


def r3_mask_write(ck, cx):
    ck.rule('R3', 'FC22 stores (cur AND and_mask) OR (or_mask AND NOT and_mask) where cur is read at the same address (truth table over one bit)')
    cls = cx.idx.cls(DATA_ACCESS[22])
    f, eps = exec_paths(cx, cls)
    n = 0
    for ep in eps:
        if ep.ret[0] != 'response':
            continue
        sets = [o for o in ep.ops if o.kind == 'set']
        for s in sets:
            n += 1
            v = s.call.args[2] if len(s.call.args) >= 3 else None
            if isinstance(v, ast.List) and len(v.elts) == 1:
                v = v.elts[0]
            # identify the current-value sub-expression
            cur = None
            for node in ast.walk(v):
                if isinstance(node, ast.Subscript) and isinstance(node.value, ast.Call) and callee_name(node.value) == 'getValues':
                    cur = node
            okcur = cur is not None and isinstance(cur.slice, ast.Constant) and cur.slice.value == 0 and \
                U(cur.value.args[1]) == 'self.address' and U(cur.value.args[0]) == 'self.function_code'
            ck.ob('R3', cls.qn, 'new value is computed from the current value of the same register', okcur,
                  detail='mask-current-value', loc=cx.floc(f, s.ev.node))
            if not okcur:
                continue
            table, bad = [], []
            try:
                for c, a, o in itertools.product((0, 1), repeat=3):
                    env = {U(cur): c, 'self.and_mask': a, 'self.or_mask': o}
                    got = _bits(v, env)
                    want = (c & a) | (o & (1 - a))
                    table.append((c, a, o, got, want))
                    if got != want:
                        bad.append('cur=%d and=%d or=%d -> %d (spec %d)' % (c, a, o, got, want))
            except NotInt as e:
                ck.ob('R3', cls.qn, 'stored value is a bitwise function of cur, and_mask, or_mask', False,
                      detail='mask-not-bitwise ' + str(e)[:40], loc=cx.floc(f, s.ev.node))
                continue
            ck.sample({'rule': 'R3', 'expression': U(v).replace(U(cur), 'cur'), 'truth-table(cur,and,or,got,spec)': table})
            ck.ob('R3', cls.qn, 'truth table equals (cur & and) | (or & ~and)', not bad,
                  detail='mask-formula ' + U(v).replace(U(cur), 'cur'), loc=cx.floc(f, s.ev.node),
                  message='FC22 stores %s; differs from the spec formula for: %s' % (U(v).replace(U(cur), 'cur'), '; '.join(bad)))
    ck.floor('R3', n, 1, 'mask-write stores')


def r4_context_siblings(ck, cx):
    ck.rule('R4', 'validate/getValues/setValues of ModbusSlaveContext apply the identical address transform and table selection')
    c = cx.idx.cls('pymodbus.datastore.context.ModbusSlaveContext')
    nz = cx.nz(c.mod, c)
    summ = {}
    for name in ('validate', 'getValues', 'setValues'):
        f = cx.method(c, name)
        ck.saw('functions', f.qn)
        rows = set()
        for p in cx.enum(f, c, max_depth=1):
            annotate(p)
            conds = tuple(sorted((U(ev._sub), ev.a) for ev in p.ev if ev.kind == 'cond'))
            for ev in p.ev:
                if ev.kind == 'call' and callee_name(ev.node) == name and ev.frame.fid == 0 and isinstance(ev.node.func, ast.Attribute):
                    sub = ev._sub
                    recv = sub.func.value
                    if isinstance(recv, ast.Call):
                        inl = cx.pure_inline_call(recv, f.mod, c)       # a private block-lookup helper
                        if inl is not None:
                            recv = inl
                    if not isinstance(recv, ast.Subscript):
                        continue
                    a = sub.args[0] if sub.args else None
                    try:
                        off = nz.norm(a) - Poly.atom(f.params[2])
                    except (NotInt, TypeError):
                        off = 'opaque'
                    rows.add((conds, U(recv).replace(f.params[1], 'FX'), str(off)))
        summ[name] = rows
    ref = summ['validate']
    for name in ('getValues', 'setValues'):
        ck.ob('R4', c.qn + '.' + name, 'same (condition -> store key, address offset) table as validate', summ[name] == ref,
              detail='sibling-disagreement ' + '; '.join(sorted(str(x) for x in (summ[name] ^ ref)))[:200], loc=c.loc,
              message='%s and validate disagree on the address transform: %s' % (name, sorted(summ[name] ^ ref)))
    ck.sample({'rule': 'R4', 'transform-table': sorted(str(x) for x in ref)})
    ck.floor('R4', len(ref), 2, 'zero_mode polarities')


def r13_accessors_keep_no_state(ck, cx, rule='R13'):
    """validate / getValues / setValues of the slave context are look-ups in `self.store` followed by a delegation to the block:
    they change the BLOCK, never the context.  An accessor that writes an attribute of the context itself (a memo of the block per
    function code, a last-address cache) creates state that register() / reset() / a swapped table have to keep coherent for
    every function code that shares the table -- the register file the requests see is then no longer the one in the store."""
    ck.rule(rule, 'the accessors of ModbusSlaveContext (validate / getValues / setValues and what they call on self) write no attribute of the context: every call looks its table up in the store')
    from .c02 import _self_callees
    k = cx.idx.cls('pymodbus.datastore.context.ModbusSlaveContext')
    MUT = ('setdefault', 'update', '__setitem__', 'append', 'add', 'pop', 'popitem', 'clear', 'insert', 'extend', 'remove')
    n = 0
    for name in ('validate', 'getValues', 'setValues'):
        root = cx.idx.find_method(k, name)
        if root is None:
            continue
        for fn in _self_callees(cx, k, root).values():
            ck.saw('functions', fn.qn)
            n += 1
            for x in ast.walk(fn.node):
                hit = None
                if isinstance(x, (ast.Assign, ast.AugAssign)):
                    for t in (x.targets if isinstance(x, ast.Assign) else [x.target]):
                        for el in (t.elts if isinstance(t, (ast.Tuple, ast.List)) else [t]):
                            base = el
                            while isinstance(base, ast.Subscript):
                                base = base.value
                            if isinstance(base, ast.Attribute) and U(base.value) == 'self':
                                hit = U(el)
                elif isinstance(x, ast.Call) and isinstance(x.func, ast.Attribute) and x.func.attr in MUT and isinstance(x.func.value, ast.Attribute) and U(x.func.value.value) == 'self' \
                        and x.func.value.attr != 'store':
                    hit = U(x.func)
                if hit:
                    ck.ob(rule, fn.qn, 'writes no attribute of the context', False, detail='context-accessor-writes-own-state %s' % hit[:40], loc=cx.floc(fn, x),
                          message='%s (reached from ModbusSlaveContext.%s) writes `%s`: the context remembers something about its tables between requests, which register() or a '
                                  'replaced block has to invalidate for every function code sharing that table — otherwise reads and writes of one code go to another block '
                                  'than those of its siblings' % (fn.qn, name, hit[:60]))
    ck.ob(rule, k.qn, 'accessor methods examined', n >= 3, detail='accessors-missing', loc=k.loc)
    ck.floor(rule, n, 3, 'accessor methods of the slave context (with helpers)')


def run(ck, tier):
    cx = Ctx()
    ck.guard(r1_fx, ck, cx)
    ck.guard(r2_execute, ck, cx)
    ck.guard(r3_mask_write, ck, cx)
    ck.guard(r4_context_siblings, ck, cx)
    ck.guard(r13_accessors_keep_no_state, ck, cx)
    from .c18 import r6_table_isolation
    ck.guard(r6_table_isolation, ck, cx, 'R5')
    ck.rule('R6', 'block getValues/setValues read and write exactly the addressed cells (shared with C18 R2/R3)')
    from .c18 import r2_sequential_getset, r3_sparse
    sub = type(ck)(ck.pid, ck.tier)
    from .c18 import r1_sequential_validate
    for r in (r1_sequential_validate, r2_sequential_getset, r3_sparse):
        sub.guard(r, sub, cx)
    for o in sub.obligations:
        if str(o[1]).endswith(('.getValues', '.setValues', '.validate')):
            ck.obligations.append(('R6',) + tuple(o[1:]))
    for fnd in sub.findings:
        if fnd.construct.endswith(('.getValues', '.setValues', '.validate')):
            ck.finding('R6', fnd.construct, fnd.detail, fnd.loc, fnd.message + ' — a write changes cells other than the addressed ones / a read returns other cells')
    ck.broken += sub.broken
    ck.rule('R7', 'the responses of the data-access functions are encoded as specified (shared with C01 R2): what a read returns on the wire is what getValues returned')
    from ..share import import_findings
    import_findings(ck, 'C01', 'R7', ('R2',), 'a client reading back a cell sees another value than the one stored',
                    construct_contains=('ReadBitsResponseBase', 'ReadCoilsResponse', 'ReadDiscreteInputsResponse', 'ReadRegistersResponseBase',
                                        'ReadHoldingRegistersResponse', 'ReadInputRegistersResponse', 'ReadWriteMultipleRegistersResponse',
                                        'WriteSingleCoilResponse', 'WriteSingleRegisterResponse', 'WriteMultipleCoilsResponse',
                                        'WriteMultipleRegistersResponse', 'MaskWriteRegisterResponse'))
    ck.assume('histories are not decided: that a read returns the latest write follows from R2 + C18 shapes, it is not itself checked')
    ck.assume('only the in-memory ModbusSlaveContext is analysed, not arbitrary datastore implementations')
    from .. import ownership as _own
    ck.guard(_own.rule_instance_owned, ck, cx, 'R8', _own.STORES, 'a write to one context / block changes cells of another', 4)
    from ..share import import_findings as _imp
    ck.rule('R9', 'the echo fields of a write response carry the request values, 0 included: a response constructor does not replace a 0 argument by a default (shared with C01 R6)')
    _imp(ck, 'C01', 'R9', ('R6',), 'the normal response does not echo what the request carried', construct_contains=('Response',))
    from .. import ownership as _own2
    ck.rule('R10', 'no unsound memoisation (a caching decorator on a method, or on a function that returns a mutable container) in the modules this property rests on')
    ck.guard(_own2.rule_no_unsafe_memo, ck, cx, 'R10', ('pymodbus.datastore.context', 'pymodbus.datastore.store'), 'a read returns a value cached before the latest write')
    from .c01 import shared_layout_findings as _slf
    ck.rule('R11', 'the write requests decode exactly the values their quantity field announces (shared with C01 R3): what execute() writes is what the frame carried')
    _slf(ck, cx, 'R11', ['WriteMultipleCoilsRequest', 'WriteMultipleRegistersRequest', 'WriteSingleCoilRequest', 'WriteSingleRegisterRequest', 'MaskWriteRegisterRequest', 'ReadWriteMultipleRegistersRequest'], 'a write then changes other cells than the addressed ones, or answers normally for a request the spec refuses', rules=('R3',))
    from .. import options as _opt
    ck.guard(_opt.rule_options_read_at_construction, ck, cx, 'R12', ('pymodbus.datastore.context', 'pymodbus.datastore.store'), ('ZeroMode',), 'contexts address their blocks one off from the configured mode: reads and writes land on the neighbouring cell')
    from ..share import import_findings as _imp4
    ck.rule('R14', 'the register file the requests see is the context the application handed to the server: `context or default` is sound only while ModbusServerContext defines neither __len__ nor __bool__ (shared with C10 R7)')
    _imp4(ck, 'C10', 'R14', ('R7',), 'requests are executed against a private default context: writes never reach the application datastore and reads do not come from it')
    return cx.idx
