"""C19 — payload builder and decoder agree for every byte and word order."""
import ast
import re
import struct

from ..common import Ctx, U, AnalysisError, callee_name, annotate, ret_expr, Poly, NotInt
from ..loader import clone

TITLE = 'payload builder and decoder agree for every byte and word order'
BUILDER = 'pymodbus.payload.BinaryPayloadBuilder'
DECODER = 'pymodbus.payload.BinaryPayloadDecoder'

# the 13 pairs and, from the struct documentation, the format character each type must use
PAIRS = [
    ('bits', None, 1), ('8bit_uint', 'B', 1), ('16bit_uint', 'H', 2), ('32bit_uint', 'I', 4), ('64bit_uint', 'Q', 8),
    ('8bit_int', 'b', 1), ('16bit_int', 'h', 2), ('32bit_int', 'i', 4), ('64bit_int', 'q', 8),
    ('16bit_float', 'e', 2), ('32bit_float', 'f', 4), ('64bit_float', 'd', 8), ('string', 's', None),
]


def _alpha(expr):
    """rename comprehension variables canonically"""
    e = clone(expr)
    n = [0]
    for node in ast.walk(e):
        if isinstance(node, (ast.ListComp, ast.GeneratorExp)):
            for g in node.generators:
                if isinstance(g.target, ast.Name):
                    old, new = g.target.id, '_v%d' % n[0]
                    n[0] += 1
                    for x in ast.walk(node):
                        if isinstance(x, ast.Name) and x.id == old:
                            x.id = new
    return e


def _fmt_of(cx, expr, fn, cls):
    """('direct'|'words', format char, endian expr) of a pack/unpack/_pack_words/_unpack_words call"""
    if not isinstance(expr, ast.Call):
        return None
    n = callee_name(expr)
    if n in ('pack', 'unpack') and expr.args:
        f = expr.args[0]
        if isinstance(f, ast.BinOp) and isinstance(f.op, ast.Add):
            # self._byteorder + 'B'   or   self._byteorder + str(len(value)) + 's'   or   '!' + 'I'
            parts = []

            def flat(x):
                if isinstance(x, ast.BinOp) and isinstance(x.op, ast.Add):
                    flat(x.left)
                    flat(x.right)
                else:
                    parts.append(x)
            flat(f)
            pre = U(parts[0])
            ch = cx.ce.try_ev(parts[-1], fn.mod, cls)
            mid = [U(p) for p in parts[1:-1]]
            return ('direct', ch, pre, mid)
        c = cx.ce.try_ev(f, fn.mod, cls)
        if isinstance(c, str):
            return ('direct', c.lstrip('!<>=@'), repr(c[0]) if c[0] in '!<>=@' else '', [])
    if n in ('_pack_words', '_unpack_words') and expr.args:
        return ('words', cx.ce.try_ev(expr.args[0], fn.mod, cls), 'helper', [])
    return None


def _helpers_only(cx):
    """inline private helpers of the payload classes themselves; the word helpers (decided by R2) and everything outside the
    module (pack_bitstring, make_byte_string, struct) stay opaque"""
    from ..paths import SelfResolver
    return SelfResolver(cx.idx, stop=lambda fn: fn.cls is None or fn.mod.name != 'pymodbus.payload' or fn.name in ('_pack_words', '_unpack_words'))


def builder_summary(cx, cls, name):
    fn = cx.idx.find_method(cls, 'add_' + name)
    if fn is None:
        return None, None
    for p in cx.enum(fn, cls, max_depth=2, resolver=_helpers_only(cx)):
        annotate(p)
        for ev in p.ev:
            if ev.kind == 'call' and callee_name(ev.node) == 'append' and U(ev.node.func.value) == 'self._payload':
                return fn, ev._sub.args[0]
    return fn, None


def decoder_summary(cx, cls, name):
    """(final value of self._pointer in terms of its value on entry, substituted return expression, path)"""
    fn = cx.idx.find_method(cls, 'decode_' + name)
    if fn is None:
        return None, None
    best = None
    for p in cx.enum(fn, cls, max_depth=2, resolver=_helpers_only(cx)):
        st = annotate(p, heap=True)
        final = st.heap.get('self._pointer')
        r = ret_expr(p)
        if final is not None and r is not None:
            best = (final, r, p)
    return fn, best


def _canon(expr):
    """canonical form of the word pipeline: the spellings of a reversed copy -- list(reversed(X)), tuple(reversed(X)),
    reversed(X), X[::-1] -- become REV(X); join over a list comprehension or a generator is the same thing"""
    class T(ast.NodeTransformer):
        def visit_Call(self, n):
            n = self.generic_visit(n)
            nm = callee_name(n)
            if nm in ('list', 'tuple') and len(n.args) == 1 and isinstance(n.args[0], ast.Call) and callee_name(n.args[0]) == 'REV':
                return n.args[0]
            if nm == 'reversed' and isinstance(n.func, ast.Name) and len(n.args) == 1:
                return ast.Call(func=ast.Name(id='REV', ctx=ast.Load()), args=n.args, keywords=[])
            if nm == 'join' and len(n.args) == 1 and isinstance(n.args[0], ast.GeneratorExp):
                n.args[0] = ast.ListComp(elt=n.args[0].elt, generators=n.args[0].generators)
            # 'a{}b'.format(x) -> FMT('a{}b', x)
            if nm == 'format' and isinstance(n.func, ast.Attribute) and isinstance(n.func.value, ast.Constant) and isinstance(n.func.value.value, str) \
                    and not n.keywords and re.sub(r'\{\}', '', n.func.value.value).count('{') == 0:
                return ast.Call(func=ast.Name(id='FMT', ctx=ast.Load()), args=[ast.Constant(n.func.value.value)] + list(n.args), keywords=[])
            return n

        def visit_BinOp(self, n):
            n = self.generic_visit(n)
            # 'a%db' % x  /  'a%d%s' % (x, y) -> FMT('a{}b', x)
            if isinstance(n.op, ast.Mod) and isinstance(n.left, ast.Constant) and isinstance(n.left.value, str):
                t = n.left.value
                if not re.search(r'%[^dis%]', t) and '%%' not in t and '{' not in t:
                    args = list(n.right.elts) if isinstance(n.right, ast.Tuple) else [n.right]
                    return ast.Call(func=ast.Name(id='FMT', ctx=ast.Load()), args=[ast.Constant(re.sub(r'%[dis]', '{}', t))] + args, keywords=[])
            # 'a' + FMT(t, x) -> FMT('a' + t, x)   /   FMT(t, x) + 'b' -> FMT(t + 'b', x);  str(x) in a concatenation is FMT('{}', x)
            if isinstance(n.op, ast.Add):
                def _str(x):
                    return isinstance(x, ast.Call) and isinstance(x.func, ast.Name) and x.func.id == 'str' and len(x.args) == 1 and not x.keywords
                if _str(n.left) and isinstance(n.right, (ast.Constant, ast.Call)):
                    n.left = ast.Call(func=ast.Name(id='FMT', ctx=ast.Load()), args=[ast.Constant('{}'), n.left.args[0]], keywords=[])
                if _str(n.right) and isinstance(n.left, (ast.Constant, ast.Call)):
                    n.right = ast.Call(func=ast.Name(id='FMT', ctx=ast.Load()), args=[ast.Constant('{}'), n.right.args[0]], keywords=[])

                def _fmt(x):
                    return isinstance(x, ast.Call) and isinstance(x.func, ast.Name) and x.func.id == 'FMT' and x.args and isinstance(x.args[0], ast.Constant)
                if isinstance(n.left, ast.Constant) and isinstance(n.left.value, str) and '{' not in n.left.value and _fmt(n.right):
                    return ast.Call(func=ast.Name(id='FMT', ctx=ast.Load()), args=[ast.Constant(n.left.value + n.right.args[0].value)] + list(n.right.args[1:]), keywords=[])
                if isinstance(n.right, ast.Constant) and isinstance(n.right.value, str) and '{' not in n.right.value and _fmt(n.left):
                    return ast.Call(func=ast.Name(id='FMT', ctx=ast.Load()), args=[ast.Constant(n.left.args[0].value + n.right.value)] + list(n.left.args[1:]), keywords=[])
            # '!' + x -> FMT('!{}', x)
            if isinstance(n.op, ast.Add) and isinstance(n.left, ast.Constant) and isinstance(n.left.value, str) and '{' not in n.left.value \
                    and isinstance(n.right, ast.Name):
                return ast.Call(func=ast.Name(id='FMT', ctx=ast.Load()), args=[ast.Constant(n.left.value + '{}'), n.right], keywords=[])
            return n

        def visit_JoinedStr(self, n):
            n = self.generic_visit(n)
            t, args = '', []
            for v in n.values:
                if isinstance(v, ast.Constant):
                    if '{' in str(v.value):
                        return n
                    t += str(v.value)
                elif isinstance(v, ast.FormattedValue) and v.format_spec is None and v.conversion == -1:
                    t += '{}'
                    args.append(v.value)
                else:
                    return n
            return ast.Call(func=ast.Name(id='FMT', ctx=ast.Load()), args=[ast.Constant(t)] + args, keywords=[])

        def visit_Subscript(self, n):
            n = self.generic_visit(n)
            sl = n.slice
            if isinstance(sl, ast.Slice) and sl.lower is None and sl.upper is None and sl.step is not None:
                st = sl.step
                if (isinstance(st, ast.UnaryOp) and isinstance(st.op, ast.USub) and isinstance(st.operand, ast.Constant) and st.operand.value == 1) \
                        or (isinstance(st, ast.Constant) and st.value == -1):
                    return ast.Call(func=ast.Name(id='REV', ctx=ast.Load()), args=[n.value], keywords=[])
            return n
    return ast.fix_missing_locations(T().visit(clone(expr)))


def run(ck, tier):
    cx = Ctx()
    b, d = cx.idx.cls(BUILDER), cx.idx.cls(DECODER)
    nzb = cx.nz(b.mod, b)
    ck.rule('R1', 'pair table: add_X and decode_X use the same struct format character and the same path (direct with byte-order prefix / via the word helpers); the decoder advances by calcsize(format) and reads exactly that slice; WC[f] = calcsize(f)')
    ck.rule('R2', 'the word helpers _pack_words and _unpack_words are the same transformation T (split into network-order 16-bit words, reverse iff wordorder is Little, re-pack each word with the byte order), which is an involution')
    ck.rule('R3', 'register transport: to_registers and fromRegisters use the same 16-bit format; build() pads odd lengths with one zero byte and cuts 2-byte chunks')
    n = 0
    for name, ch, size in PAIRS:
        bf, barg = builder_summary(cx, b, name)
        df, dsum = decoder_summary(cx, d, name)
        ck.ob('R1', BUILDER + '.add_' + name, 'builder method exists and appends to the payload', bf is not None and barg is not None,
              detail='no-append', loc=b.loc)
        ck.ob('R1', DECODER + '.decode_' + name, 'decoder method exists, advances the pointer and returns a value', df is not None and dsum is not None,
              detail='no-decode', loc=d.loc)
        if barg is None or dsum is None:
            continue
        n += 1
        ck.saw('functions', bf.qn)
        ck.saw('functions', df.qn)
        final, ret, path = dsum
        # decoder: pointer advance and slice, both in terms of the pointer P0 on entry
        p0 = Poly.atom('self._pointer')
        try:
            step = nzb.norm(final) - p0
        except (NotInt, TypeError):
            step = None
        want = Poly.atom(df.params[1]) if name == 'string' else Poly.const(size)
        ck.ob('R1', df.qn, 'pointer advances by %s' % (size if size else 'the requested size'), step == want,
              detail='pointer-advance %s' % step, loc=cx.floc(df),
              message='decode_%s advances the read pointer by %s, expected %s' % (name, step, want))
        slices = [x for x in ast.walk(ret) if isinstance(x, ast.Subscript) and U(x.value) == 'self._payload' and isinstance(x.slice, ast.Slice)]
        oksl = False
        if slices:
            sl = slices[0].slice
            try:
                lo, hi = nzb.norm(sl.lower), nzb.norm(sl.upper)
                oksl = lo == p0 and hi == p0 + want and sl.step is None
            except (NotInt, TypeError):
                oksl = False
        ck.ob('R1', df.qn, 'reads exactly the slice [P0 : P0 + n] of the payload (P0 = pointer on entry)', oksl,
              detail='slice %s' % (U(slices[0]) if slices else 'none'), loc=cx.floc(df),
              message='decode_%s reads %s' % (name, U(slices[0]) if slices else None))
        if name == 'bits':
            ck.ob('R1', bf.qn, 'bits go through pack_bitstring', isinstance(barg, ast.Call) and callee_name(barg) == 'pack_bitstring', detail='bits-builder', loc=cx.floc(bf))
            ck.ob('R1', df.qn, 'bits come back through unpack_bitstring', isinstance(ret, ast.Call) and callee_name(ret) == 'unpack_bitstring', detail='bits-decoder', loc=cx.floc(df))
            # on every path the sequence handed to pack_bitstring is the caller's sequence itself: bit k supplied is bit k packed
            # (pack_bitstring fills the last byte AFTER the supplied bits, which is where unpack_bitstring expects the fill)
            par = bf.params[1]
            for bp in cx.enum(bf, b, max_depth=0):
                annotate(bp)
                for ev in bp.ev:
                    if ev.kind == 'call' and callee_name(ev.node) == 'pack_bitstring' and ev._sub.args:
                        a0 = ev._sub.args[0]
                        while isinstance(a0, ast.Call) and callee_name(a0) in ('list', 'tuple') and len(a0.args) == 1:
                            a0 = a0.args[0]
                        ck.ob('R1', bf.qn, 'the bit sequence packed is the sequence supplied, element for element', isinstance(a0, ast.Name) and a0.id == par,
                              detail='bits-sequence-altered', loc=cx.floc(bf, ev.node),
                              message='add_bits hands `%s` to pack_bitstring instead of the supplied sequence: supplied bit k is no longer bit k of the '
                                      'packed bytes, which is where decode_bits / unpack_bitstring look for it' % U(ev._sub.args[0])[:70])
            continue
        if name == 'string':
            fmt = barg.args[0] if isinstance(barg, ast.Call) and callee_name(barg) == 'pack' and barg.args else None
            s_code = fmt is not None and any(isinstance(x, ast.Constant) and isinstance(x.value, str) and x.value.endswith('s') for x in ast.walk(fmt))
            has_len = fmt is not None and any(isinstance(x, ast.Call) and isinstance(x.func, ast.Name) and x.func.id == 'len' for x in ast.walk(fmt))
            ck.ob('R1', bf.qn, "string packed with a '<n>s' format whose n is a len(...)", bool(s_code and has_len),
                  detail='string-builder %s' % U(barg)[:60], loc=cx.floc(bf))
            # n is the length of the very bytes that are packed (struct truncates / pads silently otherwise)
            same = False
            if isinstance(barg, ast.Call) and len(barg.args) == 2:
                packed = U(barg.args[1])
                lens = [U(c.args[0]) for c in ast.walk(barg.args[0]) if isinstance(c, ast.Call) and isinstance(c.func, ast.Name) and c.func.id == 'len' and c.args]
                same = bool(lens) and all(l_ == packed for l_ in lens)
            ck.ob('R1', bf.qn, "the length in the string format is the length of the bytes that are packed", same, detail='string-length-of-other-object',
                  loc=cx.floc(bf), message='add_string builds its format from len(...) of something other than the bytes it packs (%s): a text string with '
                                           'non-ASCII characters is truncated and every later field shifts' % U(barg)[:80])
            ck.ob('R1', df.qn, 'string returned as the raw slice', isinstance(ret, ast.Subscript), detail='string-decoder', loc=cx.floc(df))
            continue
        bs = _fmt_of(cx, barg, bf, b)
        # decoder: unpack(FMT, X)[0] where X is the slice (direct) or _unpack_words(f, slice)
        inner = ret.value if isinstance(ret, ast.Subscript) else ret
        ds = None
        if isinstance(inner, ast.Call) and callee_name(inner) == 'unpack' and len(inner.args) == 2:
            src = inner.args[1]
            fmt = _fmt_of(cx, inner, df, d)
            w = [c for c in ast.walk(src) if isinstance(c, ast.Call) and callee_name(c) == '_unpack_words']
            if w:
                wf = cx.ce.try_ev(w[0].args[0], df.mod, d)
                ds = ('words', wf, fmt)
            else:
                ds = ('direct', fmt[1] if fmt else None, fmt)
        ck.sample({'pair': name, 'builder': U(barg)[:80], 'decoder': U(ret)[:110]})
        ck.ob('R1', bf.qn, 'format character is %r' % ch, bs is not None and bs[1] == ch, detail='builder-format %s' % (bs[1] if bs else None),
              loc=cx.floc(bf), message='add_%s packs with format %r, expected %r' % (name, bs[1] if bs else None, ch))
        ck.ob('R1', df.qn, 'format character is %r' % ch, ds is not None and ds[1] == ch, detail='decoder-format %s' % (ds[1] if ds else None),
              loc=cx.floc(df), message='decode_%s unpacks with format %r, expected %r' % (name, ds[1] if ds else None, ch))
        if bs is None or ds is None:
            continue
        ck.ob('R1', df.qn, 'builder and decoder use the same path (%s)' % bs[0], bs[0] == ds[0], detail='path-mismatch %s/%s' % (bs[0], ds[0]),
              loc=cx.floc(df), message='add_%s goes %s but decode_%s goes %s' % (name, bs[0], name, ds[0]))
        if bs[0] == 'direct':
            ck.ob('R1', bf.qn, 'direct pack uses the configured byte order', bs[2] == 'self._byteorder', detail='builder-endian %s' % bs[2], loc=cx.floc(bf))
            ck.ob('R1', df.qn, 'direct unpack uses the configured byte order', ds[2] is not None and ds[2][2] == 'self._byteorder',
                  detail='decoder-endian %s' % (ds[2][2] if ds[2] else None), loc=cx.floc(df))
        else:
            # after the word helper the image is network order
            ck.ob('R1', df.qn, "words path: final unpack is '!' + format", ds[2] is not None and ds[2][2] == "'!'" and ds[2][1] == ch,
                  detail='decoder-final-unpack %s' % (ds[2],), loc=cx.floc(df))
    ck.floor('R1', n, 13, 'builder/decoder pairs')
    wc = cx.ce.try_ev(ast.Name(id='WC', ctx=ast.Load()), b.mod, None)
    ok = isinstance(wc, dict) and all(struct.calcsize('!' + k) == v for k, v in wc.items()) and set('bhilqfd') <= set(wc)
    ck.ob('R1', 'pymodbus.payload.WC', 'WC[f] = calcsize(f) for every format', ok, detail='WC-table %s' % wc, loc='pymodbus/payload.py')

    # ---- R2
    pk, up = cx.method(b, '_pack_words'), cx.method(d, '_unpack_words')
    ck.saw('functions', pk.qn)
    ck.saw('functions', up.qn)

    def pipeline(fn, cls, image_pred):
        rows = {}
        from ..paths import SelfResolver
        # private helpers of the payload module (methods or module-level functions) are part of the word helper
        res = SelfResolver(cx.idx, stop=lambda f_: f_.mod.name != 'pymodbus.payload' or not f_.name.startswith('_') or f_.name.startswith('__'))
        for p in cx.enum(fn, cls, max_depth=2, resolver=res):
            annotate(p, heap=False)
            r = ret_expr(p)
            if r is None:
                continue
            little = None
            for ev in p.ev:
                if ev.kind == 'cond' and 'wordorder' in U(ev._sub):
                    t = ev._sub
                    if isinstance(t, ast.Compare) and isinstance(t.ops[0], (ast.Eq, ast.NotEq)):
                        rhs = cx.ce.try_ev(t.comparators[0], fn.mod, cls)
                        lit = cx.ce.try_ev(ast.parse('Endian.Little', mode='eval').body, fn.mod, cls)
                        big = cx.ce.try_ev(ast.parse('Endian.Big', mode='eval').body, fn.mod, cls)
                        eq = isinstance(t.ops[0], ast.Eq)
                        if rhs == lit:
                            little = ev.a if eq else (not ev.a)
                        elif rhs == big:
                            little = (not ev.a) if eq else ev.a
            e = _canon(_alpha(r))
            # replace the network-order image expression by a placeholder
            for node in ast.walk(e):
                for field, val in ast.iter_fields(node):
                    if isinstance(val, list):
                        for i, x in enumerate(val):
                            if isinstance(x, ast.AST) and image_pred(x):
                                val[i] = ast.Name(id='IMG', ctx=ast.Load())
                    elif isinstance(val, ast.AST) and image_pred(val):
                        setattr(node, field, ast.Name(id='IMG', ctx=ast.Load()))
            rows[little] = U(e).replace(fn.params[1], 'F')
        return rows
    prow = pipeline(pk, b, lambda x: isinstance(x, ast.Call) and callee_name(x) == 'pack' and len(x.args) == 2 and U(x.args[1]) == pk.params[2])
    urow = pipeline(up, d, lambda x: (isinstance(x, ast.Call) and callee_name(x) == 'make_byte_string' and U(x.args[0]) == up.params[2])
                    or (isinstance(x, ast.Name) and x.id == up.params[2]))
    ck.sample({'rule': 'R2', '_pack_words': prow, '_unpack_words': urow})
    ck.ob('R2', pk.qn, 'both word orders analysed', set(prow) == {True, False} and set(urow) == {True, False},
          detail='wordorder-branches %s/%s' % (sorted(map(str, prow)), sorted(map(str, urow))), loc=cx.floc(pk),
          message='the word helpers do not branch on wordorder == Endian.Little in both classes')
    for lit in (True, False):
        if lit in prow and lit in urow:
            ck.ob('R2', up.qn, 'same transformation as _pack_words for wordorder %s' % ('Little' if lit else 'Big'), prow[lit] == urow[lit],
                  detail='helpers-differ wordorder=%s' % ('Little' if lit else 'Big'), loc=cx.floc(up),
                  message='_pack_words does `%s` but _unpack_words does `%s`' % (prow[lit], urow[lit]))
    for lit, txt in prow.items():
        ck.ob('R2', pk.qn, 'words are reversed iff wordorder is Little', ('REV(' in txt) == bool(lit), detail='reversal wordorder-little=%s' % lit, loc=cx.floc(pk),
              message='_pack_words %s the word list when wordorder little=%s' % ('reverses' if 'REV(' in txt else 'does not reverse', lit))
        ck.ob('R2', pk.qn, "splits the network image into '!{n}H' words with n = WC[f]//2 and re-packs with byteorder + 'H'",
              "unpack(FMT('!{}H', WC" in txt.replace('"', "'") and '// 2' in txt and "pack(self._byteorder + 'H'" in txt,
              detail='pipeline-shape little=%s' % lit, loc=cx.floc(pk), message='_pack_words pipeline is `%s`' % txt)
    # the image handed to T by the builder is the network-order packing of the value
    okimg = any(isinstance(x, ast.Call) and callee_name(x) == 'pack' and len(x.args) == 2 and U(_canon(x.args[0])) == "FMT('!{}', %s)" % pk.params[1]
                for x in ast.walk(pk.node))
    ck.ob('R2', pk.qn, "value is first packed in network order ('!' + format)", okimg, detail='network-image', loc=cx.floc(pk))

    # ---- R3
    tr, fr, bd = cx.method(b, 'to_registers'), cx.method(d, 'fromRegisters'), cx.method(b, 'build')
    for f_ in (tr, fr, bd):
        ck.saw('functions', f_.qn)
    def word_format(fmt_node, fn, cls, per_item):
        """the 16-bit code a pack/unpack format stands for: '!H' written out, or '!<n>H' with n counting the registers"""
        v = cx.ce.try_ev(fmt_node, fn.mod, cls)
        if isinstance(v, str):
            return v
        c = _canon(fmt_node)
        if isinstance(c, ast.Call) and isinstance(c.func, ast.Name) and c.func.id == 'FMT' and c.args and isinstance(c.args[0], ast.Constant) \
                and c.args[0].value in ('!{}H', '>{}H') and len(c.args) == 2 and isinstance(c.args[1], ast.Call) and callee_name(c.args[1]) == 'len' and not per_item:
            return '!H'
        return None
    fmts = set()
    for p in cx.enum(tr, b, max_depth=0):
        annotate(p)
        repack = [ev.a for ev in p.ev if ev.kind == 'cond' and U(ev._sub).replace('not ', '') == 'self._repack']
        neg = [U(ev._sub).startswith('not ') for ev in p.ev if ev.kind == 'cond' and U(ev._sub).replace('not ', '') == 'self._repack']
        if not repack or (repack[0] != neg[0]):
            continue        # only the paths with self._repack false
        r = ret_expr(p)
        calls = [c for c in (ast.walk(r) if r is not None else []) if isinstance(c, ast.Call) and callee_name(c) == 'unpack']
        calls += [ev._sub for ev in p.ev if ev.kind == 'call' and callee_name(ev.node) == 'unpack' and isinstance(getattr(ev, '_sub', None), ast.Call)]
        for c in calls:
            if c.args:
                fmts.add(word_format(c.args[0], tr, b, True))
    ffmts = set()
    for c in ast.walk(fr.node):
        if isinstance(c, ast.Call) and callee_name(c) == 'pack' and c.args:
            starred = any(isinstance(a, ast.Starred) for a in c.args[1:])
            ffmts.add(word_format(c.args[0], fr, d, not starred))
    ck.ob('R3', tr.qn, "to_registers (no repack) and fromRegisters use the same 16-bit format '!H'", fmts == {'!H'} and ffmts == {'!H'},
          detail='register-formats %s/%s' % (sorted(map(str, fmts)), sorted(map(str, ffmts))), loc=cx.floc(tr),
          message='to_registers uses %s, fromRegisters uses %s' % (sorted(map(str, fmts)), sorted(map(str, ffmts))))
    # build(): chunk i is padded[2i : 2i+2] for i = 0 .. ceil(len/2)-1, padded = to_string() + one zero byte when the length is odd.
    # Two spellings of the loop are summarised alike: a comprehension over a range, or a for loop that appends; the slice bounds
    # are normalised as affine functions of the loop variable and the iteration count is folded for the lengths 0..40.
    okb, why_b = False, 'no chunk loop recognised'
    cands = []
    for node in ast.walk(bd.node):
        if isinstance(node, ast.ListComp) and len(node.generators) == 1 and not node.generators[0].ifs:
            cands.append((node.generators[0].target, node.generators[0].iter, node.elt, node))
        elif isinstance(node, ast.For) and not node.orelse:
            for c in ast.walk(node):
                if isinstance(c, ast.Call) and callee_name(c) == 'append' and c.args:
                    cands.append((node.target, node.iter, c.args[0], node))
    for tgt, rng, el, host in cands:
        if not (isinstance(tgt, ast.Name) and isinstance(rng, ast.Call) and callee_name(rng) == 'range' and 1 <= len(rng.args) <= 3):
            continue
        # straight-line locals of build() (before and inside the loop), substituted
        env_ = {}
        from ..sym import substitute
        for st_ in ast.walk(bd.node):
            if isinstance(st_, ast.Assign) and len(st_.targets) == 1 and isinstance(st_.targets[0], ast.Name) and st_.targets[0].id != tgt.id:
                env_[st_.targets[0].id] = substitute(st_.value, dict(env_))
            elif isinstance(st_, ast.AugAssign) and isinstance(st_.target, ast.Name) and isinstance(st_.op, ast.Add) and st_.target.id in env_:
                env_[st_.target.id] = ast.BinOp(left=env_[st_.target.id], op=ast.Add(), right=substitute(st_.value, dict(env_)))
        el_s = substitute(el, env_)
        if not (isinstance(el_s, ast.Subscript) and isinstance(el_s.slice, ast.Slice) and el_s.slice.lower is not None and el_s.slice.upper is not None):
            continue
        args = [substitute(a, env_) for a in rng.args]
        start, stop, step = (ast.Constant(0), args[0], ast.Constant(1)) if len(args) == 1 else ((args[0], args[1], ast.Constant(1)) if len(args) == 2 else args)
        src = U(el_s.value).replace(' ', '')
        pad = src in ("self.to_string()+b'\\x00'*(len(self.to_string())%2)", "self.to_string()+bytes(len(self.to_string())%2)")
        if not pad and src == "self.to_string()+b'\\x00'":
            # the same padding written as a statement:  if len(s) % 2: s = s + b'\x00'   (s += b'\x00')
            for iff in ast.walk(bd.node):
                if isinstance(iff, ast.If) and not iff.orelse and len(iff.body) == 1 and isinstance(iff.body[0], (ast.Assign, ast.AugAssign)):
                    t_ = U(substitute(iff.test, {k_: v_ for k_, v_ in env_.items() if k_ != getattr(el_s.value, 'id', None)})).replace(' ', '')
                    base_ = {k_: v_ for k_, v_ in env_.items()}
                    if t_ in ('len(self.to_string())%2', 'len(self.to_string())%2!=0', 'len(self.to_string())%2==1', 'len(self.to_string())&1'):
                        pad = True
        good = pad
        if not pad:
            why_b = 'the chunks are cut from `%s`, not from to_string() + one zero byte when its length is odd' % U(el_s.value)[:60]
        LEN = 'len(self.to_string())'
        for L in range(0, 41):
            def fold(e, v=None):
                txt = U(e).replace(LEN, str(L))
                e2 = ast.parse(txt, mode='eval').body
                return cx.ce.try_ev(e2, bd.mod, b, env=({tgt.id: v} if v is not None else {}), default=None)
            a0, a1, a2 = fold(start), fold(stop), fold(step)
            if not all(isinstance(x, int) for x in (a0, a1, a2)) or a2 <= 0:
                good, why_b = False, 'loop range not decidable'
                break
            its = list(range(a0, a1, a2))
            want = [(2 * i, 2 * i + 2) for i in range((L + 1) // 2)]
            got = [(fold(el_s.slice.lower, v), fold(el_s.slice.upper, v)) for v in its]
            if got != want:
                good, why_b = False, 'for a %d-byte payload the chunks are %s, expected %s' % (L, got[:4], want[:4])
                break
        if good:
            okb = True
            break
    ck.ob('R3', bd.qn, 'build() pads odd lengths with one zero byte and cuts 2-byte chunks from offset 0', okb, detail='build-shape', loc=cx.floc(bd),
          message='BinaryPayloadBuilder.build: %s' % why_b)
    # the image is a function of what has been added, nothing else: to_string() joins the current payload on every path
    # and reset() empties it (a cached or stale image survives a reset / refill of the same builder)
    ts = cx.method(b, 'to_string')
    ck.saw('functions', ts.qn)
    nret = 0
    for p in cx.enum(ts, b, max_depth=1):
        if p.exit and p.exit[0] == 'exc':
            continue
        annotate(p, heap=True)
        r = ret_expr(p)
        nret += 1
        txt = U(r).replace(' ', '') if r is not None else None
        okj = txt in ("b''.join(self._payload)", "bytes().join(self._payload)", "b''.join(list(self._payload))",
                      "b''.join([xforxinself._payload])", "b''.join(xforxinself._payload)")
        ck.ob('R3', ts.qn, 'to_string() returns the join of the current payload on every path', okj, detail='to-string-not-join %s' % (txt or '')[:50],
              loc=cx.floc(ts), message='BinaryPayloadBuilder.to_string can return `%s` instead of the join of the chunks added so far: '
                                       'a builder that is reset and refilled hands out a stale image' % (U(r) if r is not None else None))
    ck.floor('R3', nret, 1, 'to_string return paths')
    rs = cx.method(b, 'reset')
    okr = False
    for p in cx.enum(rs, b, max_depth=1):
        st = annotate(p, heap=True)
        v = st.heap.get('self._payload')
        okr = v is not None and U(v) in ('[]', 'list()')
    ck.ob('R3', rs.qn, 'reset() empties the payload', okr, detail='reset-keeps-payload', loc=cx.floc(rs))
    # the adders accept every value of their type: a raising path whose conditions hold for a value inside the type's range loses that value
    ck.rule('R4', 'no add_* method refuses a value that its struct type can hold (range checks, if any, are exact)')
    import struct as _struct
    RANGES = {'8bit_uint': (0, 2**8 - 1), '16bit_uint': (0, 2**16 - 1), '32bit_uint': (0, 2**32 - 1), '64bit_uint': (0, 2**64 - 1),
              '8bit_int': (-2**7, 2**7 - 1), '16bit_int': (-2**15, 2**15 - 1), '32bit_int': (-2**31, 2**31 - 1), '64bit_int': (-2**63, 2**63 - 1)}
    n4 = 0
    for name, (lo, hi) in RANGES.items():
        fn = cx.idx.find_method(b, 'add_' + name)
        if fn is None:
            continue
        val = fn.params[1]
        for p in cx.enum(fn, b, max_depth=2):
            n4 += 1
            if not (p.exit and p.exit[0] == 'exc' and any(e.kind == 'raise' and isinstance(e.node, ast.Raise) for e in p.ev)):
                continue
            annotate(p, heap=False)
            conds = [(e._sub, e.a) for e in p.ev if e.kind == 'cond']
            for v in (lo, lo + 1, -1 if lo < 0 else 0, 0, hi - 1, hi):
                holds = True
                for c_, pol in conds:
                    r_ = cx.ce.try_ev(c_, fn.mod, b, env={val: v}, default='?')
                    if r_ == '?' or bool(r_) != pol:
                        holds = False
                        break
                if holds and conds:
                    ck.ob('R4', fn.qn, 'value %d of the type range is accepted' % v, False, detail='in-range-value-refused %d' % v, loc=cx.floc(fn),
                          message='add_%s raises for %d, which its struct type holds (conditions %s): that value cannot be packed any more' % (name, v, [U(c_)[:40] for c_, _ in conds]))
                    break
    ck.floor('R4', n4, 8, 'paths of the integer adders')
    # ... and what is packed is the value that was given: the numeric adders hand their argument itself to pack / _pack_words
    ck.rule('R8', 'the numeric add_* methods pack the value they are given: the argument reaches struct.pack / _pack_words unchanged (no clamping, rounding or substitution)')
    n8 = 0
    for name in list(RANGES) + ['16bit_float', '32bit_float', '64bit_float']:
        fn = cx.idx.find_method(b, 'add_' + name)
        if fn is None:
            continue
        val = fn.params[1]
        from ..paths import SelfResolver as _SR8
        res8 = _SR8(cx.idx, stop=lambda f_: f_.cls is None or not f_.name.startswith('_') or f_.name.startswith('__') or f_.name in ('_pack_words', '_unpack_words'))
        for p in cx.enum(fn, b, max_depth=2, resolver=res8):      # a private 'pack and append' helper is part of the adder; the word helpers are decided by R2
            if p.exit and p.exit[0] == 'exc':
                continue
            annotate(p, heap=False)
            for e in p.ev:
                t = getattr(e, '_sub', None)
                if e.kind == 'call' and isinstance(t, ast.Call) and callee_name(t) in ('pack', '_pack_words') and len(t.args) >= 2:
                    n8 += 1
                    ck.ob('R8', fn.qn, 'packs the argument itself', U(t.args[1]) == val, detail='packed-value-not-the-argument', loc=cx.floc(fn, e.node),
                          message='add_%s packs `%s` instead of the value it was given: the decoder cannot give back what the caller added' % (name, U(t.args[1])[:60]))
    ck.floor('R8', n8, 8, 'pack calls of the numeric adders')
    # text handed to add_string() goes through make_byte_string(): its encoding is the one decode_string() callers undo with .decode()
    ck.rule('R9', 'make_byte_string() encodes text with the default (UTF-8) codec, the one bytes.decode() undoes')
    mb = cx.idx.mod('pymodbus.utilities').funcs.get('make_byte_string')
    n9 = 0
    if mb is not None:
        ck.saw('functions', mb.qn)
        for c_ in ast.walk(mb.node):
            if isinstance(c_, ast.Call) and isinstance(c_.func, ast.Attribute) and c_.func.attr == 'encode':
                n9 += 1
                codec = c_.args[0] if c_.args else next((k.value for k in c_.keywords if k.arg == 'encoding'), None)
                cv = cx.ce.try_ev(codec, mb.mod, None, default='?') if codec is not None else 'utf-8'
                ck.ob('R9', mb.qn, 'text is encoded as UTF-8', isinstance(cv, str) and cv.lower().replace('_', '-') in ('utf-8', 'utf8'), detail='text-codec %s' % cv, loc=cx.floc(mb, c_),
                      message='make_byte_string encodes text with %r: a string field added with add_string() has another length and other bytes than the UTF-8 text the decoder side '
                              'expects, and every field behind it is read from a shifted offset' % cv)
    ck.floor('R9', n9, 1, 'encode calls of make_byte_string')
    ck.assume('value-level round trips (signs, NaN, subnormals) rest on struct, which is trusted')
    from .. import ownership as _own
    ck.guard(_own.rule_instance_owned, ck, cx, 'R5', _own.PAYLOAD, 'values added to one builder appear in the payload of another', 1)
    from .. import ownership as _own2
    ck.rule('R6', 'no unsound memoisation (a caching decorator on a method, or on a function that returns a mutable container) in the modules this property rests on')
    ck.guard(_own2.rule_no_unsafe_memo, ck, cx, 'R6', ('pymodbus.payload',), 'the image built or decoded is the one cached for other values')
    from .c02 import r6_bit_helpers_fresh
    ck.guard(r6_bit_helpers_fresh, ck, cx, 'R7')
    return cx.idx
