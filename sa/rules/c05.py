"""C05 — invalid requests get the right exception and change nothing."""
import ast

from ..common import Ctx, U, cstr, Poly, NotInt, AnalysisError, constraints, annotate, ret_expr, callee_name
from ..execmodel import DATA_ACCESS, exec_paths, init_facts, decode_list_spans
from ..frontends import FRONTENDS, frontend_exec_paths
from spec.tables import LIMITS, BYTECOUNT, EXC, COIL_ON, COIL_OFF, EXCEPTION_FLAG

TITLE = 'invalid requests get the right exception and change nothing'

# Binding of the spec's roles to the public attributes of the request classes (verified
# against decode() by C01/C02: the attribute is the wire field at the spec offset).
ROLES = {
    1: {'quantity': 'self.count'}, 2: {'quantity': 'self.count'},
    3: {'quantity': 'self.count'}, 4: {'quantity': 'self.count'},
    15: {'quantity': 'len(self.values)', 'byte_count': 'self.byte_count'},
    16: {'quantity': 'self.count', 'byte_count': 'self.byte_count'},
    23: {'read_quantity': 'self.read_count', 'write_quantity': 'self.write_count',
         'byte_count': 'self.write_byte_count', 'quantity': 'self.write_count'},
}


def P(nz, s):
    return nz.norm(ast.parse(s, mode='eval').body)


def expected_constraints(nz, fc):
    """the constraints that every accepted request satisfies per the spec"""
    exp = {}
    for role, lo, hi in LIMITS.get(fc, []):
        sym = ROLES[fc][role]
        exp['%s >= %d' % (role, lo)] = cstr(('ge', P(nz, '%s - %d' % (sym, lo))))
        exp['%s <= %d' % (role, hi)] = cstr(('ge', P(nz, '%d - %s' % (hi, sym))))
    if fc in BYTECOUNT:
        q, b = ROLES[fc]['quantity'], ROLES[fc]['byte_count']
        rel = '(%s + 7) // 8' % q if BYTECOUNT[fc] == 'ceil8' else '2 * %s' % q
        from ..sym import _sign_canon
        exp['byte_count == %s(quantity)' % BYTECOUNT[fc]] = cstr(('eq', _sign_canon(P(nz, '%s - (%s)' % (b, rel)))))
    return exp


def single_symbol_bounds(cons):
    """{symbol: [lo, hi]} from constraints of the shape  +-sym + c >= 0"""
    out = {}
    for c in cons:
        if c[0] != 'ge':
            continue
        p = c[1]
        atoms = [k for k in p.t if k != ()]
        if len(atoms) != 1 or len(atoms[0]) != 1 or abs(p.t[atoms[0]]) != 1:
            continue
        sym, co, k = atoms[0][0], p.t[atoms[0]], p.t.get((), 0)
        b = out.setdefault(sym, [None, None])
        if co == 1:      # sym + k >= 0  -> sym >= -k
            b[0] = -k if b[0] is None else max(b[0], -k)
        else:            # -sym + k >= 0 -> sym <= k
            b[1] = k if b[1] is None else min(b[1], k)
    return out


def eq_substitution(cons):
    """from equalities with a unit-coefficient atom: {atom: Poly}"""
    m = {}
    for c in cons:
        if c[0] != 'eq':
            continue
        p = c[1]
        for k, v in p.t.items():
            if len(k) == 1 and abs(v) == 1 and k[0] not in m:
                rest = Poly({kk: vv for kk, vv in p.t.items() if kk != k})
                if k[0] in rest.atoms():
                    continue
                m[k[0]] = (-rest) if v == 1 else rest
                break
    return m


def len_matches(cx, cls, nz, count_poly, values_expr, cons, facts, spans):
    """is `count_poly` provably the number of values in `values_expr`?  -> (ok, why)"""
    v = values_expr
    if isinstance(v, ast.List):
        return count_poly == Poly.const(len(v.elts)), 'list literal of %d' % len(v.elts)
    canon = nz.canon(v)
    if count_poly == Poly.atom('len(%s)' % canon):
        return True, 'count is len(values) itself'
    if isinstance(v, ast.Attribute) and U(v.value) == 'self':
        attr = v.attr
        # constructor: count attribute bound to len(list)
        sub = {}
        for k, val in facts.items():
            if isinstance(val, Poly):
                sub[k] = val
        init_ok = False
        cur = count_poly
        for _ in range(4):
            nxt = cur.subst({a: sub[a] for a in cur.atoms() if a in sub})
            if nxt == cur:
                break
            cur = nxt
        init_ok = cur == Poly.atom('len(self.%s)' % attr)
        # decode: list built by a counted loop
        dec_ok = False
        why = ''
        if attr in spans:
            span, step = spans[attr]
            eqs = eq_substitution(cons)
            s2 = span.subst({a: eqs[a] for a in span.atoms() if a in eqs})
            if s2.divisible(step):
                dec_ok = s2.div_exact(step) == count_poly
            if not dec_ok:
                c2 = count_poly.subst({a: eqs[a] for a in count_poly.atoms() if a in eqs})
                dec_ok = s2.divisible(step) and s2.div_exact(step) == c2
            why = 'decode builds %d-stride loop over span %s' % (step, s2)
        return init_ok and dec_ok, 'init:%s decode:%s %s' % (init_ok, dec_ok, why)
    return False, 'unrecognised values expression %s' % canon


def r1_r2_r3(ck, cx):
    ck.rule('R1', 'accepted requests satisfy exactly the spec quantity intervals / byte-count relations; guard failures answer 03, validate failures 02, all with the request function code')
    ck.rule('R2', 'every setValues is dominated by all guards and by validate(fc, same address, len(values)) = True (FC23: both ranges)')
    ck.rule('R3', 'no path mutates the datastore and then returns an exception response')
    ck.tables.append('spec.tables.LIMITS / BYTECOUNT / EXC ([APP] §6.1-6.6, §6.11, §6.12, §6.16, §6.17, §7)')
    n = 0
    for fc, qn in sorted(DATA_ACCESS.items()):
        cls = cx.idx.cls(qn)
        f, eps = exec_paths(cx, cls)
        ck.saw('functions', f.qn)
        ck.saw('classes', cls.qn)
        nz = cx.nz(f.mod, cls)
        fcv = cx.ce.try_ev(ast.parse('function_code', mode='eval').body, cls.mod, cls)
        ck.ob('R1', cls.qn, 'function_code constant = %d' % fc, fcv == fc, detail='function_code %r' % fcv, loc=cls.loc)
        exp = expected_constraints(nz, fc)
        facts = init_facts(cx, cls)
        spans = decode_list_spans(cx, cls)
        role_syms = set(str(P(nz, s)) for s in ROLES.get(fc, {}).values())
        accepting = [ep for ep in eps if ep.ret[0] == 'response']
        ck.ob('R1', cls.qn, 'execute has a normal-response path', bool(accepting), detail='no-response-path', loc=cx.floc(f))
        for ep in accepting:
            n += 1
            got = set(cstr(c) for c in ep.all_cons())
            ck.sample({'rule': 'R1', 'fc': fc, 'class': cls.name, 'accepting-path-constraints': sorted(got),
                       'datastore-ops': [repr(o) for o in ep.ops]})
            for what, c in sorted(exp.items()):
                ck.ob('R1', cls.qn, 'accepted => %s' % what, c in got, detail='missing-guard ' + what, loc=cx.floc(f),
                      message='FC%d execute() can answer normally without requiring %s' % (fc, what))
            # a normal answer is given only for a range that exists: the path passed validate() = True (FC23: for both ranges)
            okv = [o for o in ep.ops if o.kind == 'validate' and o.polarity is True]
            ck.ob('R1', cls.qn, 'accepted => the addressed range passed validate()', len(set(nz.canon(o.call.args[1]) for o in okv if len(o.call.args) >= 2)) >= (2 if fc == 23 else 1),
                  detail='response-without-validate', loc=cx.floc(f),
                  message='FC%d execute() can answer normally on a path that never passed context.validate() for the addressed range: a request for cells that do not '
                          'exist gets a normal response instead of exception 02 (path conditions: %s)' % (fc, '; '.join(sorted(got))[:200]))
            # no narrower interval on a spec quantity, no non-vacuous interval on anything else
            bounds = single_symbol_bounds(ep.all_cons())
            for sym, (lo, hi) in sorted(bounds.items()):
                if sym in role_syms:
                    want = [(r, a, b) for r, a, b in LIMITS.get(fc, []) if str(P(nz, ROLES[fc][r])) == sym]
                    for r, a, b in want:
                        ck.ob('R1', cls.qn, '%s interval is exactly %d..%d' % (r, a, b), (lo, hi) == (a, b),
                              detail='interval %s %s..%s' % (r, lo, hi), loc=cx.floc(f),
                              message='FC%d accepts %s in %s..%s, spec says %d..%d' % (fc, r, lo, hi, a, b))
                else:
                    vac = (lo is None or lo <= 0) and (hi is None or hi >= 0xffff)
                    ck.ob('R1', cls.qn, 'no restriction of spec-valid field values (%s)' % sym, vac,
                          detail='extra-interval %s %s..%s' % (sym, lo, hi), loc=cx.floc(f),
                          message='FC%d rejects spec-valid values: requires %s in %s..%s' % (fc, sym, lo, hi))
        # exception paths
        for ep in eps:
            if ep.ret[0] == 'exception':
                code, fcx = ep.ret[1], ep.ret[2]
                last_val = [o for o in ep.ops if o.kind == 'validate' and o.polarity is False]
                want = EXC['IllegalAddress'] if last_val else EXC['IllegalValue']
                cause = 'address-range' if last_val else 'value-guard'
                ck.ob('R1', cls.qn, '%s failure answers exception %02d' % (cause, want), code == want,
                      detail='exception-code %s -> %r' % (cause, code), loc=cx.floc(f),
                      message='FC%d answers a failed %s check with exception code %r, spec says %d' % (fc, cause, code, want))
                ck.ob('R1', cls.qn, 'exception carries the request function code', fcx is not None and U(fcx) == 'self.function_code',
                      detail='exception-fc ' + (U(fcx) if fcx is not None else 'none'), loc=cx.floc(f))
                sets = [o for o in ep.ops if o.kind == 'set']
                ck.ob('R3', cls.qn, 'exception path performs no setValues', not sets,
                      detail='mutate-then-exception ' + '; '.join(repr(o) for o in sets), loc=cx.floc(f),
                      message='FC%d writes the datastore and then answers with an exception' % fc)
            elif ep.ret[0] == 'other':
                ck.ob('R1', cls.qn, 'every exit of execute is a response or an exception response', False,
                      detail='unclassified-return ' + (U(ep.ret[1])[:60] if ep.ret[1] is not None else 'None'), loc=cx.floc(f))
        # R2
        for ep in eps:
            for o in [o for o in ep.ops if o.kind == 'set']:
                if len(o.call.args) < 3:
                    ck.ob('R2', cls.qn, 'setValues(fc, address, values)', False, detail='set-arity', loc=cx.floc(f, o.ev.node))
                    continue
                sfc, saddr, svals = o.call.args[:3]
                before_cons = ep.cons_before(o.index)
                got = set(cstr(c) for c in before_cons)
                for what, c in sorted(exp.items()):
                    ck.ob('R2', cls.qn, 'write dominated by guard %s' % what, c in got,
                          detail='write-before-guard ' + what, loc=cx.floc(f, o.ev.node),
                          message='FC%d can write the datastore before checking %s' % (fc, what))
                vals = [v for v in ep.ops if v.kind == 'validate' and v.index < o.index and v.polarity is True]
                match = None
                for v in vals:
                    if len(v.call.args) >= 3 and U(v.call.args[0]) == U(sfc) and nz.canon(v.call.args[1]) == nz.canon(saddr):
                        try:
                            cnt = nz.norm(v.call.args[2])
                        except NotInt:
                            continue
                        ok, why = len_matches(cx, cls, nz, cnt, svals, before_cons, facts, spans)
                        match = (ok, why, v)
                        if ok:
                            break
                ck.ob('R2', cls.qn, 'write preceded by validate(fc, same address) = True', match is not None,
                      detail='write-without-validate %s' % U(saddr), loc=cx.floc(f, o.ev.node),
                      message='FC%d setValues(%s) is not dominated by a successful validate of the same address' % (fc, U(saddr)))
                if match is not None:
                    ck.ob('R2', cls.qn, 'validated count = number of values written', match[0],
                          detail='validated-count-mismatch %s vs %s' % (U(match[2].call.args[2]), U(svals)[:40]),
                          loc=cx.floc(f, o.ev.node),
                          message='FC%d validates %s cells but writes %s (%s)' % (fc, U(match[2].call.args[2]), U(svals)[:40], match[1]))
                    ck.sample({'rule': 'R2', 'fc': fc, 'validate': repr(match[2]), 'set': repr(o), 'why': match[1]})
                ck.ob('R2', cls.qn, 'table selected by the request function code', U(sfc) == 'self.function_code' or cx.ce.try_ev(sfc, f.mod, cls) == fc,
                      detail='set-fc ' + U(sfc), loc=cx.floc(f, o.ev.node))
                if fc == 23:
                    reads = [g for g in ep.ops if g.kind == 'get']
                    rv = [v for v in vals if any(nz.canon(v.call.args[1]) == nz.canon(g.call.args[1]) and
                                                 nz.canon(v.call.args[2]) == nz.canon(g.call.args[2]) for g in reads)]
                    ck.ob('R2', cls.qn, 'FC23 write also dominated by validate of the read range', bool(rv),
                          detail='fc23-write-before-read-validate', loc=cx.floc(f, o.ev.node),
                          message='FC23 writes before the read range has been validated')
        # every read is validated too (address exception instead of a datastore error)
        for ep in eps:
            for g in [o for o in ep.ops if o.kind == 'get']:
                vals = [v for v in ep.ops if v.kind == 'validate' and v.index < g.index and v.polarity is True and
                        len(v.call.args) >= 3 and len(g.call.args) >= 3 and
                        nz.canon(v.call.args[1]) == nz.canon(g.call.args[1]) and
                        nz.canon(v.call.args[2]) == nz.canon(g.call.args[2]) and U(v.call.args[0]) == U(g.call.args[0])]
                ck.ob('R2', cls.qn, 'read preceded by validate(fc, same address, same count) = True', bool(vals),
                      detail='read-without-validate %s' % repr(g), loc=cx.floc(f, g.ev.node),
                      message='FC%d reads %s without validating that range' % (fc, repr(g)))
    ck.floor('R1', n, 10, 'accepting execute paths of the ten data-access requests')


def r1_coil_value(ck, cx):
    """FC5: value word must be 0x0000 or 0xFF00, else exception 03 (needs the raw word)"""
    cls = cx.idx.cls(DATA_ACCESS[5])
    f, eps = exec_paths(cx, cls)
    nz = cx.nz(f.mod, cls)
    dec = cx.method(cls, 'decode')
    # R6: which attribute(s) hold the raw 16-bit value word after decode?
    raw_attrs = set()
    collapsed = None
    for p in cx.enum(dec, cls, max_depth=0):
        st = annotate(p, heap=False)
        for key, val in st.heap.items():
            t = U(val)
            # value word is the second item of the '>HH' unpack
            if isinstance(val, ast.Subscript) and isinstance(val.value, ast.Call) and callee_name(val.value) == 'unpack' \
                    and isinstance(val.slice, ast.Constant) and val.slice.value == 1:
                raw_attrs.add(key)
            elif 'unpack' in t and key != 'self.address' and not isinstance(val, ast.Subscript):
                collapsed = (key, t)
            elif isinstance(val, ast.Compare) and 'unpack' in t:
                collapsed = (key, t)
    ck.saw('functions', dec.qn)
    ok6 = bool(raw_attrs)
    ck.ob('R6', cls.qn + '.decode', 'the coil value word reaches execute un-collapsed (needed to reject values other than 0x0000/0xFF00)',
          ok6, detail='value-word-collapsed-to-bool', loc=cx.floc(dec),
          message='decode() reduces the value word to a boolean (%s): an illegal value such as 0x1234 cannot be rejected' %
                  (collapsed[1][:60] if collapsed else 'no attribute keeps the word'))
    found = False
    for ep in eps:
        if ep.ret[0] != 'response':
            continue
        for c in ep.all_cons():
            if c[0] == 'atom' and c[2] and ' in ' in c[1]:
                sym, _, rhs = c[1].partition(' in ')
                try:
                    vals = cx.ce.ev(ast.parse(rhs, mode='eval').body, f.mod, cls)
                except Exception:
                    continue
                if sym in raw_attrs and set(vals) == {COIL_ON, COIL_OFF}:
                    found = True
    ck.ob('R1', cls.qn, 'accepted => value word in {0x0000, 0xFF00}', found, detail='missing-guard coil value in {0x0000,0xFF00}',
          loc=cx.floc(f), message='FC5 execute() accepts any value word; spec §6.5 requires exception 03 unless 0x0000/0xFF00')


def r6_fc15_quantity(ck, cx):
    """FC15: the wire quantity must survive decode so that byte count vs quantity can be checked"""
    cls = cx.idx.cls(DATA_ACCESS[15])
    dec = cx.method(cls, 'decode')
    ck.saw('functions', dec.qn)
    kept = False
    for p in cx.enum(dec, cls, max_depth=0):
        st = annotate(p, heap=False)
        for key, val in st.heap.items():
            if isinstance(val, ast.Subscript) and isinstance(val.value, ast.Call) and callee_name(val.value) == 'unpack' \
                    and isinstance(val.slice, ast.Constant) and val.slice.value == 1:
                kept = key
    f, eps = exec_paths(cx, cls)
    used = False
    if kept:
        for ep in eps:
            if ep.ret[0] == 'response' and any(kept in cstr(c) for c in ep.all_cons()):
                used = True
    ck.ob('R6', cls.qn + '.decode', 'the wire quantity field is kept and compared with the byte count', bool(kept) and used,
          detail='quantity-field-dropped', loc=cx.floc(dec),
          message='decode() uses the quantity only to truncate the bit list; quantity=2000 with byte count 1 is accepted as a write of 8 coils')


def r4_illegal_function(ck, cx):
    ck.rule('R4', 'unknown function code -> IllegalFunctionRequest(code) -> ExceptionResponse(code, 1); ExceptionResponse.function_code = code | 0x80')
    dec = cx.idx.cls('pymodbus.factory.ServerDecoder')
    h = cx.method(dec, '_helper')
    ck.saw('functions', h.qn)
    ok = False
    for p in cx.enum(h, dec, max_depth=0):
        st = annotate(p)
        for ev in p.ev:
            if ev.kind == 'assign' and isinstance(ev._sub, ast.Call) and callee_name(ev._sub) == 'IllegalFunctionRequest':
                arg = ev._sub.args[0] if ev._sub.args else None
                # argument is byte 0 of the PDU
                if arg is not None and U(arg) in ('byte2int(%s[0])' % h.params[1], '%s[0]' % h.params[1]):
                    # reached only when the lookup produced nothing
                    ok = True
    ck.ob('R4', h.qn, 'unknown code yields IllegalFunctionRequest(first PDU byte)', ok, detail='no-illegal-function-fallback', loc=cx.floc(h))
    ifr = cx.idx.cls('pymodbus.pdu.IllegalFunctionRequest')
    f, eps = exec_paths(cx, ifr)
    for ep in eps:
        ck.ob('R4', ifr.qn, 'execute returns ExceptionResponse(self.function_code, 1)',
              ep.ret[0] == 'exception' and ep.ret[1] == EXC['IllegalFunction'] and U(ep.ret[2]) == 'self.function_code',
              detail='illegal-function-response %r' % (ep.ret[1] if ep.ret[0] == 'exception' else ep.ret[0],), loc=cx.floc(f))
    er = cx.idx.cls('pymodbus.pdu.ExceptionResponse')
    init = cx.method(er, '__init__')
    okf = False
    for p in cx.enum(init, er, max_depth=0):
        st = annotate(p, heap=False)
        v = st.heap.get('self.function_code')
        if isinstance(v, ast.BinOp) and isinstance(v.op, (ast.BitOr, ast.Add)):
            sides = [v.left, v.right]
            consts = [cx.ce.try_ev(s, er.mod, er, env={}) for s in sides]
            consts = [c if c is not None else cx.ce.try_ev(ast.Name(id=U(s).replace('self.', ''), ctx=ast.Load()), er.mod, er)
                      if U(s).startswith('self.') else c for c, s in zip(consts, sides)]
            names = [U(s) for s in sides]
            okf = EXCEPTION_FLAG in consts and init.params[1] in names
    ck.ob('R4', er.qn, 'function_code = original code | 0x80', okf, detail='exception-offset', loc=cx.floc(init))
    me = cx.idx.cls('pymodbus.pdu.ModbusExceptions')
    for name, val in sorted(EXC.items()):
        got = cx.ce.try_ev(ast.parse(name, mode='eval').body, me.mod, me)
        ck.ob('R4', me.qn, '%s = %d' % (name, val), got == val, detail='exception-constant %s=%r' % (name, got), loc=me.loc)
    de = cx.method(cx.idx.cls('pymodbus.pdu.ModbusRequest'), 'doException')
    okd = False
    for p in cx.enum(de, de.cls, max_depth=2):      # a private builder method called by doException is part of it
        annotate(p)
        r = ret_expr(p)
        okd = isinstance(r, ast.Call) and callee_name(r) == 'ExceptionResponse' and len(r.args) == 2 and \
            U(r.args[0]) == 'self.function_code' and U(r.args[1]) == de.params[1]
    ck.ob('R4', de.qn, 'doException(code) = ExceptionResponse(self.function_code, code)', okd, detail='doException-shape', loc=cx.floc(de))


def r5_slave_failure(ck, cx):
    ck.rule('R5', 'in every front-end an exception from request.execute is answered with SlaveFailure (04), a missing unit with GatewayNoResponse (0B)')
    n = 0
    for fe in FRONTENDS:
        cls, f, sendf, fps = frontend_exec_paths(cx, fe)
        ck.saw('functions', f.qn)
        anyexc = [fp for fp in fps if fp.raise_site == 'execute' and fp.handler is not None
                  and not (fp.flags.get('broadcast_enable') and fp.flags.get('unit0'))]
        ck.ob('R5', f.qn, 'an exception raised by request.execute is caught', bool(anyexc) and
              not any(fp.raise_site == 'execute' and fp.exit and fp.exit[0] == 'exc' for fp in fps),
              detail='datastore-exception-escapes', loc=cx.floc(f),
              message='%s: an exception from request.execute() escapes execute()' % fe[0])
        for fp in anyexc:
            n += 1
            ck.ob('R5', f.qn, 'datastore failure (%s) answered with exception 04' % fp.raised, fp.response_kind == ('exception', EXC['SlaveFailure']),
                  detail='slave-failure-code %s %r' % (fp.raised if fp.raised != 'AnyException' else '', fp.response_kind), loc=cx.floc(f),
                  message='%s answers a datastore failure (%s raised by request.execute) with %r' % (fe[0], fp.raised, fp.response_kind))
    ck.floor('R5', n, 7, 'datastore-failure paths over the 7 front-ends')


def r7_block_validate(ck, cx):
    """the range guard of R2 is only as good as the block predicate behind context.validate(): it must accept
    exactly the ranges every cell of which exists (shared with C18 R1 / R3; only the validate constructs)"""
    ck.rule('R7', 'block validate() accepts a range iff every addressed cell exists (shared with C18 R1/R3)')
    from .c18 import r1_sequential_validate, r3_sparse, r4_context_offset, r7_reset_keeps_extent
    sub = type(ck)(ck.pid, ck.tier)
    for r in (r1_sequential_validate, r3_sparse, r4_context_offset, r7_reset_keeps_extent):
        sub.guard(r, sub, cx)
    n = 0
    for o in sub.obligations:
        if str(o[1]).endswith(('.validate', '.reset')):
            ck.obligations.append(('R7',) + tuple(o[1:]))
            n += 1
    for f in sub.findings:
        # ... and the window validate() tests is the configured one for the life of the block: reset() does not move it
        if f.construct.endswith('.validate') or (f.construct.endswith('.reset') and f.detail.startswith('reset-moves-block')):
            ck.finding('R7', f.construct, f.detail, f.loc, f.message + ' — a request for cells that do not exist passes the range guard instead of getting exception 02')
    for b in getattr(sub, 'broken', []):
        ck.broken.append(b)
    ck.floor('R7', n, 3, 'validate obligations')


def run(ck, tier):
    cx = Ctx()
    ck.guard(r1_r2_r3, ck, cx)
    ck.guard(r1_coil_value, ck, cx)
    ck.guard(r6_fc15_quantity, ck, cx)
    ck.guard(r4_illegal_function, ck, cx)
    ck.guard(r5_slave_failure, ck, cx)
    ck.guard(r7_block_validate, ck, cx)
    ck.rule('R8', 'the quantities the guards compare are the wire fields: decode() of the write requests reads the spec layout (shared with C01 R3)')
    from .c01 import shared_layout_findings
    n8 = ck.guard(shared_layout_findings, ck, cx, 'R8', ('WriteMultipleCoilsRequest', 'WriteMultipleRegistersRequest', 'ReadWriteMultipleRegistersRequest',
                                                         'WriteSingleCoilRequest', 'WriteSingleRegisterRequest', 'MaskWriteRegisterRequest'),
                  'the byte-count / quantity guards of execute() then judge values that are not the ones on the wire', ('R3',))
    ck.floor('R8', n8 or 0, 6, 'decode layout obligations of the write requests')
    ck.assume('address arithmetic of getValues/setValues inside the data blocks is decided by C18, not here')
    ck.assume('partial writes of a custom datastore that raises inside setValues are not decided')
    ck.assume('attribute <-> wire-field binding of the guarded quantities is decided by C01/C02')
    from .. import ownership as _own
    ck.guard(_own.rule_instance_owned, ck, cx, 'R9', _own.DECODERS[:1], "a function code registered on another server's decoder is executed here instead of being answered with exception 01", 2)
    from .c10 import r12_do_exception_contract
    ck.guard(r12_do_exception_contract, ck, cx, 'R11')
    from ..share import import_findings as _imp3
    ck.rule('R13', 'exception 01 is answered in the name of the function code that was received: IllegalFunctionRequest is built from the first PDU byte (shared with C01 R4)')
    _imp3(ck, 'C01', 'R13', ('R4',), 'the exception response carries another function code than the request', detail_prefixes=('illegal-function-code-source',))
    ck.rule('R12', 'the RTU frame length oracle sizes every request the spec allows a client to send, up to the 256-byte ADU limit (shared with C03 R3)')
    _imp3(ck, 'C03', 'R12', ('R3',), 'an over-long or boundary-size request is cut wrongly, fails its CRC and gets no answer instead of the exception response', detail_prefixes=('rtuFrameSize-shape', 'size-from-buffered-length', 'custom-size-override', 'fifo-size', 'mei-size-shape', 'base-size-shape'))
    ck.rule('R15', 'a request with an unassigned function code is sized as the shortest frame by the RTU oracle and reaches the decoder (which answers exception 01): every class lookupPduClass can return knows its frame size (shared with C03 R3)')
    _imp3(ck, 'C03', 'R15', ('R3',), 'on RTU framing a request with an unknown function code is dropped in the framer instead of being answered with exception 01', detail_prefixes=('lookup-returns-unsized-class', 'lookup-default-not-exception', 'lookup-key-transformed', 'lookup-result-not-recognised'))
    from .. import options as _opt
    ck.guard(_opt.rule_options_read_at_construction, ck, cx, 'R14', ('pymodbus.datastore.context', 'pymodbus.datastore.store'), ('ZeroMode',), 'contexts address their blocks one off from the configured mode: a request just outside a block is accepted and written, the last cell is refused')
    return cx.idx
