"""C01 — PDU wire format conforms to the Modbus application protocol (layout rules)."""
import ast

from ..common import Ctx, U, AnalysisError, callee_name, annotate, ret_expr
from ..layout import Writer, normalise, rename_rep, show, Seq, select
from ..declayout import summarise_decode
from ..pdumatch import Spec, compare_encode, match_decode
from ..msgtables import table, code_of
from ..execmodel import init_facts
from spec.tables import FUNCTION_CODES, DIAG_SUBFUNCTIONS, MEI_TYPE_READ_DEVICE_ID, EXCEPTION_FLAG
from spec import pdu_layouts as PL

TITLE = 'PDU wire format conforms to the Modbus application protocol'


def r1_tables(ck, cx):
    ck.rule('R1', 'decoder tables: every supported function / sub-function code has exactly one request and one response class, constants equal the spec numbers, no key is shadowed, request and response tables agree')
    ck.tables.append('spec.tables.FUNCTION_CODES / DIAG_SUBFUNCTIONS ([APP] §5, §6.8, §6.21)')
    sets = {}
    n = 0
    for dn in ('ServerDecoder', 'ClientDecoder'):
        d, ft = table(cx, dn, '__function_table')
        _, st = table(cx, dn, '__sub_function_table')
        ck.saw('classes', d.qn)
        codes = {}
        for k in ft:
            n += 1
            fc = code_of(cx, k)
            ck.ob('R1', d.qn, '%s has a constant function code' % k.name, isinstance(fc, int), detail='no-function-code %s' % k.name, loc=k.loc)
            if fc in codes:
                ck.ob('R1', d.qn, 'function code %r registered once' % fc, False, detail='duplicate-fc %r %s/%s' % (fc, codes[fc].name, k.name), loc=d.loc,
                      message='%s: %s and %s share function code %r: the later entry silently replaces the earlier one' % (dn, codes[fc].name, k.name, fc))
            codes[fc] = k
        for fc in FUNCTION_CODES:
            ck.ob('R1', d.qn, 'function code %d is supported' % fc, fc in codes, detail='missing-fc %d' % fc, loc=d.loc,
                  message='%s has no class for function code %d' % (dn, fc))
        subs = {}
        for k in st:
            n += 1
            fc, sub = code_of(cx, k), code_of(cx, k, 'sub_function_code')
            ck.ob('R1', d.qn, '%s has constant function and sub-function codes' % k.name, isinstance(fc, int) and isinstance(sub, int),
                  detail='no-sub-code %s' % k.name, loc=k.loc)
            if (fc, sub) in subs:
                ck.ob('R1', d.qn, 'sub-function (%r, %r) registered once' % (fc, sub), False,
                      detail='duplicate-sub (%r,%r) %s/%s' % (fc, sub, subs[(fc, sub)].name, k.name), loc=d.loc,
                      message='%s: %s and %s share (%r, %r)' % (dn, subs[(fc, sub)].name, k.name, fc, sub))
            subs[(fc, sub)] = k
            # the sub-function class must be a subclass of the class registered for its function code (re-classing keeps the codec)
            base = codes.get(fc)
            ck.ob('R1', d.qn, '%s is a subclass of the class registered for fc %r' % (k.name, fc), base is not None and (k is base or cx.idx.is_subclass(k, base)),
                  detail='sub-not-subclass %s' % k.name, loc=k.loc)
        for sub in DIAG_SUBFUNCTIONS:
            ck.ob('R1', d.qn, 'diagnostic sub-function %d is supported' % sub, (8, sub) in subs, detail='missing-sub 8/%d' % sub, loc=d.loc,
                  message='%s has no class for diagnostic sub-function %d' % (dn, sub))
        ck.ob('R1', d.qn, 'MEI type 14 (read device identification) is supported', (43, MEI_TYPE_READ_DEVICE_ID) in subs, detail='missing-sub 43/14', loc=d.loc)
        sets[dn] = (set(codes), set(subs))
    ck.ob('R1', 'pymodbus.factory', 'request and response tables cover the same function codes', sets['ServerDecoder'][0] == sets['ClientDecoder'][0],
          detail='fc-sets-differ %s' % sorted(sets['ServerDecoder'][0] ^ sets['ClientDecoder'][0]), loc='pymodbus/factory.py')
    ck.ob('R1', 'pymodbus.factory', 'request and response tables cover the same sub-function codes', sets['ServerDecoder'][1] == sets['ClientDecoder'][1],
          detail='sub-sets-differ %s' % sorted(sets['ServerDecoder'][1] ^ sets['ClientDecoder'][1]), loc='pymodbus/factory.py')
    ck.floor('R1', n, 19 + 19 + 18 + 18, 'table entries')


def all_codec_classes(cx):
    out = []
    for dn, spec in (('ServerDecoder', PL.REQUEST), ('ClientDecoder', PL.RESPONSE)):
        seen = []
        for attr in ('__function_table', '__sub_function_table'):
            for k in table(cx, dn, attr)[1]:
                if k not in seen:
                    seen.append(k)
        for k in seen:
            out.append((k, spec, 'request' if dn == 'ServerDecoder' else 'response'))
    return out


def r2_r3_layouts(ck, cx):
    ck.rule('R2', 'encode() layout of every registered class equals the spec layout (field order, widths, big-endian 16-bit fields, byte-count expressions, bit lists through pack_bitstring)')
    ck.rule('R3', 'decode() reads every spec field at its offset with its width into the matching attribute; repeated items are read by a loop with the right start, stride and count')
    ck.tables.append('spec.pdu_layouts REQUEST / RESPONSE / EXCEPTION ([APP] §6.1-§6.21, §7)')
    n = 0
    done_enc, done_dec = {}, {}
    classes = all_codec_classes(cx) + [(cx.idx.cls('pymodbus.pdu.ExceptionResponse'), None, 'exception')]
    for k, spec, kind in classes:
        fc = code_of(cx, k)
        entry = PL.EXCEPTION if kind == 'exception' else spec.get(fc)
        ck.saw('classes', k.qn)
        if entry is None:
            ck.ob('R2', k.qn, 'function code %r has a spec layout' % fc, False, detail='no-spec-layout %r' % fc, loc=k.loc)
            continue
        sp = Spec(cx, k)
        want = sp.parse(entry['layout'])
        enc = cx.idx.find_method(k, 'encode')
        dec = cx.idx.find_method(k, 'decode')
        n += 1
        # ---- writer
        got = Writer(cx, k).func(enc)
        diffs = compare_encode(want, got)
        key = (enc.qn, tuple(d[0] for d in diffs))
        if key not in done_enc:
            done_enc[key] = k
            if len(ck.samples) < 10:
                ck.sample({'class': k.name, 'encode': show(rename_rep(normalise(got)))[:160], 'spec': entry['layout'][:160]})
            ck.ob('R2', enc.qn, 'encode layout = spec layout of fc %r (%s)' % (fc, kind), not diffs, detail='encode-layout ' + '; '.join(d[0] for d in diffs),
                  loc=cx.floc(enc), message='%s (fc %r %s): %s' % (k.name, fc, kind, ' | '.join(d[1] for d in diffs)))
        # constructor invariants used by the layout
        for attr, rel in (entry.get('inv') or {}).items():
            facts = init_facts(cx, k)
            nz = cx.nz(k.mod, k)
            wantp = nz.norm(ast.parse(rel, mode='eval').body)
            ck.ob('R2', k.qn, '__init__ establishes %s = %s' % (attr, rel), facts.get(attr) == wantp, detail='init-invariant %s' % attr, loc=k.loc,
                  message='%s.__init__ sets %s = %s, the layout needs %s' % (k.name, attr, facts.get(attr), rel))
        # ---- reader
        fn, s = summarise_decode(cx, k)
        if fn is None:
            ck.ob('R3', k.qn, 'class has a decode method', False, detail='no-decode', loc=k.loc)
            continue
        ddiffs = match_decode(want, s, cx.nz(fn.mod, k), dict(entry.get('inv') or {}, __min_record__=entry.get('min_record', 1)))
        if s.opaque:
            ddiffs.append(('opaque', 'unrecognised constructs: %s' % '; '.join(s.opaque)))
        key = (fn.qn, tuple(d[0] for d in ddiffs))
        if key not in done_dec:
            done_dec[key] = k
            ck.ob('R3', fn.qn, 'decode layout = spec layout of fc %r (%s)' % (fc, kind), not ddiffs, detail='decode-layout ' + '; '.join(d[0] for d in ddiffs),
                  loc=cx.floc(fn), message='%s (fc %r %s): %s' % (k.name, fc, kind, ' | '.join(d[1] for d in ddiffs)))
    ck.floor('R2', n, 38 + 36 + 1, 'codec classes')


def r4_dispatch(ck, cx):
    ck.rule('R4', 'dispatch: lookup key is byte 0 of the PDU, decode() receives data[1:], codes > 0x80 give ExceptionResponse(code & 0x7f), unknown request codes give IllegalFunctionRequest(code); ExceptionResponse.function_code = code | 0x80')
    for dn in ('ServerDecoder', 'ClientDecoder'):
        d = cx.idx.cls('pymodbus.factory.' + dn)
        h = cx.method(d, '_helper')
        ck.saw('functions', h.qn)
        data = h.params[1]
        keyed = sliced = 0
        exc_ok = None
        def fold(x):
            v = cx.ce.try_ev(x, h.mod, d, default=None)
            return v if isinstance(v, int) and not isinstance(v, bool) else None
        first_byte = ('byte2int(%s[0])' % data, '%s[0]' % data)
        for p in cx.enum(h, d, max_depth=0):
            annotate(p, heap=False)
            for ev in p.ev:
                sub = getattr(ev, '_sub', None)
                if sub is None or ev.kind not in ('call', 'cond', 'assign', 'return'):
                    continue
                # every consultation of the function table -- .get(k), [k], `k in table` -- uses the first PDU byte as the key
                keys = []
                for x in ast.walk(sub):
                    if isinstance(x, ast.Call) and callee_name(x) == 'get' and isinstance(x.func, ast.Attribute) and U(x.func.value).endswith('__lookup') and x.args:
                        keys.append(x.args[0])
                    elif isinstance(x, ast.Subscript) and U(x.value).endswith('__lookup') and isinstance(x.ctx, ast.Load):
                        keys.append(x.slice)
                    elif isinstance(x, ast.Compare) and len(x.ops) == 1 and isinstance(x.ops[0], (ast.In, ast.NotIn)) and U(x.comparators[0]).endswith('__lookup'):
                        keys.append(x.left)
                for a in keys:
                    keyed += 1
                    ck.ob('R4', h.qn, 'class looked up by the first PDU byte', U(a) in first_byte,
                          detail='lookup-key %s' % U(a), loc=cx.floc(h, ev.node))
                if ev.kind == 'call' and callee_name(ev.node) == 'decode' and isinstance(ev.node.func, ast.Attribute) and sub.args \
                        and not U(ev.node.func.value).endswith('decoder') and data in [n_.id for n_ in ast.walk(sub.args[0]) if isinstance(n_, ast.Name)]:
                    a = sub.args[0]
                    sliced += 1
                    ck.ob('R4', h.qn, 'decode() receives the PDU without the function code byte', U(a) == '%s[1:]' % data,
                          detail='decode-arg %s' % U(a), loc=cx.floc(h, ev.node))
            # the stand-in for a request that cannot be served is built from the function code that was received, whatever the reason
            for ev in p.ev:
                t = getattr(ev, '_sub', None)
                for c_ in ([x for x in ast.walk(t) if isinstance(x, ast.Call)] if isinstance(t, ast.AST) and ev.kind in ('assign', 'return', 'call') else []):
                    if callee_name(c_) == 'IllegalFunctionRequest' and c_.args:
                        ck.ob('R4', h.qn, 'IllegalFunctionRequest is given the received function code', U(c_.args[0]) in first_byte,
                              detail='illegal-function-code-source %s' % U(c_.args[0])[:40], loc=cx.floc(h, ev.node),
                              message='%s._helper builds IllegalFunctionRequest(%s): the exception response then carries `%s | 0x80` instead of the function code of the '
                                      'request it answers' % (dn, U(c_.args[0])[:60], U(c_.args[0])[:40]))
            if dn == 'ClientDecoder':
                for ev in p.ev:
                    if ev.kind == 'assign' and isinstance(getattr(ev, '_sub', None), ast.Call) and callee_name(ev._sub) == 'ExceptionResponse':
                        gate = False
                        for c in p.ev:
                            t = getattr(c, '_sub', None)
                            if c.kind == 'cond' and isinstance(t, ast.Compare) and len(t.ops) == 1 and U(t.left) in first_byte:
                                lim = fold(t.comparators[0])
                                if (isinstance(t.ops[0], ast.Gt) and lim == 0x80 and c.a is True) or (isinstance(t.ops[0], ast.GtE) and lim == 0x81 and c.a is True) \
                                        or (isinstance(t.ops[0], ast.LtE) and lim == 0x80 and c.a is False) or (isinstance(t.ops[0], ast.Lt) and lim == 0x81 and c.a is False):
                                    gate = True
                        a0 = ev._sub.args[0] if ev._sub.args else None
                        masked = isinstance(a0, ast.BinOp) and isinstance(a0.op, ast.BitAnd) and (
                            (U(a0.left) in first_byte and fold(a0.right) == 0x7f) or (U(a0.right) in first_byte and fold(a0.left) == 0x7f))
                        exc_ok = bool(gate and masked)
        # sub-function dispatch: reached for every decoded message that has a sub_function_code, including 0
        _, stab = table(cx, dn, '__sub_function_table')
        has_zero = any(code_of(cx, k, 'sub_function_code') == 0 for k in stab)
        reclass = 0
        for p in cx.enum(h, d, max_depth=0):
            annotate(p, heap=False)
            idx = [i for i, ev in enumerate(p.ev) if ev.kind == 'assign' and isinstance(ev.a, ast.Attribute) and ev.a.attr == '__class__']
            if not idx:
                continue
            reclass += 1
            for ev in p.ev[:idx[0]]:
                if ev.kind == 'cond' and ev.a is True and 'sub_function_code' in U(ev._sub):
                    t = ev._sub
                    direct = (isinstance(t, ast.Attribute) and t.attr == 'sub_function_code') or \
                        (isinstance(t, ast.Call) and callee_name(t) in ('hasattr', 'getattr') and len(t.args) >= 2 and
                         isinstance(t.args[1], ast.Constant) and t.args[1].value == 'sub_function_code') or \
                        (isinstance(t, ast.Compare) and 'sub_function_code' in U(t.left) and not isinstance(t.left, ast.Call))
                    if not direct:
                        continue
                    presence = (isinstance(t, ast.Call) and callee_name(t) == 'hasattr') or \
                        (isinstance(t, ast.Compare) and isinstance(t.ops[0], (ast.IsNot, ast.NotEq)) and U(t.comparators[0]) == 'None')
                    ck.ob('R4', h.qn, 'sub-function dispatch tests the presence of the code, not its truthiness (sub-function 0 is legal)',
                          presence or not has_zero, detail='sub-dispatch-truthiness %s' % U(t)[:50], loc=cx.floc(h, ev.node),
                          message='%s._helper dispatches on sub-functions only when `%s` is truthy: sub-function 0x0000 is never re-classed' % (dn, U(t)))
            keyev = [ev for ev in p.ev[:idx[0]] if ev.kind == 'call' and callee_name(ev.node) == 'get' and 'sub_function_code' in U(ev._sub)]
            ck.ob('R4', h.qn, 'sub-function class looked up by the decoded sub_function_code', bool(keyev), detail='sub-lookup-key', loc=cx.floc(h))
        ck.ob('R4', h.qn, '_helper re-classes by sub-function code', reclass > 0, detail='no-reclass-path', loc=cx.floc(h))
        ck.ob('R4', h.qn, '_helper looks the class up', keyed > 0, detail='no-lookup', loc=cx.floc(h))
        ck.ob('R4', h.qn, '_helper calls decode on the PDU body', sliced > 0, detail='no-decode-call', loc=cx.floc(h))
        if dn == 'ClientDecoder':
            ck.ob('R4', h.qn, 'function codes > 0x80 yield ExceptionResponse(code & 0x7f)', exc_ok is True, detail='exception-dispatch', loc=cx.floc(h),
                  message='ClientDecoder does not turn a function code above 0x80 into ExceptionResponse(code & 0x7f)')
    er = cx.idx.cls('pymodbus.pdu.ExceptionResponse')
    off = cx.ce.try_ev(ast.Name(id='ExceptionOffset', ctx=ast.Load()), er.mod, er)
    ck.ob('R4', er.qn, 'ExceptionOffset = 0x80', off == EXCEPTION_FLAG, detail='exception-offset %r' % off, loc=er.loc)


def r13_length_alone_never_refuses(ck, cx, rule='R13'):
    """The decoders may refuse a PDU for what its function code is -- never for how long it is: every length from 1 to 253
    bytes is legal (FC 21 and FC 43/14 fill the PDU completely).  A path of decode() / _helper that refuses (raises, or returns
    None) before the function table was consulted, under conditions that speak only about len(data), is evaluated for every
    legal length; one satisfying length is a finding."""
    ck.rule(rule, 'the decoders refuse no PDU for its length alone: a guard on len(data) placed before the function-table lookup admits every legal PDU length 1..253')
    n = 0
    for dn in ('ServerDecoder', 'ClientDecoder'):
        d = cx.idx.cls('pymodbus.factory.' + dn)
        for mname in ('decode', '_helper'):
            h = cx.method(d, mname)
            if h is None or len(h.params) < 2:
                continue
            ck.saw('functions', h.qn)
            data = h.params[1]
            ln = 'len(%s)' % data
            for p in cx.enum(h, d, max_depth=0):
                annotate(p, heap=False)
                n += 1
                conds, consulted, handled = [], False, False
                for ev in p.ev:
                    sub = getattr(ev, '_sub', None)
                    if ev.kind == 'handler':
                        handled = True
                    if sub is not None and ('__lookup' in U(sub) or '_helper(' in U(sub)):
                        consulted = True
                        break
                    if ev.kind == 'cond' and sub is not None:
                        conds.append((sub, ev.a, ev))
                if consulted or handled or not conds:
                    continue
                ex = p.exit if isinstance(p.exit, tuple) else (p.exit, None)
                refuses = ex[0] == 'exc' or (ex[0] == 'return' and (ex[1] is None or (isinstance(ex[1], ast.Constant) and ex[1].value is None)))
                if not refuses:
                    continue
                if not all(ln in U(c) and {x.id for x in ast.walk(c) if isinstance(x, ast.Name)} <= {data, 'len', 'Defaults'} for c, _, _ in conds):
                    continue
                bad = None
                for L in range(1, 254):
                    ok = True
                    for c, pol, _ in conds:
                        class _S(ast.NodeTransformer):
                            def visit_Call(self, node):
                                if U(node) == ln:
                                    return ast.Constant(value=L)
                                return self.generic_visit(node)
                        import copy
                        t = _S().visit(copy.deepcopy(c))
                        ast.fix_missing_locations(t)
                        v = cx.ce.try_ev(t, h.mod, d, default=None)
                        if v is None or bool(v) != bool(pol):
                            ok = False
                            break
                    if ok:
                        bad = L
                ck.ob(rule, h.qn, 'length guard `%s` admits every legal PDU' % ' and '.join(('' if pol else 'not ') + U(c)[:40] for c, pol, _ in conds), bad is None,
                      detail='length-guard-refuses-legal-pdu', loc=cx.floc(h, conds[-1][2].node),
                      message='%s.%s refuses a PDU of %s bytes (function code included) whatever its function code: a completely filled PDU (253 bytes: FC 21 with data length 0xFB, '
                              'FC 43/14 with 246 object bytes) is legal and must decode to its message type' % (dn, mname, bad))
    ck.floor(rule, n, 6, 'paths of the decoders\' decode / _helper')


def r14_truth_tested_messages_are_truthy(ck, cx, rule='R14'):
    """Both decoders instantiate the looked-up class and then test the INSTANCE for truth (`if not response: raise ...`,
    `if not request: request = IllegalFunctionRequest(...)`).  That is "was a class found" only while no message class can be falsy:
    a class (or a base inside the package) that defines __len__ or __bool__ makes a freshly built, still empty message look like
    "unknown function code"."""
    ck.rule(rule, 'the decoders test the freshly instantiated message for truth, so no registered message class (nor a package base class of one) defines __len__ / __bool__')
    n = 0
    tested = False
    for dn in ('ServerDecoder', 'ClientDecoder'):
        d = cx.idx.cls('pymodbus.factory.' + dn)
        h = cx.method(d, '_helper')
        for p in cx.enum(h, d, max_depth=0):
            annotate(p, heap=False)
            for ev in p.ev:
                t = getattr(ev, '_sub', None)
                if ev.kind == 'cond' and isinstance(t, ast.Call) and isinstance(t.func, ast.Call) and '__lookup' in U(t.func):
                    tested = True       # truthiness of  self.__lookup.get(code, ...)()
    if not tested:
        ck.ob(rule, 'pymodbus.factory', 'the decoders do not test message instances for truth (nothing to require)', True)
        return
    seen = set()
    for dn in ('ServerDecoder', 'ClientDecoder'):
        for tname in ('__function_table', '__sub_function_table'):
            _, tab = table(cx, dn, tname)
            for k in tab:
                for b in cx.idx.mro(k):
                    if not b.qn.startswith('pymodbus.') or b.qn in seen:
                        continue
                    seen.add(b.qn)
                    n += 1
                    bad = [m for m in ('__len__', '__bool__', '__nonzero__') if m in b.methods]
                    ck.ob(rule, b.qn, 'defines neither __len__ nor __bool__', not bad, detail='message-class-can-be-falsy %s' % ','.join(bad), loc=b.loc,
                          message='%s defines %s: a freshly built instance can be falsy, and the decoders (which test the instance, not the table entry) then treat a registered '
                                  'function code as unknown — a well-formed PDU of that type no longer decodes to its message' % (b.qn, ', '.join(bad)))
    ck.floor(rule, n, 40, 'message classes (with package bases) checked for truthiness overrides')


def shared_layout_findings(ck, cx, rule, class_names, why, rules=('R2', 'R3')):
    """re-report, under `rule` of another property, the C01 R2/R3 layout findings of the named classes"""
    if getattr(ck, 'no_shares', False):
        return 99
    sub = type(ck)(ck.pid, ck.tier)
    sub.guard(r2_r3_layouts, sub, cx)
    n = 0
    for o in sub.obligations:
        if o[0] in rules and any(('.%s.' % c) in (str(o[1]) + '.') or str(o[1]).endswith('.' + c) for c in class_names):
            ck.obligations.append((rule,) + tuple(o[1:]))
            n += 1
    for f in sub.findings:
        if f.rule in rules and any(('.%s.' % c) in (f.construct + '.') for c in class_names):
            ck.finding(rule, f.construct, f.detail, f.loc, f.message + ' — ' + why)
    ck.broken += sub.broken
    return n


def r6_constructor_keeps_zero(ck, cx):
    """A message built with field value v must carry v: `self.a = a or DEFAULT` with a non-zero default turns the valid
    value 0 into the default.  Checked for every integer wire field (an attribute encode() packs) for which the
    specification allows 0."""
    from spec.tables import ZERO_EXCLUDED_FIELDS
    from ..common import annotate
    ck.rule('R6', 'constructors store an integer field argument unchanged for every valid value, 0 included (no `arg or non-zero default`)')
    seen, n = set(), 0

    def falsy_fallback(e, params):
        # -> (param, default expr) when e is `p or D` / `p if p else D` / `D if not p else p`
        if isinstance(e, ast.BoolOp) and isinstance(e.op, ast.Or) and isinstance(e.values[0], ast.Name) and e.values[0].id in params:
            return e.values[0].id, e.values[-1]
        if isinstance(e, ast.IfExp):
            t = e.test
            if isinstance(t, ast.Name) and t.id in params and U(e.body) == t.id:
                return t.id, e.orelse
            if isinstance(t, ast.UnaryOp) and isinstance(t.op, ast.Not) and isinstance(t.operand, ast.Name) and t.operand.id in params \
                    and U(e.orelse) == t.operand.id:
                return t.operand.id, e.body
        return None
    for k, _spec, _role in all_codec_classes(cx):
        enc = cx.idx.find_method(k, 'encode')
        if enc is None:
            continue
        try:
            seq = normalise(select(Writer(cx, k).func(enc), lambda c: False if c == 'self.skip_encode' else None))
        except Exception:
            continue
        wire_ints = set()

        def collect(sq):
            for it in sq:
                if it[0] == 'F' and isinstance(it[2], str) and it[2].startswith('self.') and it[2][5:].isidentifier():
                    wire_ints.add(it[2][5:])
                elif it[0] in ('ALT',):
                    collect(it[2]); collect(it[3])
                elif it[0] == 'REP':
                    collect(it[1])
        collect(seq)
        for c in cx.idx.mro(k):
            init = c.methods.get('__init__')
            if init is None or (init.qn, k.qn) in seen:
                continue
            seen.add((init.qn, k.qn))
            params = set(init.params[1:])
            for p in cx.enum(init, c, max_depth=0):
                annotate(p, heap=False)
                for ev in p.ev:
                    if ev.kind == 'assign' and isinstance(ev.a, ast.Attribute) and U(ev.a.value) == 'self' and ev.a.attr in wire_ints:
                        n += 1
                        fb = falsy_fallback(getattr(ev, '_sub', None) or ev.node.value, params)
                        if fb is None or ev.a.attr in ZERO_EXCLUDED_FIELDS:
                            continue
                        d = cx.ce.try_ev(fb[1], init.mod, c)
                        ck.ob('R6', init.qn, 'self.%s keeps a 0 argument' % ev.a.attr, not (isinstance(d, int) and d != 0),
                              detail='zero-argument-replaced %s->%r' % (ev.a.attr, d), loc=cx.floc(init, ev.node),
                              message='%s: %s=0 is a valid field value but `%s` stores %r instead: the message is encoded with the default, not with 0'
                                      % (init.qn, fb[0], U(ev.node.value), d))
    ck.floor('R6', n, 40, 'integer wire fields assigned in constructors')


def r7_register_keeps_tables(ck, cx, rule='R7'):
    """register(custom class): adds one (function code, sub-function code) entry; every other entry of the decoder tables
    stays.  A whole-table write for one function code is allowed only where that function code had no table yet."""
    ck.rule(rule, 'decoder.register() adds its entry without replacing the existing sub-function table of that function code')
    from ..common import annotate
    n = 0
    for dn in ('ServerDecoder', 'ClientDecoder'):
        d = cx.idx.cls('pymodbus.factory.' + dn)
        f = cx.idx.find_method(d, 'register')
        if f is None:
            continue
        ck.saw('functions', f.qn)
        for p in cx.enum(f, d, max_depth=0):
            annotate(p, heap=False)
            # ... and it DOES add its entry: on every path on which the class has a sub-function code, one entry of the inner table
            # is written (a whole-table write under `not in`, or setdefault(code, {sub: cls}), adds it only when the code had no table)
            has_sub = any(c.kind == 'cond' and 'sub_function_code' in U(getattr(c, '_sub', None) or c.node) and c.a is True for c in p.ev)
            if has_sub and not (p.exit and isinstance(p.exit, tuple) and p.exit[0] == 'exc'):
                inner = False
                for ev in p.ev:
                    tg = (getattr(ev, '_subt', None) or ev.a) if ev.kind == 'assign' else None
                    if isinstance(tg, ast.Subscript) and isinstance(tg.value, (ast.Subscript, ast.Call)) and '__sub_lookup' in U(tg.value):
                        inner = True
                    cl = (getattr(ev, '_sub', None) if isinstance(getattr(ev, '_sub', None), ast.Call) else ev.node) if ev.kind == 'call' else None
                    if cl is not None and isinstance(cl.func, ast.Attribute) and cl.func.attr in ('update', '__setitem__') and isinstance(cl.func.value, (ast.Subscript, ast.Call)) \
                            and '__sub_lookup' in U(cl.func.value):
                        inner = True
                n += 1
                ck.ob(rule, f.qn, 'register() writes the (function code, sub-function code) entry on every path', inner, detail='register-does-not-add-entry', loc=cx.floc(f),
                      message='%s.register has a path on which a class with a sub-function code is not entered in the sub-function table of its function code (it is '
                              'added only when that code had no table yet): frames of that sub-function are then delivered as another class' % dn)
            for i, ev in enumerate(p.ev):
                whole = None      # (key text, value node) of a depth-1 write into the sub-function table
                # targets and receivers are looked at with locals replaced by what they stand for (`tables = self.__sub_lookup`)
                tgt = (getattr(ev, '_subt', None) or ev.a) if ev.kind == 'assign' else None
                call = (getattr(ev, '_sub', None) if isinstance(getattr(ev, '_sub', None), ast.Call) else ev.node) if ev.kind == 'call' else None
                if tgt is not None and isinstance(tgt, ast.Subscript) and U(tgt.value).endswith('__sub_lookup'):
                    whole = (U(tgt.slice), ev.node.value)
                elif call is not None and isinstance(call.func, ast.Attribute) and call.func.attr == 'update' and U(call.func.value).endswith('__sub_lookup') \
                        and call.args and isinstance(call.args[0], ast.Dict) and call.args[0].keys:
                    whole = (U(call.args[0].keys[0]), call.args[0].values[0])
                elif tgt is not None and isinstance(tgt, ast.Subscript) and isinstance(tgt.value, ast.Subscript) and U(tgt.value.value).endswith('__sub_lookup'):
                    n += 1      # one entry of the inner table: the intended form
                elif call is not None and isinstance(call.func, ast.Attribute) and call.func.attr == 'setdefault' and U(call.func.value).endswith('__sub_lookup'):
                    n += 1      # setdefault never replaces an existing inner table
                if whole is None:
                    continue
                n += 1
                key, val = whole

                def _absent(c):
                    t, pol = (getattr(c, '_sub', None) or c.node), c.a
                    while isinstance(t, ast.UnaryOp) and isinstance(t.op, ast.Not):
                        t, pol = t.operand, (not pol if isinstance(pol, bool) else pol)
                    if not (isinstance(t, ast.Compare) and len(t.ops) == 1 and isinstance(t.ops[0], (ast.In, ast.NotIn))):
                        return False
                    if key not in U(t.left) or not U(t.comparators[0]).endswith('__sub_lookup'):
                        return False
                    return (isinstance(t.ops[0], ast.NotIn) and pol is True) or (isinstance(t.ops[0], ast.In) and pol is False)
                absent = any(c.kind == 'cond' and _absent(c) for c in p.ev[:i])
                merges = any(isinstance(x, ast.Attribute) and x.attr.endswith('__sub_lookup') for x in ast.walk(val))
                ck.ob(rule, f.qn, 'a whole sub-function table is written only for a function code that had none (or merged with the old one)', absent or merges,
                      detail='register-replaces-sub-table', loc=cx.floc(f, ev.node),
                      message='%s.register replaces the sub-function table of the function code with `%s`: after registering one custom sub-function '
                              'every built-in sub-function of that code (0x08 diagnostics, 0x2B MEI) is no longer dispatched' % (dn, U(val)[:60]))
    ck.floor(rule, n, 2, 'sub-function table writes in register()')


def _fresh_container(v):
    """an expression that yields a new empty/filled container each time it is evaluated"""
    if isinstance(v, (ast.Dict, ast.DictComp, ast.List, ast.ListComp, ast.Set, ast.SetComp)):
        return True
    return isinstance(v, ast.Call) and callee_name(v) in ('dict', 'list', 'set', 'OrderedDict', 'defaultdict')


def _per_key_fresh(v):
    """classify the value assigned to the sub-function table: True = every key gets its own inner table, False = keys share one
    object, None = not recognised"""
    if isinstance(v, ast.Dict):
        return all(_fresh_container(x) for x in v.values)
    if isinstance(v, ast.DictComp):
        return _fresh_container(v.value)
    if isinstance(v, ast.Call):
        name = callee_name(v)
        if isinstance(v.func, ast.Attribute) and v.func.attr == 'fromkeys':
            if len(v.args) < 2:
                return None
            d = v.args[1]
            return False if not (isinstance(d, ast.Constant)) else None
        if name in ('dict', 'OrderedDict'):
            if not v.args and not v.keywords:
                return True
            a = v.args[0] if v.args else None
            if isinstance(a, (ast.GeneratorExp, ast.ListComp)) and isinstance(a.elt, (ast.Tuple, ast.List)) and len(a.elt.elts) == 2:
                val = a.elt.elts[1]
                if _fresh_container(val):
                    return True
                if isinstance(val, (ast.Name, ast.Attribute)):
                    bound = {n.id for g in a.generators for n in ast.walk(g.target) if isinstance(n, ast.Name)}
                    return None if (isinstance(val, ast.Name) and val.id in bound) else False
                return None
            if isinstance(a, ast.Call) and callee_name(a) == 'zip' and len(a.args) == 2:
                b = a.args[1]
                if isinstance(b, (ast.GeneratorExp, ast.ListComp)) and _fresh_container(b.elt):
                    return True
                if isinstance(b, ast.BinOp) and isinstance(b.op, ast.Mult):
                    return False          # [{}] * n : n references to one dict
                return None
        if name == 'defaultdict' and v.args and isinstance(v.args[0], ast.Name) and v.args[0].id in ('dict', 'OrderedDict'):
            return True
    return None


def r9_sub_tables_distinct(ck, cx, rule='R9'):
    """The decoders keep one inner table {sub-function code: class} per function code and fill them with
    `self.__sub_lookup[fc][sub] = cls`.  If two function codes share one inner dict object, every sub-function class is dispatched
    under every function code (0x2B/0x00 decodes as a diagnostic, 0x08/0x0E as device identification).
    Decided per method: the table may be built in place or in a local that is then stored (aliases are followed both ways); the value
    of a whole-table assignment must give every key its own inner container, and every depth-1 store `table[fc] = V` must store a
    container that is created by that very statement (a display / constructor call, not a name bound elsewhere)."""
    ck.rule(rule, 'the decoders build a separate inner sub-function table for every function code (no dict.fromkeys / shared object as the per-key value)')
    n = 0

    def is_tab(x):
        return isinstance(x, ast.Attribute) and x.attr.endswith('__sub_lookup')
    for dn in ('ServerDecoder', 'ClientDecoder'):
        d = cx.idx.cls('pymodbus.factory.' + dn)
        work = [(fn, set()) for fn in d.methods.values()]
        # a module-level builder whose result is (tuple-)assigned to the table: the returned local is the table inside the builder
        for fn in d.methods.values():
            for node in ast.walk(fn.node):
                if isinstance(node, ast.Assign) and isinstance(node.value, ast.Call) and isinstance(node.value.func, ast.Name):
                    r_ = cx.idx.lookup(fn.mod, node.value.func.id)
                    if not (r_ and r_[0] == 'func'):
                        continue
                    for t in node.targets:
                        elts = list(t.elts) if isinstance(t, (ast.Tuple, ast.List)) else [t]
                        for k_, el in enumerate(elts):
                            if is_tab(el):
                                for rt in ast.walk(r_[1].node):
                                    if isinstance(rt, ast.Return) and rt.value is not None:
                                        rv = rt.value.elts[k_] if isinstance(rt.value, (ast.Tuple, ast.List)) and len(rt.value.elts) == len(elts) else (rt.value if len(elts) == 1 else None)
                                        if isinstance(rv, ast.Name):
                                            work.append((r_[1], {rv.id}))
        for fn, pre_alias in work:
            # local aliases of the table: `self.__sub_lookup = L`, `L = self.__sub_lookup`
            alias, binds = set(pre_alias), {}
            for node in ast.walk(fn.node):
                if isinstance(node, ast.Assign):
                    for t in node.targets:
                        if isinstance(t, ast.Name):
                            binds.setdefault(t.id, []).append(node.value)
                            if is_tab(node.value):
                                alias.add(t.id)
                        if is_tab(t) and isinstance(node.value, ast.Name):
                            alias.add(node.value.id)

            def table(x):
                return is_tab(x) or (isinstance(x, ast.Name) and x.id in alias)

            def fresh_here(v):
                """is the stored value a container created by the storing statement itself?"""
                if _fresh_container(v):
                    return True
                if isinstance(v, ast.Name):
                    return False if any(_fresh_container(b) for b in binds.get(v.id, [])) else None
                return None
            for node in ast.walk(fn.node):
                val, what, ok = None, None, None
                if isinstance(node, ast.Assign):
                    for t in node.targets:
                        if is_tab(t) or (isinstance(t, ast.Name) and t.id in alias and not is_tab(node.value)):
                            val, what = node.value, 'whole'
                            if isinstance(val, ast.Name) and val.id in alias:
                                val = None      # `self.__sub_lookup = local`: the local's own binding is examined instead
                                break
                            ok = _per_key_fresh(val)
                            if ok is None and _fresh_container(val) and isinstance(val, (ast.Dict, ast.Call)) and not getattr(val, 'keys', None) and not getattr(val, 'args', None):
                                ok = True       # an empty table: its entries come from the depth-1 stores below
                        elif isinstance(t, ast.Subscript) and table(t.value):
                            val, what = node.value, 'inner'
                            ok = fresh_here(val)
                elif isinstance(node, ast.Call) and isinstance(node.func, ast.Attribute) and node.func.attr == 'setdefault' \
                        and table(node.func.value) and len(node.args) == 2:
                    val, what = node.args[1], 'inner'
                    ok = fresh_here(val)
                if val is None:
                    continue
                n += 1
                ck.saw('functions', fn.qn)
                ck.ob(rule, fn.qn, 'the %s value `%s` gives each function code an inner table of its own' % (what, U(val)[:60]), ok is True,
                      detail='sub-table-%s %s' % ('shared' if ok is False else 'not-recognised', what), loc=cx.floc(fn, node),
                      message='%s.%s builds the sub-function table from `%s`: %s, so a sub-function class registered for one function code is '
                              'dispatched for every function code (0x2B/0x00 decodes as a diagnostics message, 0x08/0x0E as device identification)'
                              % (dn, fn.name, U(val)[:70], 'all function codes share one inner dict' if ok is False else
                                 'the inner tables are not provably distinct objects'))
    ck.floor(rule, n, 4, 'constructions of (inner) sub-function tables')


def run(ck, tier):
    cx = Ctx()
    ck.guard(r1_tables, ck, cx)
    ck.guard(r2_r3_layouts, ck, cx)
    ck.guard(r4_dispatch, ck, cx)
    ck.guard(r13_length_alone_never_refuses, ck, cx)
    ck.guard(r14_truth_tested_messages_are_truthy, ck, cx)
    ck.guard(r6_constructor_keeps_zero, ck, cx)
    ck.guard(r7_register_keeps_tables, ck, cx)
    ck.guard(r9_sub_tables_distinct, ck, cx)
    from .c02 import r6_bit_helpers_fresh
    ck.guard(r6_bit_helpers_fresh, ck, cx, 'R8')
    from .c02 import r5_no_shared_default_state
    ck.guard(r5_no_shared_default_state, ck, cx, 'R5')
    ck.assume('the arithmetic inside pack_bitstring / unpack_bitstring (LSB-first packing) and struct itself are in the trusted base; the rules prove every bit field goes through them')
    ck.assume('value ranges (e.g. addresses above 65535 raising struct.error) are not decided')
    from .. import ownership as _own
    ck.guard(_own.rule_instance_owned, ck, cx, 'R10', _own.DECODERS, 'a function registered on one decoder is decoded by every decoder in the process: a spec-conformant PDU no longer decodes to the message type of the specification', 4)
    from .. import ownership as _own2
    ck.rule('R11', 'no unsound memoisation (a caching decorator on a method, or on a function that returns a mutable container) in the modules this property rests on')
    ck.guard(_own2.rule_no_unsafe_memo, ck, cx, 'R11', ('pymodbus.utilities', 'pymodbus.pdu', 'pymodbus.factory', 'pymodbus.bit_read_message', 'pymodbus.bit_write_message', 'pymodbus.register_read_message', 'pymodbus.register_write_message', 'pymodbus.diag_message', 'pymodbus.file_message', 'pymodbus.other_message', 'pymodbus.mei_message'), 'a message is encoded / decoded from a stale or shared value')
    from ..share import import_findings as _imp2
    ck.rule('R12', 'MEI objects: (id, length, value) with length = number of value bytes on the wire (shared with C20 R1b)')
    _imp2(ck, 'C20', 'R12', ('R1b',), 'the object length field on the wire is not the length of the object value that follows')
    ck.rule('R15', 'pre-encoded register payloads (skip_encode) are whole registers: BinaryPayloadBuilder.build() cuts to_string() into two-byte elements, zero-padding an odd tail (shared with C19 R3)')
    _imp2(ck, 'C19', 'R15', ('R3',), 'FC16 / FC6 with skip_encode join the elements verbatim and count them: the PDU announces N registers and 2N bytes but carries one byte less', construct_contains=('.build',))
    return cx.idx
