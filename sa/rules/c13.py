"""C13 — client transactions end in bounded time with a result and recover (structural conditions)."""
import ast

from ..common import Ctx, U, AnalysisError, callee_name, annotate, annotated_copy, Poly, NotInt, SelfResolver, contradictory, ret_expr
from ..txmodel import TxShape
from ..framermodel import FRAMER_CLASSES, framer_paths

TITLE = 'client transactions end in bounded time with a result and recover'

ALLOWED_ESCAPES = {'ConnectionException'}      # "failure to establish the connection excepted"


def transport_may_raise(node, frame, path):
    """frozen may-raise table for the client transport layer (reasons):
    framer.sendPacket / recvPacket -> socket.error (OS), ConnectionException (client._send/_recv without a socket)
    client.connect -> nothing (all client connect() implementations catch socket.error and return False)
    int(x, 16) -> ValueError (ASCII function-code peek on non-hex bytes)
    """
    if isinstance(node, ast.Call):
        n = callee_name(node)
        if n in ('sendPacket', 'recvPacket'):
            return ['socket.error', 'ConnectionException']
        if n == 'int' and len(node.args) == 2:
            return ['ValueError']
    return []


def r1_bound(ck, cx, sh):
    ck.rule('R1', 'transmit bound: the loop variable starts at retries + 1, the loop runs while it is > 0, every back-edge decrements it by exactly one, _transact is called once per iteration and only there; the configured retries value reaches the loop unmodified')
    tm, ex = sh.tm, sh.ex
    nz = cx.nz(ex.mod, tm)
    var = sh.var
    ck.ob('R1', ex.qn, 'retry loop is controlled by a counter compared with 0', var is not None and isinstance(sh.loop.test, ast.Compare)
          and isinstance(sh.loop.test.ops[0], ast.Gt) and cx.ce.try_ev(sh.loop.test.comparators[0], ex.mod, tm) == 0,
          detail='loop-test %s' % U(sh.loop.test), loc=cx.floc(ex, sh.loop),
          message='retry loop condition is `%s`, expected `<counter> > 0`' % U(sh.loop.test))
    # initial value at loop entry
    n0 = 0
    inits = set()
    for p in cx.enum_region(ex, tm, stop=[sh.loop]):
        if not (p.exit and p.exit[0] == 'stop'):
            continue
        n0 += 1
        st = annotate(p, heap=False)
        v = st.loc.get((0, var))
        try:
            inits.add(str(nz.norm(v)) if v is not None else 'unset')
        except NotInt:
            inits.add(U(v))
    want = str(nz.norm(ast.parse('self.retries + 1', mode='eval').body))
    ck.ob('R1', ex.qn, 'counter is retries + 1 at loop entry (1 + retries transmissions)', inits == {want},
          detail='loop-initial-value %s' % sorted(inits), loc=cx.floc(ex, sh.loop),
          message='the retry counter enters the loop as %s, expected self.retries + 1' % sorted(inits))
    # loop body paths
    nb = 0
    for p in cx.enum_region(ex, tm, sh.loop.body):
        st = annotate(p, heap=False)
        if contradictory(p):
            continue
        nb += 1
        tx = [e for e in p.ev if e.kind == 'call' and callee_name(e.node) == '_transact']
        ck.ob('R1', ex.qn, 'one transmission per loop iteration', len(tx) == 1, detail='transact-per-iteration %d' % len(tx), loc=cx.floc(ex, sh.loop),
              message='a loop iteration calls _transact %d times' % len(tx))
        # net change of the counter over the iteration (value propagation: final value in terms of the initial one)
        final = st.loc.get((0, var))
        try:
            delta = (nz.norm(final) - Poly.atom(var)) if final is not None else Poly.const(0)
        except NotInt:
            delta = None
        dv = delta.const_value() if delta is not None else None
        ck.ob('R1', ex.qn, 'counter only ever decreases inside the loop', dv is not None and dv <= 0,
              detail='counter-change %s' % (delta,), loc=cx.floc(ex, sh.loop),
              message='the retry counter changes by %s in one iteration' % (delta,))
        if p.exit in (None, 'continue'):
            ck.ob('R1', ex.qn, 'every path back to the loop test decrements the counter by exactly 1', dv == -1,
                  detail='backedge-decrement %s' % (delta,), loc=cx.floc(ex, sh.loop),
                  message='a path returns to the loop test with the counter changed by %s: the number of transmissions is not bounded by 1 + retries' % (delta,))
    ck.floor('R1', nb, 10, 'loop-body paths')
    # _transact call sites: inside the loop, plus the broadcast send
    sites = [n for n in ast.walk(tm.node if False else cx.idx.cls('pymodbus.transaction.ModbusTransactionManager').node)
             if isinstance(n, ast.Call) and callee_name(n) == '_transact']
    inloop = [n for n in sites if any(a is sh.loop for a in _anc(n))]
    for s_ in sites:
        if s_ in inloop:
            continue
        kw = {k.arg: k.value for k in s_.keywords}
        ck.ob('R1', ex.qn, 'a transmission outside the retry loop is the single broadcast send', 'broadcast' in kw and cx.ce.try_ev(kw['broadcast'], ex.mod, tm) is True,
              detail='transact-outside-loop', loc=cx.floc(ex, s_), message='_transact is also called outside the retry loop')
    ck.ob('R1', ex.qn, 'the retry loop is the only repeated sender', len(inloop) == 1, detail='transact-sites-in-loop %d' % len(inloop), loc=cx.floc(ex))
    # _transact sends once
    tr = cx.method(tm, '_transact')
    ck.saw('functions', tr.qn)
    for p in cx.enum(tr, tm, resolver=cx.tx_helper_resolver(), max_depth=1):
        sends = [e for e in p.ev if e.kind == 'call' and callee_name(e.node) == '_send']
        ck.ob('R1', tr.qn, '_transact transmits at most once', len(sends) <= 1, detail='sends-per-transact %d' % len(sends), loc=cx.floc(tr))
    # configured value reaches the loop unmodified
    init = cx.method(cx.idx.cls('pymodbus.transaction.ModbusTransactionManager'), '__init__')
    # what becomes of a configured retries=0: the value stored in self.retries on each constructor path, with the sub-expression that
    # fetches the option ('retries' looked up in the keyword arguments, directly or through a private helper) replaced by 0 and folded
    import copy as _copy
    tmc = cx.idx.cls('pymodbus.transaction.ModbusTransactionManager')
    outcomes = set()
    site = None
    for p in cx.enum(init, tmc, max_depth=2):
        if p.exit and p.exit[0] == 'exc':
            continue
        annotate(p, heap=False)
        for e in p.ev:
            if e.kind == 'assign' and U(e.a) == 'self.retries' and e.frame.fid == 0:
                site = e.node
                v = getattr(e, '_sub', None) or e.node.value

                class Z(ast.NodeTransformer):
                    hit = False

                    def visit_Call(self, c):
                        if any(isinstance(a, ast.Constant) and a.value == 'retries' for a in c.args):
                            Z.hit = True
                            return ast.Constant(value=0)
                        return self.generic_visit(c)

                    def visit_Subscript(self, c):
                        if isinstance(c.slice, ast.Constant) and c.slice.value == 'retries':
                            Z.hit = True
                            return ast.Constant(value=0)
                        return self.generic_visit(c)
                Z.hit = False
                z = Z().visit(_copy.deepcopy(v))
                ast.fix_missing_locations(z)
                if Z.hit:           # only the paths on which the option was supplied
                    outcomes.add(cx.ce.try_ev(z, init.mod, tmc, default='?'))
    if site is not None:
        bad = sorted(str(o) for o in outcomes if o != 0)
        ck.ob('R1', init.qn, 'self.retries is the configured value unmodified (0 stays 0)', not bad, detail='retries-zero-becomes %s' % ','.join(bad), loc=cx.floc(init, site),
              message='a configured retries=0 is stored as %s: the request is transmitted more often than 1 + retries' % ','.join(bad))
    else:
        ck.ob('R1', init.qn, 'the constructor stores the configured retries', False, detail='retries-not-stored', loc=cx.floc(init))


def r20_every_attempt_connects(ck, cx, sh, rule='R20'):
    """The fault handlers of _transact close the transport (R4).  The attempt that follows -- the retry inside this call, or the
    first attempt of the next call -- therefore starts on a closed socket unless it opens it again: between the top of the retry
    loop body and the transmission there is a client.connect() on every path."""
    ck.rule(rule, 'every attempt starts from an open connection: client.connect() is called before the transmission on every path from the top of the retry-loop body (the fault handler of the previous attempt closed the transport)')
    tm, ex = sh.tm, sh.ex
    tr = cx.method(tm, '_transact')
    ck.saw('functions', tr.qn)

    def connects(e):
        return e.kind == 'call' and callee_name(e.node) == 'connect' and isinstance(e.node.func, ast.Attribute) and 'client' in U(e.node.func.value)
    n = 0
    in_transact = True
    site = None
    for p in cx.enum(tr, tm, resolver=cx.tx_helper_resolver(), max_depth=1):
        seen = False
        for e in p.ev:
            if connects(e):
                seen = True
            if e.kind == 'call' and callee_name(e.node) == '_send':
                n += 1
                if not seen:
                    in_transact = False
                    site = site or e.node
                break
    in_loop = True
    for p in cx.enum_region(ex, tm, sh.loop.body):
        seen = False
        for e in p.ev:
            if connects(e):
                seen = True
            if e.kind == 'call' and callee_name(e.node) == '_transact':
                n += 1
                if not seen:
                    in_loop = False
                break
    ck.ob(rule, tr.qn, 'connect() precedes the transmission inside every attempt', in_transact or in_loop, detail='attempt-without-connect', loc=cx.floc(tr, site),
          message='a retry can transmit without client.connect(): the handler of the failed attempt closed the transport, so the retry runs on a closed socket and '
                  'its ConnectionException escapes the client call instead of a reply or an error object being returned')
    ck.floor(rule, n, 3, 'send sites / attempts examined')


def r23_decode_data_invents_nothing(ck, cx, rule='R23'):
    """The retry loop asks the framer what a reply says about itself (`decode_data(response).get('unit') == request.unit_id`,
    `'length' in mbap`).  For data that is too short to hold the header -- the empty reply of a timed-out attempt above all -- the
    honest answer is "nothing": a dictionary without those keys.  A decode_data() that fills in defaults (unit 0, length 0) makes an
    empty reply look like a reply from unit 0, and the loop stops retrying for requests to that unit."""
    ck.rule(rule, 'decode_data() of every framer reports only fields it parsed from the data: a path that unpacks nothing returns no unit / length / fcode keys')
    from ..framermodel import FRAMER_CLASSES
    n = 0
    for kind, qn in sorted(FRAMER_CLASSES.items()):
        cls = cx.idx.cls(qn)
        f = cx.idx.find_method(cls, 'decode_data')
        if f is None:
            continue
        ck.saw('functions', f.qn)
        data = f.params[1]
        for p in cx.enum(f, cls, max_depth=1):
            if p.exit and p.exit[0] == 'exc':
                continue
            annotate(p, heap=False)
            r = ret_expr(p)
            n += 1
            if r is None:
                continue
            keys = set()
            if isinstance(r, ast.Dict):
                keys = {k.value for k in r.keys if isinstance(k, ast.Constant)}
            elif isinstance(r, ast.Call) and callee_name(r) == 'dict':
                keys = {k.arg for k in r.keywords if k.arg}
            if not keys:
                folded = cx.ce.try_ev(r, f.mod, cls, default=None)       # dict(zip(NAMES, (0, 0, ...))) and the like
                if isinstance(folded, dict):
                    keys = set(folded)
                elif isinstance(r, ast.Call) and callee_name(r) == 'dict' and len(r.args) == 1 and isinstance(r.args[0], ast.Call) and callee_name(r.args[0]) == 'zip' and r.args[0].args:
                    k0 = cx.ce.try_ev(r.args[0].args[0], f.mod, cls, default=None)
                    keys = set(k0) if isinstance(k0, (tuple, list)) else keys
            parsed = any(isinstance(x, ast.Name) and x.id == data for x in ast.walk(r))
            bad = sorted(keys & {'unit', 'uid', 'length', 'fcode', 'tid'}) if not parsed else []
            ck.ob(rule, f.qn, 'a return that parses nothing from the data carries no header keys', not bad, detail='decode-data-invents %s' % ','.join(bad), loc=cx.floc(f),
                  message='%s framer: decode_data() returns %s without having read them from the data (too short a reply, an empty one above all): the transaction manager '
                          'takes an empty reply for a reply from unit %s and stops retrying' % (kind, bad, 'that value'))
    ck.floor(rule, n, 4, 'return paths of decode_data over the framers')


def _anc(n):
    while getattr(n, '_parent', None) is not None:
        n = n._parent
        yield n


def r2_table(ck, cx, sh):
    ck.rule('R2', 'retry decision table: empty reply and retry_on_empty => retry; foreign reply and retry_on_invalid => retry; valid reply => stop; no option set => stop')
    tm, ex = sh.tm, sh.ex
    rows = []
    unit_tests = []
    for p in cx.enum_region(ex, tm, sh.loop.body):
        annotate(p, heap=False)
        if contradictory(p):
            continue
        atoms = {}
        for e in p.ev:
            if e.kind != 'cond':
                continue
            t = U(e._sub)
            if t in ('response', 'self._transact(request, expected_response_length, full=full, broadcast=broadcast)[0]') or t.endswith(')[0]') and '_transact' in t:
                atoms.setdefault('nonempty', e.a)
            elif t == 'self.retry_on_empty':
                atoms['retry_on_empty'] = e.a
            elif t == 'self.retry_on_invalid':
                atoms['retry_on_invalid'] = e.a
            elif "get('unit')" in t and 'unit_id' in t:
                atoms['unit_match'] = e.a
                sub = e._sub
                sides = [U(sub.left), U(sub.comparators[0])] if isinstance(sub, ast.Compare) and len(sub.ops) == 1 else []
                eq = bool(sides) and isinstance(sub.ops[0], (ast.Eq, ast.NotEq)) and (sh.req + '.unit_id') in sides and \
                    any(x.endswith(".get('unit')") for x in sides)
                if isinstance(sub, ast.Compare) and isinstance(sub.ops[0], ast.NotEq):
                    atoms['unit_match'] = not e.a
                unit_tests.append((eq, t))
            elif "get('length')" in t or "'length' in" in t:
                atoms.setdefault('length_match', e.a)
        outcome = 'retry' if p.exit in (None, 'continue') else ('stop' if p.exit == 'break' else str(p.exit))
        rows.append((atoms, outcome))
    for eq, t in sorted(set(unit_tests)):
        ck.ob('R2', ex.qn, 'a reply is "ours" exactly when its unit equals the request unit', eq, detail='unit-match-not-equality %s' % t[:60], loc=cx.floc(ex, sh.loop),
              message='the retry loop accepts a reply as its own under `%s`: a foreign reply (e.g. unit 0 or 255) stops the retries although retry_on_invalid is set' % t)
    ck.sample({'rule': 'R2', 'decision-table': sorted(set((str(sorted(a.items())), o) for a, o in rows))[:12]})
    ck.floor('R2', len(rows), 8, 'loop-body paths')

    def consistent(atoms, premise):
        return all(atoms.get(k, v) == v for k, v in premise.items())
    oracle = [
        ('empty-reply-with-retry_on_empty', {'nonempty': False, 'retry_on_empty': True}, 'retry'),
        ('foreign-reply-with-retry_on_invalid', {'nonempty': True, 'retry_on_invalid': True, 'unit_match': False, 'length_match': False}, 'retry'),
        ('valid-reply', {'nonempty': True, 'unit_match': True}, 'stop'),
        ('no-retry-option', {'retry_on_empty': False, 'retry_on_invalid': False}, 'stop'),
    ]
    for name, premise, want in oracle:
        hits = [(a, o) for a, o in rows if consistent(a, premise)
                # declared feasibility: an empty reply matches neither unit nor length
                and not (a.get('nonempty') is False and (a.get('unit_match') or a.get('length_match')))]
        ck.ob('R2', ex.qn, 'decision row %s is reachable' % name, bool(hits), detail='row-missing %s' % name, loc=cx.floc(ex, sh.loop))
        bad = [(a, o) for a, o in hits if o != want]
        ck.ob('R2', ex.qn, '%s => %s' % (name, want), not bad,
              detail='retry-decision %s -> %s' % (name, sorted(set(o for _, o in bad))), loc=cx.floc(ex, sh.loop),
              message='retry loop: with %s the loop does %s on path(s) %s, expected %s' % (
                  premise, sorted(set(o for _, o in bad)), [sorted(a.items()) for a, _ in bad][:2], want))


def r3_escape(ck, cx, sh):
    ck.rule('R3', 'no exception other than a connection failure can escape ModbusTransactionManager.execute (exception flow through _recv, _transact and the five framers)')
    tm, ex = sh.tm, sh.ex
    # 1. what can leave _recv / _send, then what can leave _transact given those summaries
    none = lambda c, fr, pa: None
    esc_leaf = {}
    for name in ('_recv', '_send'):
        fn = cx.method(tm, name)
        ck.saw('functions', fn.qn)
        out = {}
        for p in cx.enum(fn, tm, resolver=none, may_raise=transport_may_raise, max_depth=0):
            if p.exit and p.exit[0] == 'exc':
                src = [e for e in p.ev if e.kind == 'raise']
                out.setdefault(p.exit[1], U(src[-1].node)[:50] if src else '?')
        esc_leaf[name] = out
    tr = cx.method(tm, '_transact')

    def may_tr(node, frame, path):
        if isinstance(node, ast.Call):
            n = callee_name(node)
            if n in esc_leaf and U(node.func.value) == 'self':
                return sorted(esc_leaf[n])
        return []
    esc_tr = {}
    for p in cx.enum(tr, tm, resolver=cx.tx_helper_resolver(), may_raise=may_tr, max_depth=1):
        if p.exit and p.exit[0] == 'exc':
            src = [e for e in p.ev if e.kind == 'raise']
            callee = callee_name(src[-1].node) if src else '?'
            esc_tr.setdefault(p.exit[1], '%s: %s' % (callee, esc_leaf.get(callee, {}).get(p.exit[1], '?')))
    ck.sample({'rule': 'R3', 'escapes-from-_recv/_send': esc_leaf})
    ck.sample({'rule': 'R3', 'escapes-from-_transact': esc_tr})
    # 2. what can leave the framers' processIncomingPacket
    esc_fr = {}
    for kind in FRAMER_CLASSES:
        cls, f, fps = framer_paths(cx, kind)
        for fp in fps:
            if fp.exit and fp.exit[0] == 'exc':
                esc_fr.setdefault(fp.exit[1], set()).add(kind)
    ck.sample({'rule': 'R3', 'escapes-from-framers': {k: sorted(v) for k, v in esc_fr.items()}})

    def may(node, frame, path):
        if isinstance(node, ast.Call):
            n = callee_name(node)
            if n == '_transact':
                return sorted(esc_tr)
            if n == 'processIncomingPacket':
                return sorted(esc_fr)
        return []
    seen = set()
    for p in cx.enum_region(ex, tm, sh.after, may_raise=may):
        if p.exit and p.exit[0] == 'exc':
            src = [e for e in p.ev if e.kind == 'raise']
            seen.add((p.exit[1], callee_name(src[-1].node) if src else '?'))
    # the region `after` is inside the function's try: apply the enclosing handlers
    handlers = []
    for a in _anc(sh.loop):
        if isinstance(a, ast.Try):
            for h in a.handlers:
                handlers.append(h)
    from ..paths import handler_names
    hier = cx.hier

    def caught(exc):
        return any(hier.caught_by(exc, handler_names(h)) for h in handlers)
    for exc, src in sorted(esc_tr.items()):
        seen.add((exc, '_transact'))
    n = 0
    for exc, src in sorted(seen):
        n += 1
        ok = caught(exc) or exc in ALLOWED_ESCAPES
        where = src if src != 'processIncomingPacket' else 'framer.processIncomingPacket (%s)' % ','.join(sorted(esc_fr.get(exc, [])))
        if src == '_transact':
            where = '_transact (%s)' % esc_tr.get(exc, '')
        ck.ob('R3', ex.qn, '%s raised in %s does not escape execute()' % (exc, where), ok,
              detail='escaping-%s-from-%s' % (exc, src), loc=cx.floc(ex),
              message='%s raised in %s is neither handled in _transact nor in execute(): the client call raises instead of returning an error object' % (exc, where))
    ck.floor('R3', n, 3, 'exception classes reaching execute')
    ck.ob('R3', ex.qn, 'execute() converts ModbusIOException into a returned error object', caught('ModbusIOException'), detail='no-io-handler', loc=cx.floc(ex))


def r4_state(ck, cx, sh):
    ck.rule('R4', 'clean exit state: normal exits set client.state = TRANSACTION_COMPLETE, every handler of _transact closes the client, the lock is held by `with`')
    tm, ex = sh.tm, sh.ex
    n = 0
    for p in cx.enum_region(ex, tm, sh.after):
        if p.exit and p.exit[0] == 'exc':
            continue
        n += 1
        annotate(p, heap=False)
        sets = [e for e in p.ev if e.kind == 'assign' and U(e.a) == 'self.client.state']
        nostate = any(e.kind == 'cond' and e.a is False and U(e._sub).startswith('hasattr(self.client') for e in p.ev)
        ok = nostate or (bool(sets) and U(sets[-1].node.value).endswith('TRANSACTION_COMPLETE'))
        ck.ob('R4', ex.qn, 'normal exit leaves the client in TRANSACTION_COMPLETE', ok, detail='exit-state', loc=cx.floc(ex),
              message='a normal exit of execute() leaves client.state = %s' % (U(sets[-1].node.value) if sets else 'unchanged'))
    ck.floor('R4', n, 2, 'normal exits after the loop')
    for a in _anc(sh.loop):
        if isinstance(a, ast.Try):
            for h in a.handlers:
                st = [s for s in ast.walk(h) if isinstance(s, ast.Assign) and any(U(t) == 'self.client.state' for t in s.targets)]
                ck.ob('R4', ex.qn, 'exception handler of execute() resets the state and returns an error object',
                      bool(st) and U(st[-1].value).endswith('TRANSACTION_COMPLETE') and any(isinstance(s, ast.Return) and s.value is not None for s in ast.walk(h)),
                      detail='handler-state', loc=cx.floc(ex, h))
    tr = cx.method(tm, '_transact')
    hs = [h for t in ast.walk(tr.node) if isinstance(t, ast.Try) for h in t.handlers]
    ck.ob('R4', tr.qn, '_transact has an exception handler', bool(hs), detail='no-handler', loc=cx.floc(tr))
    # every handled transport fault closes the client: decided on the enumerated handler paths (aliases of self.client resolved)
    def may_fault(node, frame, path):
        if isinstance(node, ast.Call) and callee_name(node) in ('_send', '_recv') and isinstance(node.func, ast.Attribute) and U(node.func.value) == 'self':
            return ['socket.error', 'ModbusIOException', 'InvalidMessageReceivedException']
        return []
    nh = 0
    for p in cx.enum(tr, tm, resolver=cx.tx_helper_resolver(), may_raise=may_fault, max_depth=1):
        annotate(p, heap=False)
        hev = [i for i, e in enumerate(p.ev) if e.kind == 'handler']
        if not hev:
            continue
        nh += 1
        closes = [e for e in p.ev[hev[0]:] if e.kind == 'call' and U(e._sub.func) == 'self.client.close']
        exc = p.ev[hev[0]].b
        ck.ob('R4', tr.qn, 'handler of %s closes the client (next call reconnects)' % exc, bool(closes), detail='handler-does-not-close', loc=cx.floc(tr, p.ev[hev[0]].node),
              message='_transact swallows a transport fault (%s) without closing the connection: a late reply can be read by the next transaction' % exc)
    ck.ob('R4', tr.qn, 'transport faults are handled inside _transact', nh > 0, detail='no-fault-handler-path', loc=cx.floc(tr))
    from ..paths import handler_names
    # the handlers of one try statement together (one clause per class or one clause for all): each fault class is caught by some clause
    for t_ in [t for t in ast.walk(tr.node) if isinstance(t, ast.Try) and t.handlers]:
        names = [nm for h in t_.handlers for nm in handler_names(h)]
        h = t_.handlers[0]
        for need in ('socket.error', 'ModbusIOException', 'InvalidMessageReceivedException'):
            ck.ob('R4', tr.qn, '%s is handled in _transact' % need, any(cx.hier.caught_by(need, [nm]) for nm in names),
                  detail='unhandled %s' % need, loc=cx.floc(tr, h))


def r5_serial_flush(ck, cx):
    """Recovery on serial lines: left-over bytes of an earlier exchange (late, duplicated or noisy reply) are discarded before
    the next request is written -- on every path to the write, for every framing the serial client supports: the receive path
    reads the next reply by position, it cannot skip them."""
    ck.rule('R5', 'ModbusSerialClient._send drains the receive buffer before every write, whatever the framing (the only ways past the drain: nothing waiting, or in_waiting not implemented)')
    c = cx.idx.cls('pymodbus.client.sync.ModbusSerialClient')
    f = cx.method(c, '_send')
    ck.saw('functions', f.qn)

    def may_raise(node, frame, path):
        if isinstance(node, ast.Call) and isinstance(node.func, ast.Attribute) and node.func.attr in ('_in_waiting', 'inWaiting'):
            return ['NotImplementedError']
        return []
    n = 0
    # private helper methods of the client (a drain factored out of _send) are part of _send; _in_waiting stays a call (it is the
    # operation that may be unsupported)
    res = SelfResolver(cx.idx, stop=lambda fn_: fn_.cls is None or not fn_.name.startswith('_') or fn_.name.startswith('__') or fn_.name in ('_in_waiting', '_send', '_recv', '_wait_for_data'))
    for p in cx.enum(f, c, max_depth=2, may_raise=may_raise, resolver=res):
        annotate(p, heap=False)
        wr = [i for i, ev in enumerate(p.ev) if ev.kind == 'call' and callee_name(ev.node) == 'write' and 'socket' in U(ev._sub.func.value)]
        if not wr:
            continue
        n += 1
        before = p.ev[:wr[0]]
        drained = any(ev.kind == 'call' and callee_name(ev.node) in ('read', 'reset_input_buffer', 'flushInput') and 'socket' in U(ev._sub.func.value)
                      for ev in before)
        nothing = any(ev.kind == 'cond' and ev.a is False and U(ev._sub).replace(' ', '') in ('self._in_waiting()', 'self._in_waiting()>0', 'self._in_waiting()!=0')
                      for ev in before)
        unsupported = any(ev.kind == 'handler' and 'NotImplementedError' in str(ev.a) + str(ev.b) for ev in before)
        why = [(U(ev._sub)[:50], ev.a) for ev in before if ev.kind == 'cond' and 'in_waiting' not in U(ev._sub) and 'isEnabledFor' not in U(ev._sub)]
        ck.ob('R5', f.qn, 'the write is preceded by a drain of the receive buffer (or nothing was waiting / in_waiting unsupported)',
              drained or nothing or unsupported, detail='write-without-drain %s' % sorted(set(map(str, why)))[:3], loc=cx.floc(f),
              message='ModbusSerialClient._send can write the request without discarding stale input (conditions on the path: %s): a left-over '
                      'frame is then taken as the reply to this request' % why)
    ck.floor('R5', n, 2, 'paths to the serial write')


def r6_short_first_read_is_a_fault(ck, cx, rule='R6'):
    """_recv (length-prefixed mode): after the first, fixed-size read every continuing path has established
    len(first read) == min_size; anything else -- an empty read on a timeout included -- raises, which is what makes
    _transact close the connection so that a late reply cannot be taken for the answer to the next request."""
    ck.rule(rule, '_recv: a first read that is not exactly min_size bytes long (empty included) raises InvalidMessageReceivedException')
    from ..sym import constraints as _cons
    from ..txmodel import TxShape
    tm = cx.idx.cls('pymodbus.transaction.ModbusTransactionManager')
    f = cx.method(tm, '_recv')
    ck.saw('functions', f.qn)
    nz = cx.nz(f.mod, tm)
    full = f.params[2]
    n = 0
    for p in cx.enum(f, tm, max_depth=0, consts={full: False}, max_paths=400000):
        if p.exit and p.exit[0] == 'exc':
            continue
        annotate(p, heap=False)
        if contradictory(p):
            continue
        reads = [i for i, e in enumerate(p.ev) if e.kind == 'call' and callee_name(e.node) == 'recvPacket']
        if not reads:
            continue
        n += 1
        est = False
        for e in p.ev[reads[0]:]:
            if e.kind != 'cond':
                continue
            try:
                cs = _cons(e._sub, e.a, nz)
            except Exception:
                cs = []
            for c in cs:
                if c[0] == 'eq' and any(len(k) == 1 and k[0].startswith('len(') and 'recvPacket' in k[0] for k in c[1].t):
                    est = True
        ck.ob(rule, f.qn, 'a continuing path has established len(first read) == min_size', est, detail='short-first-read-continues', loc=cx.floc(f),
              message='_recv can go on after a first read that is shorter than min_size (for instance empty, on a timeout) without raising: _transact '
                      'then leaves the connection open and the late reply is read as the answer to the next request')
    ck.floor(rule, n, 4, 'non-raising paths of _recv in length-prefixed mode')


def r7_fixed_time_budget(ck, cx):
    """The polling loops of the sync clients are bounded by a time budget that starts once: inside the loop neither the
    reference the loop test reads (start) nor a deadline computed from the timeout (end) is assigned again.  Whether the
    clock calls themselves return is not decided."""
    ck.rule('R7', 'the time budget of a client polling loop is fixed before the loop: its start / deadline variable is not reassigned inside the loop')
    n = 0
    for cqn, fname in (('pymodbus.client.sync.ModbusSerialClient', '_wait_for_data'), ('pymodbus.client.sync.ModbusTcpClient', '_recv')):
        c = cx.idx.cls(cqn)
        f = cx.method(c, fname)
        ck.saw('functions', f.qn)
        for loop in [x for x in ast.walk(f.node) if isinstance(x, ast.While)]:
            inside = {id(x) for x in ast.walk(loop)}
            refs = {x.id for x in ast.walk(loop.test) if isinstance(x, ast.Name)}
            # a loop test written as a call of a local function reads that function's free variables
            for ld in ast.walk(f.node):
                if isinstance(ld, (ast.FunctionDef, ast.Lambda)) and ld is not f.node and (
                        (isinstance(ld, ast.FunctionDef) and ld.name in refs) or
                        any(isinstance(a2, ast.Assign) and a2.value is ld and any(isinstance(t2, ast.Name) and t2.id in refs for t2 in a2.targets) for a2 in ast.walk(f.node))):
                    refs |= {x.id for x in ast.walk(ld) if isinstance(x, ast.Name)}
            for a in ast.walk(f.node):
                if isinstance(a, ast.Assign) and id(a) not in inside and a.lineno < loop.lineno and 'timeout' in U(a.value) and not isinstance(a.value, (ast.Call, ast.Lambda)):
                    refs |= {t.id for t in a.targets if isinstance(t, ast.Name)}
            # only time references: names whose binding before the loop involves the clock
            clocked = set()
            for a in ast.walk(f.node):
                if isinstance(a, ast.Assign) and id(a) not in inside and a.lineno < loop.lineno and any(isinstance(t, ast.Name) for t in a.targets):
                    if any(isinstance(x, ast.Call) and U(x.func) in ('time.time', 'time.monotonic') for x in ast.walk(a.value)) or \
                            any(isinstance(x, ast.Name) and x.id in clocked for x in ast.walk(a.value)):
                        clocked |= {t.id for t in a.targets if isinstance(t, ast.Name)}
            # `now` variables are re-read every iteration by design: they are the ones compared AGAINST the reference
            now_vars = {t.id for a in ast.walk(loop) if isinstance(a, ast.Assign) and isinstance(a.value, ast.Call) and U(a.value.func) in ('time.time', 'time.monotonic')
                        for t in a.targets if isinstance(t, ast.Name)} - {x.id for x in ast.walk(loop.test) if isinstance(x, ast.Name)}
            refs = (refs & clocked) - now_vars
            for r in sorted(refs):
                n += 1
                again = [a for a in ast.walk(loop) if isinstance(a, (ast.Assign, ast.AugAssign)) and any(
                    isinstance(t, ast.Name) and t.id == r for t in (a.targets if isinstance(a, ast.Assign) else [a.target]))]
                ck.ob('R7', f.qn, 'time reference `%s` is not reassigned inside the polling loop' % r, not again,
                      detail='time-budget-restarted %s' % r, loc=cx.floc(f, again[0]) if again else cx.floc(f),
                      message='%s restarts its time budget inside the loop (`%s`): a line that keeps trickling bytes keeps the call from ever timing out'
                              % (f.qn, U(again[0])[:50] if again else ''))
    ck.floor('R7', n, 2, 'time references of client polling loops')


def r8_send_wait_loop_progress(ck, cx):
    """RTU sendPacket waits for the client state to become IDLE.  Every iteration of that loop either sets the state to IDLE
    itself or is an iteration of the deadline branch (a comparison of the clock with the deadline taken before the loop,
    which eventually fires): an iteration that does neither can repeat forever."""
    ck.rule('R8', 'the state-wait loop of the RTU sendPacket makes progress in every iteration: it sets the awaited state or is waiting on the deadline')
    c = cx.idx.cls('pymodbus.framer.rtu_framer.ModbusRtuFramer')
    f = cx.method(c, 'sendPacket')
    ck.saw('functions', f.qn)
    loops = [x for x in ast.walk(f.node) if isinstance(x, ast.While)]
    n = 0
    for loop in loops:
        awaited = [x for x in ast.walk(loop.test) if isinstance(x, ast.Attribute) and x.attr == 'state']
        if not awaited:
            continue
        target = U(awaited[0])
        deadline_vars = {t.id for a in ast.walk(f.node) if isinstance(a, ast.Assign) and a.lineno < loop.lineno and 'timeout' in U(a.value)
                         for t in a.targets if isinstance(t, ast.Name)}
        for p in cx.enum_region(f, c, stmts=loop.body, max_depth=0):
            if p.exit is not None and (p.exit == 'break' or (isinstance(p.exit, tuple) and p.exit[0] in ('return', 'exc'))):
                continue
            n += 1
            sets = any(e.kind == 'assign' and U(e.a) == target for e in p.ev)
            waits = any(e.kind == 'cond' and ('time.time()' in U(e.node) or 'monotonic()' in U(e.node)) and
                        any(isinstance(x, ast.Name) and x.id in deadline_vars for x in ast.walk(e.node)) for e in p.ev)
            conds = [(U(e.node)[:50], e.a) for e in p.ev if e.kind == 'cond']
            ck.ob('R8', f.qn, 'iteration sets %s or is waiting on the deadline' % target, sets or waits,
                  detail='wait-loop-iteration-without-progress %s' % conds[:3], loc=cx.floc(f, loop),
                  message='RTU sendPacket: an iteration of `while %s` can end without changing %s and without consulting the deadline (%s): '
                          'the call to send never returns' % (U(loop.test)[:50], target, conds[:3]))
    ck.floor('R8', n, 3, 'iterations of the state-wait loop')


def r10_faults_propagate_from_transport_methods(ck, cx):
    """_transact owns close-and-report: it closes the client and returns an error result when _send / _recv RAISE.  A transport
    method that swallows the fault, closes the socket itself and returns normally lets _transact go on to _recv, which then raises a
    ConnectionException nothing on the way up catches."""
    ck.rule('R10', 'the clients\' _send / _recv never close the socket on a path that returns normally: a transport fault reaches _transact as an exception')
    n = 0

    def mr(node, frame, path):
        if isinstance(node, ast.Call) and isinstance(node.func, ast.Attribute) and node.func.attr in ('send', 'sendto', 'recv', 'recvfrom', 'read', 'write') \
                and 'socket' in U(node.func.value):
            return ['socket.error']
        return []
    for cqn in ('pymodbus.client.sync.ModbusTcpClient', 'pymodbus.client.sync.ModbusTlsClient', 'pymodbus.client.sync.ModbusUdpClient',
                'pymodbus.client.sync.ModbusSerialClient'):
        c = cx.idx.cls(cqn)
        for name in ('_send', '_recv'):
            f = cx.idx.find_method(c, name)
            if f is None:
                continue
            ck.saw('functions', f.qn)
            for p in cx.enum(f, c, max_depth=0, may_raise=mr):
                if p.exit and p.exit[0] == 'exc':
                    continue
                n += 1
                closes = [e for e in p.ev if (e.kind == 'call' and U(e.node.func) == 'self.close') or
                          (e.kind == 'assign' and U(e.a) == 'self.socket' and isinstance(e.node.value, ast.Constant) and e.node.value.value is None)]
                ck.ob('R10', f.qn, 'no close() on a normally returning path', not closes, detail='closes-and-returns', loc=cx.floc(f, closes[0].node) if closes else cx.floc(f),
                      message='%s can close the socket and still return normally: the transaction goes on to read from a closed client and '
                              'ConnectionException escapes the client call instead of an error result' % f.qn)
    ck.floor('R10', n, 8, 'normally returning paths of the transport methods')


def _hdr_key(n):
    """self._header['k'] -> 'k' (constant key), else None"""
    if isinstance(n, ast.Subscript) and isinstance(n.value, ast.Attribute) and U(n.value) == 'self._header':
        k = n.slice
        if isinstance(k, ast.Constant) and isinstance(k.value, str):
            return k.value
    return None


def header_literals(cx, cls):
    """every whole-object assignment to self._header in the class: (function, node, key set or None when not a dict display)"""
    out = []
    for k in cx.idx.mro(cls):
        for fn in k.methods.values():
            if cx.idx.find_method(cls, fn.name) is not fn:
                continue
            for n in ast.walk(fn.node):
                v = None
                if isinstance(n, ast.Assign):
                    for t in n.targets:
                        if isinstance(t, ast.Attribute) and U(t) == 'self._header':
                            v = n.value
                        elif isinstance(t, (ast.Tuple, ast.List)) and isinstance(n.value, (ast.Tuple, ast.List)) and len(t.elts) == len(n.value.elts):
                            for a_, b_ in zip(t.elts, n.value.elts):
                                if isinstance(a_, ast.Attribute) and U(a_) == 'self._header':
                                    v = b_
                if v is not None:
                    keys = None
                    inl = cx.pure_inline_call(v, fn.mod, k) if isinstance(v, ast.Call) else None
                    if inl is not None:
                        v = inl         # a private straight-line helper that returns the blank header
                    if isinstance(v, ast.Dict) and all(isinstance(x, ast.Constant) for x in v.keys):
                        keys = frozenset(x.value for x in v.keys)
                    elif isinstance(v, ast.Call) and callee_name(v) == 'dict' and not v.args:
                        keys = frozenset(kw.arg for kw in v.keywords if kw.arg)
                    else:
                        # an input-free expression that folds to a dict: dict(CONSTANT_PAIRS), dict.fromkeys(KEYS, 0), a helper that
                        # returns one of these
                        folded = cx.ce.try_ev(v, fn.mod, k, default=None)
                        if isinstance(folded, dict) and all(isinstance(x, str) for x in folded):
                            keys = frozenset(folded)
                    out.append((fn, n, keys))
    return out


def r11_header_fields_present(ck, cx, rule='R11'):
    """The framers keep the parsed header in a dict and index it with constant keys.  A key that is absent where it is read raises
    KeyError, which nothing between processIncomingPacket and the caller of the client catches: the call raises instead of returning
    an error object.  Definite-assignment analysis with EXACT key sets over the paths of processIncomingPacket (called the way the
    transaction manager calls it: no keyword arguments): the possible entry states are the key sets of every whole-dict assignment
    in the class (constructor, resetFrame, advanceFrame all leave the framer in an entry state), closed under the exit states of
    the normally returning paths; `self._header` used as a truth value is decided from the key set."""
    ck.rule(rule, 'every constant-key read of the framer\'s header dict happens where the key is present, for every key set the framer can hold on entry (the whole-dict assignments of the class, closed under the exits of processIncomingPacket)')
    n = 0
    SKIP = ('loop', 'handler', 'finally', 'leave', 'enter')

    def is_hdr(x):
        return isinstance(x, ast.Attribute) and U(x) == 'self._header'

    def hdr_truth(test, keys):
        """truth value of a test that is the header dict itself (or its negation), else None"""
        if is_hdr(test):
            return bool(keys)
        if isinstance(test, ast.UnaryOp) and isinstance(test.op, ast.Not) and is_hdr(test.operand):
            return not keys
        return None

    def reads_of(node, keys, out):
        """constant-key loads in evaluation order, honouring short-circuit on the header's own truth value"""
        if isinstance(node, ast.BoolOp):
            for v in node.values:
                reads_of(v, keys, out)
                t = hdr_truth(v, keys)
                if t is not None and ((isinstance(node.op, ast.And) and not t) or (isinstance(node.op, ast.Or) and t)):
                    return
            return
        k = _hdr_key(node)
        if k is not None and isinstance(node.ctx, ast.Load):
            out.append((k, node))
        for c in ast.iter_child_nodes(node):
            reads_of(c, keys, out)

    for kind in sorted(FRAMER_CLASSES):
        cls, f, fps = framer_paths(cx, kind, default_kwargs=True)
        lits = header_literals(cx, cls)
        if not lits:
            continue
        ck.saw('functions', f.qn)
        unknown = [(fn, node) for fn, node, keys in lits if keys is None]
        for fn, node in unknown:
            ck.ob(rule, fn.qn, 'self._header is only ever assigned a dict display', False, detail='header-assigned-non-literal',
                  loc=cx.floc(fn, node), message='%s assigns self._header something other than a dict display: its keys are not decidable' % fn.qn)
        entries = {keys for fn, node, keys in lits if keys is not None}

        def walk(fp, start, report):
            """-> exit key set, or None when the path is infeasible for this entry state"""
            d = set(start)
            for ev in fp.path.ev:
                node = ev.node
                if ev.kind in SKIP or not isinstance(node, ast.AST) or isinstance(node, (ast.FunctionDef, ast.ClassDef)):
                    continue
                if ev.kind == 'cond':
                    t = hdr_truth(node, d)
                    if t is not None and t != ev.a:
                        return None
                reads, whole, stores = [], None, []
                if ev.kind == 'assign' and isinstance(node, ast.Assign):
                    # one event per target: the target and the value with local aliases of the header substituted
                    val = getattr(ev, '_sub', None)
                    val = val if isinstance(val, ast.AST) else node.value
                    tgt = getattr(ev, '_subt', None)
                    tgt = tgt if isinstance(tgt, ast.AST) else ev.a
                    prev_same = any(e2 is not ev and e2.kind == 'assign' and e2.node is node for e2 in fp.path.ev[:fp.path.ev.index(ev)])
                    if not prev_same:
                        reads_of(node.value if len(node.targets) > 1 or isinstance(node.targets[0], (ast.Tuple, ast.List)) else val, d, reads)
                    tl = list(tgt.elts) if isinstance(tgt, (ast.Tuple, ast.List)) else [tgt]
                    vl = list(val.elts) if isinstance(tgt, (ast.Tuple, ast.List)) and isinstance(val, (ast.Tuple, ast.List)) and len(val.elts) == len(tl) else None
                    for ti, t in enumerate(tl):
                        if is_hdr(t):
                            v = vl[ti] if vl is not None else (val if len(tl) == 1 else None)
                            if isinstance(v, ast.Call) and ev.frame.func is not None:
                                inl = cx.pure_inline_call(v, ev.frame.func.mod, ev.frame.cls)
                                if inl is not None:
                                    v = inl
                            if isinstance(v, ast.Dict) and all(isinstance(x, ast.Constant) for x in v.keys):
                                whole = frozenset(x.value for x in v.keys)
                            else:
                                folded = cx.ce.try_ev(v, ev.frame.func.mod, ev.frame.cls, default=None) if (ev.frame.func is not None and v is not None) else None
                                whole = frozenset(folded) if isinstance(folded, dict) else frozenset()
                        k = _hdr_key(t)
                        if k is not None:
                            stores.append(k)
                        elif isinstance(t, ast.Subscript):
                            reads_of(t.slice, d, reads)
                elif ev.kind == 'aug':
                    reads_of(node, d, reads)
                    k = _hdr_key(getattr(node, 'target', None))
                    if k is not None:
                        reads.append((k, node.target))
                else:
                    sub = getattr(ev, '_sub', None)
                    reads_of(sub if isinstance(sub, ast.AST) and ev.kind in ('cond', 'call', 'return') else node, d, reads)
                for k, x in reads:
                    if k not in d:
                        report(ev, k, x, start)
                if whole is not None:
                    d = set(whole)
                d.update(stores)
            return frozenset(d)
        for _ in range(8):
            new = set(entries)
            for fp in fps:
                if fp.raised is not None or (fp.exit and fp.exit[0] == 'exc'):
                    continue        # exceptional exits are R3's business
                for e in entries:
                    x = walk(fp, e, lambda *a: None)
                    if x is not None:
                        new.add(x)
            if new == entries:
                break
            entries = new
        bad, allreads = {}, {}

        def rep(ev, k, x, start):
            bad.setdefault((ev.frame.qn, k), (ev, x, start))
        for fp in fps:
            for e in sorted(entries, key=sorted):
                walk(fp, e, rep)
            for ev in fp.path.ev:
                if isinstance(ev.node, ast.AST) and ev.kind not in SKIP:
                    for x in ast.walk(ev.node):
                        k = _hdr_key(x)
                        if k is not None and isinstance(x.ctx, ast.Load):
                            allreads.setdefault((ev.frame.qn, k), ev)
        states = sorted(sorted(e) for e in entries)
        for (qn, k), ev0 in sorted(allreads.items(), key=lambda kv: kv[0]):
            n += 1
            hit = bad.get((qn, k))
            fn = (hit[0] if hit else ev0).frame.func or f
            ck.ob(rule, qn, 'header[%r] is present where it is read, for each entry state of %s' % (k, states), hit is None,
                  detail='header-key-may-be-absent %s' % k, loc=cx.floc(fn, hit[1]) if hit else cx.floc(fn),
                  message='%s framer: %s reads self._header[%r] on a path of processIncomingPacket where the key does not exist when the framer '
                          'is entered holding the keys %s (a state one of its own whole-dict assignments establishes): KeyError escapes the '
                          'framer, so a client call raises instead of returning an error object'
                          % (kind, qn, k, sorted(hit[2]) if hit else ''))
    ck.floor(rule, n, 8, 'constant-key header reads on the paths of processIncomingPacket')



def r14_client_decoder_contains(ck, cx, rule='R14'):
    """The framers hand the frame body to ClientDecoder.decode outside any handler of their own, and the transaction manager calls
    the framer outside _transact's handlers.  What a reply's codec raises on a malformed body (struct.error from a short unpack,
    IndexError from a missing byte-count byte, whatever a registered custom class raises) therefore reaches the caller of the
    client unless ClientDecoder.decode itself contains it: every path of decode() on which the dispatch helper raises must end in a
    handler, whatever the exception class."""
    ck.rule(rule, 'ClientDecoder.decode contains every exception the reply codecs can raise (the dispatch helper is treated as raising an arbitrary Exception): no exceptional exit')
    d = cx.idx.cls('pymodbus.factory.ClientDecoder')
    f = cx.method(d, 'decode')
    ck.saw('functions', f.qn)

    def mr(node, frame, path):
        if isinstance(node, ast.Call) and isinstance(node.func, ast.Attribute) and U(node.func.value) == 'self' and node.func.attr not in ('decode',):
            return ['AnyException', 'struct.error', 'IndexError', 'ModbusException']
        return []
    # the premise, re-checked on every run: some framer calls decoder.decode() outside a catch-all handler of its own
    from ..paths import handler_names
    bare = []
    for kind, qn in sorted(FRAMER_CLASSES.items()):
        k = cx.idx.cls(qn)
        for fn in k.methods.values():
            for c in ast.walk(fn.node):
                if isinstance(c, ast.Call) and isinstance(c.func, ast.Attribute) and c.func.attr == 'decode' and U(c.func.value).endswith('decoder'):
                    enclosed = any(isinstance(a, ast.Try) and any(cx.hier.caught_by('AnyException', handler_names(h)) for h in a.handlers)
                                   and any(c in list(ast.walk(b)) for b in a.body) for a in _anc(c))
                    if not enclosed:
                        bare.append(fn.qn)
    ck.sample({'rule': rule, 'framer-calls-of-decoder.decode-outside-a-catch-all': sorted(set(bare))})
    if not bare:
        ck.ob(rule, f.qn, 'every framer encloses decoder.decode() in a catch-all handler of its own', True)
        ck.floor(rule, 1, 1, 'premise')
        return
    n = nraise = 0
    for p in cx.enum(f, d, resolver=lambda c, fr, pa: None, may_raise=mr, max_depth=0):
        n += 1
        if any(e.kind == 'raise' for e in p.ev):
            nraise += 1
        esc = p.exit[1] if (p.exit and p.exit[0] == 'exc') else None
        ck.ob(rule, f.qn, 'an exception raised while decoding a reply does not leave ClientDecoder.decode', esc is None,
              detail='decoder-lets-escape %s' % esc, loc=cx.floc(f),
              message='ClientDecoder.decode lets %s raised by the reply codec escape: the framer calls it outside any handler and the transaction manager calls '
                      'the framer outside _transact, so a framed but malformed reply makes the client call raise instead of returning an error object'
                      % ('an arbitrary exception' if esc == 'AnyException' else esc))
    ck.floor(rule, nraise, 2, 'raising paths of ClientDecoder.decode')



def r17_unknown_length_read_covers_an_adu(ck, cx, rule='R17'):
    """When the reply length cannot be predicted the datagram client reads Defaults.ReadSize bytes in one recvfrom(): a datagram longer
    than that is truncated by the kernel and the rest is gone -- a healthy exchange ends in an error object.  The largest legal reply
    ADU on the socket framing is 7 + 253 = 260 bytes."""
    ck.rule(rule, 'the fallback read size (Defaults.ReadSize) covers a maximum-size ADU of the socket framing (>= 260 bytes)')
    d = cx.idx.cls('pymodbus.constants.Defaults')
    v = cx.ce.try_ev(ast.Name(id='ReadSize', ctx=ast.Load()), d.mod, d, default=None)
    tm = cx.idx.cls('pymodbus.transaction.ModbusTransactionManager')
    uses = [n for f in tm.methods.values() for n in ast.walk(f.node) if isinstance(n, ast.Attribute) and n.attr == 'ReadSize']
    ck.ob(rule, d.qn, 'Defaults.ReadSize >= 260', not uses or (isinstance(v, int) and v >= 260), detail='fallback-read-size %s' % v, loc=d.loc,
          message='Defaults.ReadSize = %s, but the UDP client reads its reply with one recvfrom(ReadSize) when the length is not predicted: a reply '
                  'of up to 260 bytes (125 registers, 2000 coils) is truncated and the call returns an error object although the link is healthy' % v)
    ck.floor(rule, 1, 1, 'constant')


def run(ck, tier):
    cx = Ctx()
    ck.guard(r8_send_wait_loop_progress, ck, cx)
    ck.guard(r10_faults_propagate_from_transport_methods, ck, cx)
    ck.guard(r11_header_fields_present, ck, cx)
    from .c08 import r9_receive_accumulator_is_local
    ck.guard(r9_receive_accumulator_is_local, ck, cx, 'R9')
    ck.guard(r7_fixed_time_budget, ck, cx)
    ck.guard(r5_serial_flush, ck, cx)
    ck.guard(r6_short_first_read_is_a_fault, ck, cx)
    sh = TxShape(cx)
    ck.saw('functions', sh.ex.qn)
    ck.guard(r1_bound, ck, cx, sh)
    ck.guard(r2_table, ck, cx, sh)
    ck.guard(r3_escape, ck, cx, sh)
    ck.guard(r4_state, ck, cx, sh)
    ck.guard(r20_every_attempt_connects, ck, cx, sh)
    ck.guard(r23_decode_data_invents_nothing, ck, cx)
    ck.assume('wall-clock bounds of the transports\' blocking calls and _wait_for_data with timeout=None are not decided')
    ck.assume('that a following transaction returns the correct reply is not decided (C08 decides the pairing structure)')
    from .. import ownership as _own
    ck.guard(_own.rule_instance_owned, ck, cx, 'R12', _own.MANAGERS, "state of one client's transactions (silent units, pending replies) leaks into another client's calls", 3)
    from .. import loops as _loops
    from ..msgtables import registered_classes as _rc
    ck.guard(_loops.rule_cursor_loops, ck, cx, 'R13', _rc(cx)[1], 'the client call hangs inside the decoder on one malformed reply instead of returning an error object', 6)
    ck.guard(r14_client_decoder_contains, ck, cx)
    from .. import ownership as _own2
    ck.rule('R15', 'no unsound memoisation (a caching decorator on a method, or on a function that returns a mutable container) in the modules this property rests on')
    ck.guard(_own2.rule_no_unsafe_memo, ck, cx, 'R15', ('pymodbus.transaction', 'pymodbus.client.sync'), 'a value cached from an earlier transaction decides this one')
    from ..share import import_findings as _imp2
    ck.rule('R16', 'the client is ready for the next call after any fault: what an earlier exchange left in the framer is dropped before the next request goes out (shared with C08 R4)')
    _imp2(ck, 'C08', 'R16', ('R4',), 'one undecodable reply makes every later transaction on this client fail')
    ck.guard(r17_unknown_length_read_covers_an_adu, ck, cx)
    from .. import strtypes as _st
    ck.rule('R18', 'hexlify_packets, evaluated with the receive buffer on every reset / processing path outside any log-level guard, is total: what it joins is text')
    ck.guard(_st.rule_join_total, ck, cx, 'R18', ('pymodbus.utilities.hexlify_packets',), 'the client call raises instead of returning an error object')
    from .. import strtypes as _st2
    ck.rule('R19', 'the text of the library exceptions is built totally: a __str__ that concatenates an attribute is given text by every construction site')
    ck.guard(_st2.rule_exception_text_total, ck, cx, 'R19', 'formatting the caught exception raises inside the client call')
    ck.rule('R21', 'a reply that failed its check leaves nothing behind in the framer that mis-sizes the next reply: a cached header is reset whenever bytes are dropped from the front of the buffer (shared with C06 R6)')
    from .c06 import r6_header_cache_coherence as _r6h
    from ..framermodel import framer_paths as _fpaths
    for kind in ('tcp', 'rtu', 'ascii', 'binary'):
        kcls, kf, kfps = _fpaths(cx, kind)
        ck.guard(_r6h, ck, cx, kind, kcls, kf, kfps, 'R21')
    from .. import options as _opt
    ck.guard(_opt.rule_options_read_at_construction, ck, cx, 'R22', ('pymodbus.transaction', 'pymodbus.client.sync'), ('Retries', 'RetryOnEmpty', 'RetryOnInvalid', 'Backoff', 'Timeout', 'Strict'),
             'the retry policy / time budget the application configured is not the one the client runs with')
    return cx.idx
