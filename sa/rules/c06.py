"""C06 — framing is independent of how the byte stream is chunked (structural necessary conditions)."""
import ast

from ..common import Ctx, U, AnalysisError, callee_name
from ..framermodel import FRAMER_CLASSES, framer_paths, in_root_loop

TITLE = 'framing is independent of how the byte stream is chunked'
KINDS = ('tcp', 'rtu', 'ascii', 'binary')


def r1_loop(ck, cx, kind, cls, f, fps):
    dels = 0
    any_in_loop = any(in_root_loop(fp, d) for fp in fps for d in fp.deliveries)
    for fp in fps:
        for d in fp.deliveries:
            dels += 1
            # a trailing delivery after the frame loop (e.g. the error path once nothing more is ready) does not stop
            # the loop from delivering several frames; a delivery on a path that never met a loop does
            after_loop = any(i < d for i, kind, node in fp.loops)
            ok = in_root_loop(fp, d) or (after_loop and any_in_loop)
            ck.ob('R1', f.qn, 'delivery happens inside a loop of processIncomingPacket (several frames per read)', ok,
                  detail='delivery-outside-loop', loc=cx.floc(f),
                  message='%s framer delivers at most one frame per processIncomingPacket call: a second frame in the same read stays undelivered' % kind)
            # a checked frame is consumed by advancing past it: clearing the whole buffer in the delivering iteration throws away
            # the frames queued behind it
            marks = [i for i, k_, n_ in fp.loops if i < d]
            lo_i = marks[-1] if marks else 0
            cfs = [t for i, t in fp.truths.get('checkFrame', []) if lo_i <= i < d]       # the check of this very iteration
            if cfs and cfs[-1] is True:
                nxt = [i for i, k_, n_ in fp.loops if i > d]
                hi_i = nxt[0] if nxt else len(fp.path.ev)
                clears = [i for i, k_ in fp.shrinks if k_ == 'clear' and lo_i <= i <= hi_i]
                ck.ob('R1', f.qn, 'a delivered (checked) frame is consumed by advancing past it, not by clearing the buffer', not clears,
                      detail='delivery-clears-buffer', loc=cx.floc(f, fp.path.ev[clears[0]].node) if clears else cx.floc(f),
                      message='%s framer clears its whole buffer in the iteration that delivers a checked frame: the frames that arrived in the same read '
                              'behind it are lost' % kind)
            if ok and in_root_loop(fp, d) and not fp.absences:
                # the loop must be able to continue after a delivery: the delivering iteration ends at the back-edge, not at a break
                after = [k for i, k, n in fp.loops if i > d]
                ck.ob('R1', f.qn, 'loop continues after a delivery', bool(after) and after[0] == 'backedge',
                      detail='loop-exits-after-delivery', loc=cx.floc(f),
                      message='%s framer leaves its loop right after delivering one frame' % kind)
    # the same for a complete, checked frame that is rejected because it is addressed to another unit: only that frame goes
    for fp in fps:
        if fp.unit_reject is None or (fp.exit and fp.exit[0] == 'exc'):
            continue
        r0 = fp.unit_reject
        nxt = [i for i, k_, n_ in fp.loops if i > r0]
        hi_i = nxt[0] if nxt else len(fp.path.ev)
        if not any(True for i, k_, n_ in fp.loops if i < r0):
            continue        # no frame loop (RTU): one frame per call anyway (R1 above / known finding)
        clears = [i for i, k_ in fp.shrinks if k_ == 'clear' and r0 <= i <= hi_i]
        ck.ob('R1', f.qn, 'a frame for a foreign unit is skipped by advancing past it, not by clearing the buffer', not clears,
              detail='foreign-unit-reject-clears-buffer', loc=cx.floc(f, fp.path.ev[clears[0]].node) if clears else cx.floc(f),
              message='%s framer empties its whole buffer when it meets a valid frame for a unit it does not serve: a request for a served unit that '
                      'arrived in the same read behind it is lost' % kind)
        # ... and the loop goes on to the frames queued behind it (when nothing else ended the iteration: no data-absence outcome)
        if in_root_loop(fp, r0) and not [a for a in fp.absences if a[0] > r0]:
            ck.ob('R1', f.qn, 'loop continues after skipping a frame for a foreign unit', bool(nxt) and [k_ for i, k_, n_ in fp.loops if i > r0][0] == 'backedge',
                  detail='loop-exits-after-foreign-unit', loc=cx.floc(f, fp.path.ev[r0].node),
                  message='%s framer leaves its frame loop right after skipping a frame addressed to a unit it does not serve: frames for served units that arrived in the '
                          'same read behind it stay undelivered (one frame per read delivers them, the same bytes in one read do not)' % kind)
    ck.ob('R1', f.qn, 'framer has a delivery path', dels > 0, detail='no-delivery-path', loc=cx.floc(f))
    return dels


def r14_single_shot_skip_keeps_nothing(ck, cx, kind, cls, f, fps, rule='R14', why=''):
    """A framer that handles at most ONE frame per call (no frame loop: the RTU framer) looks at its buffer again only when the
    next read arrives.  If it skips a complete frame for a foreign unit by advancing past it, whatever arrived behind that frame in
    the same read stays buffered unprocessed; the next read then triggers the processing of the OLD frame, and from there on every
    request is answered one read late (with the response to the previous one).  Such a framer has to drop the remainder together
    with the skipped frame, or loop."""
    n = 0
    for fp in fps:
        if fp.unit_reject is None or (fp.exit and fp.exit[0] == 'exc'):
            continue
        r0 = fp.unit_reject
        if any(True for i, k_, n_ in fp.loops if i < r0):
            continue            # a frame loop goes on with the remainder (R1)
        n += 1
        after = [(i, k_) for i, k_ in fp.shrinks if i > r0]
        clears = [i for i, k_ in after if k_ == 'clear']
        ck.ob(rule, f.qn, 'one-frame-per-call framer: skipping a foreign frame leaves nothing buffered', bool(clears) or not after,
              detail='single-shot-skip-keeps-remainder', loc=cx.floc(f, fp.path.ev[r0].node),
              message='%s framer processes one frame per call, and after skipping a frame for a unit it does not serve it only advances past that frame: what arrived '
                      'behind it in the same read stays in the buffer unprocessed until the NEXT read, so from then on every request is handled one read late%s' % (kind, why))
    return n


def r2_incomplete(ck, cx, kind, cls, f, fps):
    n = 0
    for fp in fps:
        if not fp.absences:
            continue
        n += 1
        i0, (akind, atext) = fp.absences[0][0], fp.absences[0][1]
        if akind == 'delimiter-start':
            # no start delimiter anywhere in the buffer: the bytes are noise, dropping them is legitimate (C11)
            continue
        # garbage-skip slices happen *before* the absence outcome and are fine; anything after is a discard
        late = [s for s in fp.shrinks if s[0] > i0]
        ck.ob('R2', f.qn, 'incomplete data (%s) is retained, not discarded' % akind, not late,
              detail='discard-on-incomplete %s' % akind, loc=cx.floc(f),
              message='%s framer discards buffered bytes (%s) when a frame is merely incomplete (%s): a frame split across reads is lost'
                      % (kind, ','.join(k for _, k in late), atext))
        if fp.exit and fp.exit[0] == 'exc':
            ck.ob('R2', f.qn, 'no exception while a frame is merely incomplete', False,
                  detail='raise-on-incomplete %s' % fp.exit[1], loc=cx.floc(f),
                  message='%s framer raises %s when a frame is merely incomplete (%s)' % (kind, fp.exit[1], atext))
        late_del = [d for d in fp.deliveries if d > i0]
        ck.ob('R2', f.qn, 'nothing is delivered from incomplete data', not late_del, detail='deliver-on-incomplete %s' % akind,
              loc=cx.floc(f), message='%s framer delivers a message although the frame is incomplete (%s)' % (kind, atext))
    return n


def r3_header(ck, cx, kind, cls):
    """if any method branches on the truthiness of self._header, __init__ must give it the
    truthiness that resetFrame/advanceFrame give it"""
    tests = []
    for k in cx.idx.mro(cls):
        for fn in k.methods.values():
            for node in ast.walk(fn.node):
                cond = None
                if isinstance(node, (ast.If, ast.While)):
                    cond = node.test
                elif isinstance(node, ast.BoolOp):
                    for v in node.values:
                        if isinstance(v, ast.Attribute) and U(v) == 'self._header':
                            tests.append((fn, node))
                    continue
                if cond is not None:
                    t = cond
                    while isinstance(t, ast.UnaryOp) and isinstance(t.op, ast.Not):
                        t = t.operand
                    if isinstance(t, ast.Attribute) and U(t) == 'self._header':
                        tests.append((fn, node))
    vals = {}
    for name in ('__init__', 'resetFrame', 'advanceFrame'):
        fn = cx.idx.find_method(cls, name)
        if fn is None:
            continue
        from ..common import annotate
        for p in cx.enum(fn, cls, max_depth=2):
            if p.exit and p.exit[0] == 'exc':
                continue
            st = annotate(p, heap=True)
            hv = st.heap.get('self._header')
            if hv is None:
                continue
            v = cx.ce.try_ev(hv, fn.mod, cls, default='?')
            t = (bool(v) if v != '?' else '?')
            if t not in vals.setdefault(name, []):
                vals[name].append(t)
    if not tests:
        ck.ob('R3', cls.qn, 'no method branches on the truthiness of the header (nothing to compare)', True)
        return 0
    init = set(vals.get('__init__', []))
    later = set(vals.get('resetFrame', []) + vals.get('advanceFrame', []))
    ck.ob('R3', cls.qn, 'header truthiness after __init__ equals header truthiness after reset/advance', init == later and '?' not in init,
          detail='initial-header-truthiness init=%s reset=%s' % (sorted(map(str, init)), sorted(map(str, later))), loc=cls.loc,
          message='%s framer tests `self._header` for truth (%s) but starts with a %s header and resets to a %s one: '
                  'the first frame takes a different path than later ones' %
                  (kind, ', '.join(sorted(set(fn.name for fn, _ in tests))), 'non-empty' if True in init else 'empty',
                   'non-empty' if True in later else 'empty'))
    return len(tests)


def r4_escape(ck, cx, kind, cls, f, fps):
    n = 0
    for fp in fps:
        if fp.raised is None:
            continue
        exc = fp.raised[1]
        if exc not in ('IndexError', 'KeyError', 'struct.error'):
            continue
        n += 1
        escaped = fp.exit is not None and fp.exit[0] == 'exc'
        ck.ob('R4', f.qn, '%s raised in %s while sizing a partial frame is contained' % (exc, fp.raised[3]), not escaped,
              detail='escaping-%s-from %s' % (exc, fp.raised[3]), loc=cx.floc(f),
              message='%s framer: %s from %s escapes processIncomingPacket when the buffer holds only part of a frame' % (kind, exc, fp.raised[2]))
    return n


def r5_chunk_independent_control(ck, cx, kind, cls, f, fps, rule='R5', why=''):
    """after the chunk has been appended to the buffer, no decision may look at the chunk itself"""
    chunk = f.params[1]
    n = 0
    seen = set()
    for fp in fps:
        for ev in fp.path.ev:
            if ev.kind != 'cond':
                continue
            names = {x.id for x in ast.walk(ev._sub) if isinstance(x, ast.Name)}
            root_chunk = chunk in names and (ev.frame.fid == 0 or chunk not in (ev.frame.func.params if ev.frame.func else []))
            n += 1
            if root_chunk and U(ev._sub) not in seen:
                seen.add(U(ev._sub))
                ck.ob(rule, f.qn, 'no branch depends on the current chunk (only on the accumulated buffer)', False,
                      detail='decision-on-chunk %s' % U(ev._sub)[:60], loc=cx.floc(f, ev.node),
                      message='%s framer branches on `%s`, a property of the chunk just received: the same bytes cut differently take a different path%s' % (kind, U(ev._sub)[:80], why))
    ck.ob(rule, f.qn, 'branch conditions of the receive path were examined', n > 0, detail='no-conditions', loc=cx.floc(f))
    return n


def header_is_cached(cx, cls):
    """does isFrameReady() parse the header only when the cached one is empty (`if not self._header: populateHeader()`)?"""
    fn = cx.idx.find_method(cls, 'isFrameReady')
    if fn is None:
        return False
    for n in ast.walk(fn.node):
        if isinstance(n, ast.If):
            # any test on the cached header (its truthiness, a key of it, .get(key)) that decides whether the header is parsed again
            if 'self._header' in U(n.test) and any(isinstance(c, ast.Call) and callee_name(c) == 'populateHeader' for c in ast.walk(n)):
                return True
    return False


def r10_no_stale_buffer_slice(ck, cx, kind, cls, f, fps, rule='R10'):
    """A header field whose value is a SLICE of the receive buffer (its content depends on how many bytes had arrived when it was
    taken) must not be carried from one call to the next: the read boundary decides what it holds.  On every path of
    processIncomingPacket a read of such a field is preceded, in the same call, by the assignment that takes the slice."""
    from .c13 import _hdr_key
    sliced = {}
    for k in cx.idx.mro(cls):
        for fn in k.methods.values():
            if cx.idx.find_method(cls, fn.name) is not fn:
                continue
            for n in ast.walk(fn.node):
                if isinstance(n, ast.Assign) and len(n.targets) == 1:
                    key = _hdr_key(n.targets[0])
                    if key is not None and any(isinstance(x, ast.Subscript) and isinstance(x.slice, ast.Slice) and (x.slice.upper is not None or x.slice.lower is not None)
                                               and not isinstance(x.value, ast.Constant) for x in ast.walk(n.value)):
                        sliced[key] = fn
    if not sliced:
        return 0
    n = 0
    seen = set()
    for fp in fps:
        fresh = set()
        for ev in fp.path.ev:
            node = ev.node
            if not isinstance(node, ast.AST) or ev.kind in ('loop', 'handler', 'finally', 'leave', 'enter'):
                continue
            reads = []
            if ev.kind == 'assign' and isinstance(node, ast.Assign):
                scan = [node.value]
            else:
                scan = [node]
            for root in scan:
                for x in ast.walk(root):
                    k = _hdr_key(x)
                    if k in sliced and isinstance(getattr(x, 'ctx', None), ast.Load):
                        reads.append((k, x))
                    if isinstance(x, ast.Call) and isinstance(x.func, ast.Attribute) and x.func.attr == 'get' and U(x.func.value) == 'self._header' \
                            and x.args and isinstance(x.args[0], ast.Constant) and x.args[0].value in sliced:
                        reads.append((x.args[0].value, x))
            for k, x in reads:
                n += 1
                if k not in fresh and (ev.frame.qn, k) not in seen:
                    seen.add((ev.frame.qn, k))
                    ck.ob(rule, f.qn, 'header[%r] (a slice of the buffer) is taken in the call that reads it' % k, False,
                          detail='stale-buffer-slice %s in %s' % (k, ev.frame.qn.split('.')[-1]), loc=cx.floc(ev.frame.func or f, x),
                          message='%s framer: %s reads self._header[%r], a slice of the receive buffer taken by %s, on a path where it was not taken in this '
                                  'call: when the previous read ended inside that slice the cached value is short, and the frame that is now complete is '
                                  'judged by it (dropped or mis-checked) — the messages delivered depend on where the reads were cut'
                                  % (kind, ev.frame.qn, k, sliced[k].qn.split('.')[-1]))
            if ev.kind == 'assign' and isinstance(node, ast.Assign):
                for t in node.targets:
                    for el in (t.elts if isinstance(t, (ast.Tuple, ast.List)) else [t]):
                        k = _hdr_key(el)
                        if k is not None:
                            fresh.add(k)
                        elif isinstance(el, ast.Attribute) and U(el) == 'self._header':
                            fresh = set()
    if n and not seen:
        ck.ob(rule, f.qn, 'buffer-slice header fields are taken in the call that reads them', True)
    return n


def r6_header_cache_coherence(ck, cx, kind, cls, f, fps, rule='R6'):
    """When readiness is judged from a cached header, dropping bytes from the front of the buffer must invalidate the cache
    on the same path: otherwise the length of the frame that was dropped decides when the NEXT frame counts as complete"""
    if not header_is_cached(cx, cls):
        return 0
    n = 0
    for fp in fps:
        if not fp.shrinks or (fp.exit and fp.exit[0] == 'exc'):
            continue
        n += 1
        last = fp.shrinks[-1][0]
        resets = [i for i, ev in enumerate(fp.path.ev) if ev.kind == 'assign' and U(ev.a) == 'self._header' and i > last - 1]
        ck.ob(rule, f.qn, 'after bytes are dropped from the front of the buffer the cached header is reset', bool(resets),
              detail='stale-header-after-drop', loc=cx.floc(f, fp.path.ev[last].node),
              message='%s framer drops bytes from the front of its buffer (%s) but keeps the cached header: isFrameReady() then judges the next '
                      'frame by the length of the one that was dropped' % (kind, U(fp.path.ev[last].node)[:60]))
    return n


def r7_add_appends(ck, cx, kind, cls, rule='R7'):
    """addToFrame(chunk): buffer' = buffer + chunk on every path -- bytes leave the buffer only through the frame logic"""
    from ..common import annotate
    fn = cx.method(cls, 'addToFrame')
    ck.saw('functions', fn.qn)
    msg = fn.params[1]
    n = 0
    for p in cx.enum(fn, cls, max_depth=1):
        if p.exit and p.exit[0] == 'exc':
            continue
        st = annotate(p, heap=True)
        v = st.heap.get('self._buffer')
        n += 1
        txt = U(v).replace(' ', '') if v is not None else None
        ck.ob(rule, fn.qn, 'addToFrame leaves buffer + chunk in the buffer', txt in ('self._buffer+%s' % msg, 'self._buffer+bytes(%s)' % msg),
              detail='add-not-append %s' % (txt or 'unchanged')[:60], loc=cx.floc(fn),
              message='%s framer: addToFrame can leave `%s` in the buffer instead of buffer + chunk: bytes are dropped or reordered outside the frame logic'
                      % (kind, U(v) if v is not None else 'the old buffer'))
    # ... and what processIncomingPacket hands to addToFrame is the chunk it was given
    pf = cx.method(cls, 'processIncomingPacket')
    dparam = pf.params[1]
    for p in cx.enum(pf, cls, max_depth=0):
        annotate(p, heap=False)
        for e in p.ev:
            if e.kind == 'call' and callee_name(e.node) == 'addToFrame' and e._sub.args:
                n += 1
                ck.ob(rule, pf.qn, 'the chunk added to the buffer is the chunk received, unmodified', U(e._sub.args[0]) == dparam,
                      detail='chunk-modified-before-add %s' % U(e._sub.args[0])[:40], loc=cx.floc(pf, e.node),
                      message='%s framer adds `%s` instead of the received bytes to its buffer: bytes of a valid frame (for instance a leading 0x00 unit id) '
                              'are lost depending on where the read boundary falls' % (kind, U(e._sub.args[0])[:60]))
    return n


def run(ck, tier):
    cx = Ctx()
    ck.rule('R7', 'addToFrame appends the chunk to the buffer and does nothing else to it')
    ck.rule('R10', 'a header field that holds a slice of the receive buffer is taken in the call that reads it, never carried over from a call that saw fewer bytes')
    ck.rule('R6', 'a framer that caches the parsed header resets it whenever it drops bytes from the front of the buffer')
    ck.rule('R1', 'every delivery site lies inside a loop of processIncomingPacket that continues after a delivery')
    ck.rule('R2', 'on every path that takes a data-absence outcome (length too small / delimiter not found) nothing is discarded, raised or delivered afterwards')
    ck.rule('R3', 'header truthiness after __init__ equals that after resetFrame/advanceFrame when code branches on it')
    ck.rule('R4', 'IndexError/KeyError/struct.error from sizing a partial frame cannot escape processIncomingPacket')
    ck.rule('R5', 'after the chunk is appended to the buffer no branch condition of the receive path mentions the chunk: decisions depend on the accumulated bytes only')
    npaths = nabs = ncache = 0
    for kind in KINDS:
        cls, f, fps = framer_paths(cx, kind)
        ck.saw('functions', f.qn)
        ck.saw('framers', kind)
        npaths += len(fps)
        ck.guard(r1_loop, ck, cx, kind, cls, f, fps)
        ck.guard(r14_single_shot_skip_keeps_nothing, ck, cx, kind, cls, f, fps, 'R1')
        nabs += ck.guard(r2_incomplete, ck, cx, kind, cls, f, fps) or 0
        ck.guard(r3_header, ck, cx, kind, cls)
        ck.guard(r4_escape, ck, cx, kind, cls, f, fps)
        ck.guard(r5_chunk_independent_control, ck, cx, kind, cls, f, fps)
        ncache += ck.guard(r6_header_cache_coherence, ck, cx, kind, cls, f, fps) or 0
        ck.guard(r7_add_appends, ck, cx, kind, cls)
        ck.guard(r10_no_stale_buffer_slice, ck, cx, kind, cls, f, fps)
        ck.sample({'framer': kind, 'paths': len(fps), 'absence-paths': sum(1 for fp in fps if fp.absences),
                   'delivery-paths': sum(1 for fp in fps if fp.deliveries)})
    ck.floor('R2', nabs, 8, 'data-absence paths over four framers')
    ck.rule('R8', 'several frames in one read: the garbage skip cuts at the first start delimiter (shared with C11 R3)')
    from ..share import import_findings
    import_findings(ck, 'C11', 'R8', ('R3',), 'a read that holds more than one frame delivers only the last one', detail_prefixes=('skip-not-to-first-delimiter',))
    ck.floor('R1', npaths, 100, 'processIncomingPacket paths')
    ck.floor('R6', ncache, 3, 'buffer-dropping paths of framers with a cached header')
    ck.assume('only explicit tests (len(buffer) comparisons, find() == -1) count as data-absence; short reads that are caught and turned into False are unclassified')
    ck.assume('equality of delivered message sequences over all chunkings is not decided; these are necessary structural conditions')
    from .. import ownership as _own
    ck.guard(_own.rule_instance_owned, ck, cx, 'R9', _own.FRAMERS, "the parsed header of one receiver's pending frame is overwritten by another receiver", 4)
    from .. import ownership as _own2
    ck.rule('R11', 'no unsound memoisation (a caching decorator on a method, or on a function that returns a mutable container) in the modules this property rests on')
    ck.guard(_own2.rule_no_unsafe_memo, ck, cx, 'R11', ('pymodbus.framer', 'pymodbus.framer.socket_framer', 'pymodbus.framer.rtu_framer', 'pymodbus.framer.ascii_framer', 'pymodbus.framer.binary_framer', 'pymodbus.framer.tls_framer', 'pymodbus.utilities'), 'a decision of the receiver is taken from a value cached for other bytes')
    from .. import strtypes as _st
    ck.rule('R12', 'hexlify_packets, evaluated with the receive buffer on every reset / processing path outside any log-level guard, is total: what it joins is text')
    ck.guard(_st.rule_join_total, ck, cx, 'R12', ('pymodbus.utilities.hexlify_packets',), 'an exception escapes the receive call although the frame is merely incomplete / over-long')
    from ..share import import_findings as _imp3
    ck.rule('R13', 'the RTU frame length oracle is a function of the frame bytes only (shared with C03 R3)')
    _imp3(ck, 'C03', 'R13', ('R3',), 'the messages delivered depend on how the stream was cut into reads', detail_prefixes=('rtuFrameSize-shape', 'size-from-buffered-length', 'custom-size-override', 'fifo-size', 'mei-size-shape', 'base-size-shape'))
    ck.rule('R15', 'whether a buffered complete frame is looked at does not depend on how its bytes arrived: the readiness test of the delimiter framers is monotone under appending (shared with C11 R11)')
    from .c11 import r11_readiness_is_monotone as _r11m
    ck.guard(_r11m, ck, cx, 'R15')
    from ..share import import_findings as _imp6
    ck.rule('R16', 'frames that share a read are all delivered: advanceFrame consumes exactly the frame that was handed on, not a byte more or less (shared with C03 R2)')
    _imp6(ck, 'C03', 'R16', ('R2',), 'the frame queued behind a delivered one in the same read is cut and lost, while one frame per read delivers both', detail_prefixes=('getFrame-range', 'advance'))
    return cx.idx
