"""C08 — synchronous client returns only the reply to its own request (structural conditions)."""
import ast

from ..common import Ctx, U, AnalysisError, callee_name, annotate, ret_expr
from ..txmodel import TxShape

TITLE = 'synchronous client returns only the reply to its own request'


def r8_packet_built_in_this_call(ck, cx):
    """_transact sends framer.buildPacket(request) evaluated in this very call: a frame cached on the request (or anywhere else)
    keeps the transaction id of an earlier execute()"""
    ck.rule('R8', 'the bytes handed to _send in _transact are the result of framer.buildPacket(request) evaluated in the same call')
    tm = cx.idx.cls('pymodbus.transaction.ModbusTransactionManager')
    f = cx.method(tm, '_transact')
    ck.saw('functions', f.qn)
    req = f.params[1]
    n = 0
    for p in cx.enum(f, tm, max_depth=0):
        annotate(p, heap=False)
        sends = [e for e in p.ev if e.kind == 'call' and callee_name(e.node) in ('_send', 'sendPacket')]
        for e in sends:
            n += 1
            a = e._sub.args[0] if e._sub.args else None
            ok = isinstance(a, ast.Call) and callee_name(a) == 'buildPacket' and a.args and U(a.args[0]) == req
            built_here = any(x.kind == 'call' and callee_name(x.node) == 'buildPacket' for x in p.ev[:p.ev.index(e)])
            ck.ob('R8', f.qn, 'sent bytes = buildPacket(request) of this call', ok and built_here, detail='sent-packet-source %s' % (U(a)[:50] if a is not None else None),
                  loc=cx.floc(f, e.node), message='_transact can send `%s` instead of a packet built from the request in this call: a request object that is '
                                                 'executed again goes out with the transaction id (and contents) of its first execution' % (U(a)[:70] if a is not None else None))
    ck.floor('R8', n, 1, 'send sites of _transact')


def r9_receive_accumulator_is_local(ck, cx, rule='R9'):
    """what ModbusTcpClient._recv returns is made of bytes received by this call only: it does not return (or build on) an
    instance attribute that survives a failed call"""
    ck.rule(rule, 'the TCP client read returns only bytes received in this call (no accumulator kept on the instance)')
    c = cx.idx.cls('pymodbus.client.sync.ModbusTcpClient')
    f = cx.method(c, '_recv')
    ck.saw('functions', f.qn)
    n = 0
    for p in cx.enum(f, c, max_depth=0):
        if p.exit and p.exit[0] == 'exc':
            continue
        annotate(p, heap=False)
        r = ret_expr(p)
        if r is None:
            continue
        n += 1
        attrs = sorted({U(x) for x in ast.walk(r) if isinstance(x, ast.Attribute) and U(x.value) == 'self' and x.attr not in ('socket', 'timeout')})
        ck.ob(rule, f.qn, 'returned bytes do not come from instance state', not attrs, detail='recv-returns-instance-state %s' % attrs, loc=cx.floc(f),
              message='ModbusTcpClient._recv returns `%s`, built on %s which outlives the call: bytes left by a call that failed half-way are '
                      'prepended to the reply of the next transaction' % (U(r)[:60], attrs))
    ck.floor(rule, n, 1, 'return paths of the TCP read')


def r6_unknown_size_read(ck, cx):
    """ModbusTcpClient._recv(size=None) -- used when the reply length is unknown (a unit that did not answer last time) --
    must keep reading until its deadline: a return as soon as *something* has arrived hands a late reply of the previous
    transaction to the framer alone, and the real reply, which follows, is never read."""
    ck.rule('R6', 'a read of unknown size (size=None) in the TCP client ends only on its deadline: no loop exit depends on data having arrived')
    c = cx.idx.cls('pymodbus.client.sync.ModbusTcpClient')
    f = cx.method(c, '_recv')
    ck.saw('functions', f.qn)
    size = f.params[1]
    loops = [n for n in ast.walk(f.node) if isinstance(n, ast.While)]
    if len(loops) != 1:
        raise AnalysisError('expected one receive loop in %s' % f.qn)
    loop = loops[0]
    # names that carry received data (or its amount)
    tainted, changed = set(), True
    def has_taint(e):
        return any((isinstance(x, ast.Call) and callee_name(x) == 'recv') or (isinstance(x, ast.Name) and x.id in tainted) for x in ast.walk(e))
    while changed:
        changed = False
        for n in ast.walk(loop):
            tg, val = [], None
            if isinstance(n, ast.Assign):
                tg, val = n.targets, n.value
            elif isinstance(n, ast.AugAssign):
                tg, val = [n.target], n.value
            elif isinstance(n, ast.Expr) and isinstance(n.value, ast.Call) and callee_name(n.value) in ('append', 'extend') and isinstance(n.value.func.value, ast.Name):
                tg, val = [n.value.func.value], n.value
            for t in tg:
                if isinstance(t, ast.Name) and val is not None and has_taint(val) and t.id not in tainted:
                    tainted.add(t.id)
                    changed = True
    tests = {x.id for x in ast.walk(loop.test) if isinstance(x, ast.Name)}
    n = 0
    for p in cx.enum(f, c, max_depth=0, consts={size: None}):
        annotate(p, heap=False)
        n += 1
        if not any(e.kind == 'loop' and e.a == 'enter' for e in p.ev) or (p.exit and p.exit[0] == 'exc'):
            continue
        i0 = [i for i, e in enumerate(p.ev) if e.kind == 'loop' and e.a == 'enter'][0]
        # one iteration is enumerated: the loop is left early on this path iff it ends with a break (or returns from inside the loop)
        left = any(e.kind == 'loop' and e.a == 'break' for e in p.ev[i0:]) or \
            not any(e.kind == 'loop' and e.a in ('backedge', 'break') for e in p.ev[i0:])
        conds = [(U(e.node), e.a) for e in p.ev[i0:] if e.kind == 'cond']
        data_conds = [cd for cd in conds if any(isinstance(x, ast.Name) and x.id in tainted for x in ast.walk(ast.parse(cd[0], mode='eval')))]
        # `if ready[0]:` decides whether to read at all, it is not an exit condition
        timed = {x.id for nd in ast.walk(f.node) if isinstance(nd, ast.Assign) and any(isinstance(c2, ast.Call) and U(c2.func) in ('time.time', 'time.monotonic')
                                                                                         for c2 in ast.walk(nd.value))
                 for t_ in nd.targets for x in ast.walk(t_) if isinstance(x, ast.Name)}
        deadline = [cd for cd in conds if cd[1] is True and any(isinstance(x, ast.Name) and x.id in timed for x in ast.walk(ast.parse(cd[0], mode='eval')))]
        if left:
            ck.ob('R6', f.qn, 'with size=None the loop is left only because the deadline has passed', bool(deadline),
                  detail='unknown-size-read-ends-on-data %s' % data_conds[:2], loc=cx.floc(f),
                  message='ModbusTcpClient._recv(size=None) can stop as soon as data has arrived (%s): a late reply to the previous request is '
                          'returned alone and the reply to this request is never read' % data_conds[:2])
        for e in p.ev:
            if e.kind in ('assign', 'aug') and isinstance(e.a, ast.Name) and e.a.id in tests and has_taint(e.node.value):
                ck.ob('R6', f.qn, 'with size=None the loop-test variable does not depend on received data', False,
                      detail='unknown-size-loop-test-tainted %s' % e.a.id, loc=cx.floc(f, e.node))
    ck.floor('R6', n, 2, 'loop-body paths with size=None')


def run(ck, tier):
    cx = Ctx()
    sh = TxShape(cx)
    tm, ex, req = sh.tm, sh.ex, sh.req
    ck.saw('functions', ex.qn)
    ck.rule('R1', 'pairing: the received message is filed under an id taken from the message itself, or its transaction id / function code is compared with the request\'s before it is returned')
    ck.rule('R2', 'the unit filter argument of processIncomingPacket is the request\'s unit id')
    ck.rule('R3', 'no fallback returns a stored message fetched under a key unrelated to the request')
    ck.rule('R4', 'stale bytes are cleared before the first transmission (framer.resetFrame when the buffer is non-empty)')
    npip = nret = 0
    forced_any = False
    # ---- region after the retry loop: framing of the received bytes and pickup of the reply
    for p in cx.enum_region(ex, tm, sh.after):
        annotate(p, heap=False)
        pips = [e for e in p.ev if e.kind == 'call' and callee_name(e.node) == 'processIncomingPacket']
        for e in pips:
            npip += 1
            sub = e._sub
            args = {}
            for name, a in zip(('data', 'callback', 'unit'), sub.args):
                args[name] = a
            for kw in sub.keywords:
                args[kw.arg] = kw.value
            cb = args.get('callback')
            cbt = U(cb) if cb is not None else ''
            forced = isinstance(cb, ast.Call) and callee_name(cb) == 'partial' and any(k.arg == 'tid' for k in cb.keywords)
            forced_any = forced_any or forced
            compares = [c for c in p.ev if c.kind == 'cond' and 'transaction_id' in U(c._sub) and req in U(c._sub)
                        and isinstance(c._sub, ast.Compare)]
            ck.ob('R1', ex.qn, 'reply is keyed by its own transaction id or compared with the request\'s', (not forced) or bool(compares),
                  detail='reply-filed-under-request-tid', loc=cx.floc(ex, e.node),
                  message='the received message is stored with a forced key (%s): a reply carrying any other transaction id is returned as the answer' % cbt[:70])
            fcs = [c for c in p.ev if c.kind == 'cond' and 'function_code' in U(c._sub) and isinstance(c._sub, ast.Compare)]
            ck.ob('R1', ex.qn, 'reply function code is compared with the request\'s', bool(fcs), detail='no-function-code-check', loc=cx.floc(ex, e.node),
                  message='the returned response is never checked against request.function_code (or | 0x80): a reply for another function is passed off as the answer')
            unit = args.get('unit')
            ck.ob('R2', ex.qn, 'unit filter is request.unit_id', unit is not None and U(unit) == req + '.unit_id',
                  detail='unit-filter %s' % (U(unit) if unit is not None else None), loc=cx.floc(ex, e.node),
                  message='processIncomingPacket is given unit=%s instead of the request\'s unit id' % (U(unit) if unit is not None else None))
            data = args.get('data')
            # the framed bytes must be the loop's receive result: a local assigned from _transact inside the loop
            dn = data.id if isinstance(data, ast.Name) else None
            from_tx = dn is not None and any(
                isinstance(n, ast.Assign) and isinstance(n.value, ast.Call) and callee_name(n.value) == '_transact' and
                any(isinstance(t, ast.Name) and t.id == dn for tt in n.targets for t in (tt.elts if isinstance(tt, ast.Tuple) else [tt]))
                for n in ast.walk(sh.loop))
            ck.ob('R1', ex.qn, 'the bytes framed are those received during this call', from_tx,
                  detail='framed-data %s' % (U(data)[:50] if data is not None else None), loc=cx.floc(ex, e.node))
        gets = [e for e in p.ev if e.kind == 'call' and callee_name(e.node) == 'getTransaction']
        for g in gets:
            nret += 1
            a = g._sub.args[0] if g._sub.args else (g._sub.keywords[0].value if g._sub.keywords else None)
            ok = a is not None and U(a) == req + '.transaction_id'
            if not ok and forced_any:
                # every message is filed under the request's id and popped again: no entry under a foreign key can exist,
                # the fallback is unreachable on this tree (it becomes live as soon as replies are keyed by their own id)
                ck.note('fallback getTransaction(%s) is unreachable while replies are filed under the request id' % U(a))
                ck.ob('R3', ex.qn, 'fallback fetch unreachable (no foreign keys can be present)', True)
                continue
            ck.ob('R3', ex.qn, 'stored reply fetched under request.transaction_id only', ok,
                  detail='foreign-fallback getTransaction(%s)' % (U(a) if a is not None else ''), loc=cx.floc(ex, g.node),
                  message='execute() falls back to getTransaction(%s): a message stored under an unrelated key is returned' % (U(a) if a is not None else ''))
    ck.floor('R1', npip, 1, 'processIncomingPacket calls after the retry loop')
    ck.floor('R3', nret, 1, 'getTransaction calls after the retry loop')
    # ---- region before the first transmission
    n4 = 0
    stops = [sh.loop] + [n._parent for n in ast.walk(ex.node) if isinstance(n, ast.Call) and callee_name(n) == '_transact'
                         and not any(x is sh.loop for x in _ancestors(n))]
    stops = [s for s in stops if isinstance(s, ast.stmt)]
    for p in cx.enum_region(ex, tm, stop=stops):
        if not (p.exit and p.exit[0] == 'stop'):
            continue
        n4 += 1
        annotate(p, heap=False)
        reset = any(e.kind == 'call' and callee_name(e.node) == 'resetFrame' for e in p.ev)
        empty = any(e.kind == 'cond' and e.a is False and 'framer._buffer' in U(e._sub) for e in p.ev)
        ck.ob('R4', ex.qn, 'framer buffer is empty or reset before transmitting', reset or empty, detail='stale-bytes-not-cleared', loc=cx.floc(ex),
              message='execute() can transmit while bytes of an earlier transaction are still in the framer buffer')
        tid = [e for e in p.ev if e.kind == 'assign' and U(e.a) == req + '.transaction_id']
        ck.ob('R1', ex.qn, 'request gets a fresh transaction id before transmission', bool(tid) and 'getNextTID' in U(tid[0].node.value),
              detail='no-fresh-tid', loc=cx.floc(ex))
    ck.floor('R4', n4, 2, 'paths to the first transmission')
    # the dictionary manager keys by the stored object's own id when no tid is forced
    a = cx.method(tm, 'addTransaction')
    ok = False
    for p in cx.enum(a, tm, max_depth=0):
        annotate(p)
        for ev in p.ev:
            if ev.kind == 'assign' and isinstance(ev.a, ast.Subscript) and U(ev.a.value) == 'self.transactions':
                ok = ok or (a.params[1] + '.transaction_id') in U(ev._subt.slice)
    ck.ob('R1', a.qn, 'addTransaction(msg) without tid files msg under msg.transaction_id', ok, detail='add-key', loc=cx.floc(a))
    # R5: a reply that has been picked up must leave the table, otherwise a later transaction that receives
    # nothing finds the older reply under a recycled / fallback key
    ck.rule('R5', 'the transaction table entry is removed when the reply is picked up (no older stored reply can answer a later request)')
    g = cx.method(tm, 'getTransaction')
    from ..common import removes_on_pickup
    okp, _why = removes_on_pickup(cx, g, tm)
    ck.ob('R5', g.qn, 'getTransaction(tid) removes the entry it returns', okp, detail='reply-not-removed', loc=cx.floc(g),
          message='DictTransactionManager.getTransaction leaves the reply in the table: a later transaction that receives nothing returns the older reply as its answer')
    ck.guard(r6_unknown_size_read, ck, cx)
    ck.guard(r8_packet_built_in_this_call, ck, cx)
    ck.guard(r9_receive_accumulator_is_local, ck, cx)
    ck.rule('R10', 'left-over bytes of an earlier exchange are discarded before the next request is written on a serial line (shared with C13 R5)')
    from .c13 import r5_serial_flush
    sub = type(ck)(ck.pid, ck.tier)
    sub.guard(r5_serial_flush, sub, cx)
    for o in sub.obligations:
        ck.obligations.append(('R10',) + tuple(o[1:]))
    for fnd in sub.findings:
        ck.finding('R10', fnd.construct, fnd.detail, fnd.loc, fnd.message)
    ck.broken += sub.broken
    from .c13 import r6_short_first_read_is_a_fault
    ck.guard(r6_short_first_read_is_a_fault, ck, cx, 'R7')
    ck.rule('R11', 'the RTU receiver sizes a reply with the class ClientDecoder.lookupPduClass gives for the function-code byte as received: error replies (code | 0x80) are sized as 5-byte exception frames (shared with C03 R3)')
    from .c03 import r3_lookup_pdu_class
    ck.guard(r3_lookup_pdu_class, ck, cx, 'R11', ('ClientDecoder',))
    ck.assume('correctness of decoded values is C01/C02; behaviour over all reply contents and histories is not decided')
    from .. import ownership as _own
    ck.guard(_own.rule_instance_owned, ck, cx, 'R12', _own.DECODERS[1:] + _own.MANAGERS, "a reply is decoded with a class another client registered (values the server never sent), or bookkeeping of another client's transactions leaks into this one", 4)
    from .c13 import r14_client_decoder_contains
    ck.guard(r14_client_decoder_contains, ck, cx, 'R13')
    from .. import ownership as _own2
    ck.rule('R14', 'no unsound memoisation (a caching decorator on a method, or on a function that returns a mutable container) in the modules this property rests on')
    ck.guard(_own2.rule_no_unsafe_memo, ck, cx, 'R14', ('pymodbus.transaction', 'pymodbus.client.sync'), 'a reply or frame cached from an earlier transaction is used for this one')
    from .. import ownership as _own3
    ck.guard(_own3.rule_instance_owned, ck, cx, 'R15', _own3.SYNC_CLIENTS, 'the receive buffer / transaction table of one client is used by another client of the process', 4, None, ('framer', 'transaction'))
    from ..share import import_findings as _imp2
    ck.rule('R16', 'the TCP receiver accepts every legal MBAP length 2..254: a well-formed maximum-size reply is returned to the caller (shared with C03 R2)')
    _imp2(ck, 'C03', 'R16', ('R2',), 'a well-formed reply of a conformant server is dropped and the caller gets an error object', detail_prefixes=('mbap-length',))
    from .c13 import r17_unknown_length_read_covers_an_adu
    ck.guard(r17_unknown_length_read_covers_an_adu, ck, cx, 'R18')
    from ..share import import_findings as _imp3
    ck.rule('R19', 'the RTU frame length oracle sizes every reply correctly (byte counts up to 250 are unsigned) (shared with C03 R3)')
    _imp3(ck, 'C03', 'R19', ('R3',), 'a well-formed reply of a conformant server fails the frame check and the caller gets an error object', detail_prefixes=('rtuFrameSize-shape', 'size-from-buffered-length', 'custom-size-override', 'fifo-size', 'mei-size-shape', 'base-size-shape'))
    ck.rule('R24', 'the synchronous client files replies in a table KEYED by transaction id (DictTransactionManager) on every constructor path: execute() stores the reply under the request id and fetches it by that id')
    bc = cx.idx.cls('pymodbus.client.sync.BaseModbusClient')
    bi = cx.method(bc, '__init__')
    ck.saw('functions', bi.qn)
    n24 = 0
    from ..common import annotate as _ann
    for p in cx.enum(bi, bc, max_depth=1):
        if p.exit and p.exit[0] == 'exc':
            continue
        _ann(p, heap=False)
        for e in p.ev:
            if e.kind == 'assign' and U(e.a) == 'self.transaction':
                n24 += 1
                v = getattr(e, '_sub', None) or e.node.value
                names = {callee_name(c_) for c_ in ast.walk(v) if isinstance(c_, ast.Call)}
                ck.ob('R24', bi.qn, 'self.transaction is a DictTransactionManager', 'DictTransactionManager' in names and 'FifoTransactionManager' not in names,
                      detail='sync-client-manager-not-keyed', loc=cx.floc(bi, e.node),
                      message='BaseModbusClient.__init__ can build `%s` as its transaction table: a FIFO table ignores the id under which execute() files and fetches the reply, so '
                              'when one read decodes two frames (a late reply in front of the real one) the caller gets the older frame, and every later call the reply of the call before'
                              % U(v)[:80])
    ck.floor('R24', n24, 1, 'constructor paths that bind self.transaction')
    ck.rule('R23', 'the reply picked up for the request is tested for truth before it is handed back (`if not response`): no response / exception class can be falsy (shared with C01 R14)')
    _imp3(ck, 'C01', 'R23', ('R14',), 'a reply that did arrive (an exception reply, an empty read result) is discarded by the transaction manager and the caller is handed a generic error instead of the reply to its request',
          detail_prefixes=('message-class-can-be-falsy',))
    ck.rule('R22', 'the reply is cut where ITS end delimiter is: header[len] of the delimiter framers is the position of the first end delimiter (shared with C03 R2) -- a late reply of another unit queued in front of the real one is a frame of its own')
    _imp3(ck, 'C03', 'R22', ('R2',), 'two replies that arrive in one read are taken for one frame, the check fails and the caller is handed an error instead of its reply', detail_prefixes=('header-len-source',))
    ck.rule('R20', 'an exchange that ended in a transport fault leaves no open connection behind: the reply that arrives late cannot be read as the answer to the next request (shared with C13 R4)')
    _imp3(ck, 'C13', 'R20', ('R4',), 'the late reply of the abandoned request is the first thing the next transaction reads: the caller is handed the answer to another request', detail_prefixes=('handler-does-not-close',))
    ck.rule('R21', 'the reply object handed to the caller carries the fields of the reply that was received: decode() of every response class reads the spec layout (shared with C01 R3)')
    _imp3(ck, 'C01', 'R21', ('R3',), 'the caller is handed a reply whose fields are not the ones the server sent for this request', construct_contains=('Response.decode',))
    return cx.idx


def _ancestors(n):
    while getattr(n, '_parent', None) is not None:
        n = n._parent
        yield n
