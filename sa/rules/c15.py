"""C15 — concurrent callers of one synchronous client are serialised (lock discipline)."""
import ast

from ..common import Ctx, U, AnalysisError, callee_name

TITLE = 'concurrent callers of one synchronous client are serialised'

TM = 'pymodbus.transaction.ModbusTransactionManager'
CLIENT_BASE = 'pymodbus.client.sync.BaseModbusClient'
MIXIN = 'pymodbus.client.common.ModbusClientMixin'
LOCK_CTORS = ('RLock', 'Lock', 'threading.RLock', 'threading.Lock')
BLOCKING = {'acquire', 'join', 'wait', 'wait_for', 'get'}     # while holding the lock (queue.get / cond.wait / thread.join)


def _is_logger(call):
    return U(call.func).startswith(('_logger.', 'logging.'))


def lock_attr(cx, tm):
    """(attribute name, assignment sites) of the lock created in __init__"""
    sites = []
    for k in cx.idx.mro(tm):
        for fn in k.methods.values():
            for n in ast.walk(fn.node):
                if isinstance(n, ast.Assign):
                    for t in n.targets:
                        if isinstance(t, ast.Attribute) and U(t.value) == 'self' and isinstance(n.value, ast.Call) and U(n.value.func) in LOCK_CTORS:
                            sites.append((t.attr, fn, n))
                        elif isinstance(t, (ast.Tuple, ast.List)) and isinstance(n.value, (ast.Tuple, ast.List)) and len(t.elts) == len(n.value.elts):
                            # self.a, self._lock = x, RLock()
                            for a_, b_ in zip(t.elts, n.value.elts):
                                if isinstance(a_, ast.Attribute) and U(a_.value) == 'self' and isinstance(b_, ast.Call) and U(b_.func) in LOCK_CTORS:
                                    sites.append((a_.attr, fn, n))
    return sites


def shared_state_effect(node):
    """does this statement touch state the lock protects or a transport?"""
    for n in ast.walk(node):
        if isinstance(n, ast.Call) and not _is_logger(n):
            return 'call ' + U(n.func)
        if isinstance(n, (ast.Assign, ast.AugAssign)):
            tg = n.targets if isinstance(n, ast.Assign) else [n.target]
            for t in tg:
                if isinstance(t, (ast.Attribute, ast.Subscript)):
                    return 'store ' + U(t)
    return None


def run(ck, tier):
    cx = Ctx()
    tm = cx.idx.cls(TM)
    ck.rule('R1', 'one lock, created once: the lock attribute is assigned only in __init__ from threading.RLock()/Lock()')
    ck.rule('R2', 'lock scope: every statement of execute() with a call or a store to shared state lies inside `with self.<lock>`')
    ck.rule('R3', 'who-may-call: transport / framer / transaction-table operations are reached from the request API only through the locked region')
    ck.rule('R4', 'no second lock, no blocking wait inside the locked region')
    sites = lock_attr(cx, tm)
    ck.ob('R1', tm.qn, 'transaction manager creates a lock', len(sites) >= 1, detail='no-lock-created', loc=tm.loc,
          message='ModbusTransactionManager creates no threading lock')
    names = sorted(set(s[0] for s in sites))
    for attr, fn, n in sites:
        ck.saw('functions', fn.qn)
        ck.ob('R1', fn.qn, 'lock %s is created in __init__' % attr, fn.name == '__init__', detail='lock-created-in %s' % fn.name, loc=cx.floc(fn, n),
              message='lock %s is (re)created in %s: callers do not share one lock' % (attr, fn.name))
    ck.ob('R1', tm.qn, 'exactly one lock attribute', len(names) == 1, detail='lock-attributes %s' % names, loc=tm.loc)
    lock = names[0] if names else '_transaction_lock'
    # any other assignment to the lock attribute
    for k in [tm] + cx.idx.subclasses(tm):
        for fn in k.methods.values():
            for n in ast.walk(fn.node):
                if isinstance(n, ast.Assign) and any(U(t) == 'self.' + lock for t in n.targets) and fn.name != '__init__':
                    ck.ob('R1', fn.qn, 'lock is never replaced', False, detail='lock-reassigned', loc=cx.floc(fn, n))
    # R2: scope
    ex = cx.method(tm, 'execute')
    ck.saw('functions', ex.qn)
    body = [s for s in ex.node.body if not (isinstance(s, ast.Expr) and isinstance(s.value, ast.Constant))]
    withs = [s for s in body if isinstance(s, ast.With) and any(U(i.context_expr) == 'self.' + lock for i in s.items)]
    ck.ob('R2', ex.qn, 'execute() holds self.%s in a with statement (released on all exits)' % lock, len(withs) == 1,
          detail='no-with-lock', loc=cx.floc(ex), message='execute() does not run under `with self.%s`' % lock)
    for s in body:
        if s in withs:
            continue
        eff = shared_state_effect(s)
        ck.ob('R2', ex.qn, 'statement outside the locked region has no effect on shared state', eff is None,
              detail='outside-lock %s' % (eff or ''), loc=cx.floc(ex, s),
              message='execute() performs `%s` outside the locked region' % (eff or ''))
    region = withs[0] if withs else None
    # the region must contain the id allocation, the transmit and the pickup
    if region is not None:
        inside = {callee_name(c) for c in ast.walk(region) if isinstance(c, ast.Call)}
        # private helpers of the manager called from the region run inside it: their calls count (transitively)
        grew = True
        while grew:
            grew = False
            for nm in sorted(inside):
                h = cx.idx.find_method(tm, nm) if isinstance(nm, str) and nm.startswith('_') and not nm.startswith('__') else None
                if h is not None and nm not in cx.TX_MODELLED:
                    more = {callee_name(c) for c in ast.walk(h.node) if isinstance(c, ast.Call)} - inside
                    if more:
                        inside |= more
                        grew = True
        for need in ('getNextTID', '_transact', 'processIncomingPacket', 'getTransaction'):
            ck.ob('R2', ex.qn, '%s happens inside the locked region' % need, need in inside, detail='not-in-region %s' % need, loc=cx.floc(ex),
                  message='%s is not called inside the locked region of execute()' % need)
    # R3: TM internals that touch the client are called only from execute (inside region) or from each other
    touching = set()
    for fn in tm.methods.values():
        if any(isinstance(n, ast.Attribute) and U(n).startswith('self.client') for n in ast.walk(fn.node)):
            touching.add(fn.name)
    callers = {}
    for k in [tm] + cx.idx.subclasses(tm):
        for fn in k.methods.values():
            for c in ast.walk(fn.node):
                if isinstance(c, ast.Call) and isinstance(c.func, ast.Attribute) and U(c.func.value) == 'self' and c.func.attr in touching:
                    callers.setdefault(c.func.attr, set()).add(fn.name)
    reach = {'execute'}
    changed = True
    while changed:
        changed = False
        for callee, cs in callers.items():
            if callee not in reach and cs and cs <= reach:
                reach.add(callee)
                changed = True
    for name in sorted(touching - {'execute', '__init__', '_set_adu_size', '_calculate_response_length', '_calculate_exception_length'}):
        ck.ob('R3', tm.qn + '.' + name, 'called only from the locked region', name in reach,
              detail='client-touching-method-called-from %s' % sorted(callers.get(name, [])), loc=tm.loc)
    # R3: the public request API reaches transport operations only through transaction.execute
    cb = cx.idx.cls(CLIENT_BASE)
    transport = set()
    for k in [cb] + cx.idx.subclasses(cb):
        for fn in k.methods.values():
            if any(isinstance(n, ast.Attribute) and U(n) == 'self.socket' for n in ast.walk(fn.node)):
                transport.add(fn.name)
    transport |= {'send', 'recv'}
    transport -= {'__init__', '__str__', '__repr__', 'is_socket_open', '_in_waiting', '_wait_for_data'}
    ck.sample({'rule': 'R3', 'transport-methods': sorted(transport), 'tm-methods-touching-client': sorted(touching)})
    api = [cx.method(cb, 'execute')] + list(cx.idx.cls(MIXIN).methods.values())
    n3 = 0
    # delegation is transitive through helpers of the API classes: a method delegates when it calls the locked execute or
    # another method of the same classes that does
    delegating = {'execute'} & set()
    selfcalls = {}
    for fn in api:
        selfcalls[fn.name] = {U(c.func) for c in ast.walk(fn.node) if isinstance(c, ast.Call) and isinstance(c.func, ast.Attribute)}
    grew = True
    while grew:
        grew = False
        for name, cs in selfcalls.items():
            if name not in delegating and (cs & {'self.transaction.execute', 'self.execute'} or any(('self.' + d) in cs for d in delegating if d != 'execute')):
                delegating.add(name)
                grew = True
    for fn in api:
        ck.saw('functions', fn.qn)
        for c in ast.walk(fn.node):
            if isinstance(c, ast.Call) and isinstance(c.func, ast.Attribute) and U(c.func.value) == 'self' and c.func.attr in transport:
                n3 += 1
                ck.ob('R3', fn.qn, 'request API does not touch the transport outside the transaction lock', False,
                      detail='unlocked-transport-call %s' % c.func.attr, loc=cx.floc(fn, c),
                      message='%s calls self.%s() before entering the transaction manager\'s lock: two first callers can both connect and overwrite self.socket' % (fn.qn, c.func.attr))
        ck.ob('R3', fn.qn, 'request API delegates to the locked execute', fn.name in delegating, detail='no-delegation', loc=cx.floc(fn))
    ck.floor('R3', len(api), 10, 'request API methods')
    # R3: the synchronous clients use their transaction manager only through its locked execute(): any other method of it
    # (_transact, _send, _recv, getNextTID, addTransaction, ...) called from the client side runs outside the lock
    nx = 0
    for mn in ('pymodbus.client.sync', 'pymodbus.client.common'):
        m = cx.idx.mod(mn)
        for fn in list(m.funcs.values()) + [x for k in m.classes.values() for x in k.methods.values()]:
            for c in ast.walk(fn.node):
                if isinstance(c, ast.Call) and isinstance(c.func, ast.Attribute) and U(c.func.value).endswith('.transaction'):
                    nx += 1
                    ck.ob('R3', fn.qn, 'sync client calls only transaction.execute / reset on its transaction manager', c.func.attr in ('execute', 'reset'),
                          detail='unlocked-manager-call %s' % c.func.attr, loc=cx.floc(fn, c),
                          message='%s calls transaction.%s() directly: that runs outside the transaction lock, so its frame can be written while another '
                                  'thread\'s transaction is between send and receive' % (fn.qn, c.func.attr))
    ck.floor('R3', nx, 1, 'transaction-manager calls in the sync client modules')
    # R3: connect() is called before the lock is taken (known finding above); on a client that is already connected it must therefore
    # be a pure test -- no read, write or select on the shared socket
    nc = 0
    for k in [cb] + cx.idx.subclasses(cb):
        fn = k.methods.get('connect')
        if fn is None:
            continue
        ck.saw('functions', fn.qn)
        for p in cx.enum(fn, k, max_depth=0):
            from ..common import annotate as _ann
            _ann(p, heap=False)
            open_ = any(e.kind == 'cond' and U(e._sub).replace(' ', '') in ('self.socket', 'self.socketisnotNone') and e.a is True for e in p.ev) or \
                any(e.kind == 'cond' and U(e._sub).replace(' ', '') in ('notself.socket', 'self.socketisNone') and e.a is False for e in p.ev)
            if not open_:
                continue
            nc += 1
            io = [e for e in p.ev if e.kind == 'call' and ((isinstance(e.node.func, ast.Attribute) and e.node.func.attr in
                                                           ('recv', 'recvfrom', 'read', 'send', 'sendto', 'write', 'select', 'setblocking', 'close') and
                                                           ('socket' in U(e.node) or 'select' in U(e.node))) or U(e.node.func) == 'self.close')]
            ck.ob('R3', fn.qn, 'connect() on an already open socket performs no transport operation', not io,
                  detail='connect-touches-open-socket %s' % [U(e.node.func)[-20:] for e in io][:2], loc=cx.floc(fn, io[0].node) if io else cx.floc(fn),
                  message='%s reads from / writes to the already open socket (`%s`) -- connect() runs before the transaction lock is taken, so a second '
                          'thread can consume the reply another thread is waiting for' % (fn.qn, U(io[0].node)[:50] if io else ''))
    ck.floor('R3', nc, 2, 'connect() paths on an open socket')
    # R4
    if region is not None:
        todo, seen, bad = ['execute'], set(), []
        nodes = [region]
        for name in sorted(reach - {'execute'}):
            m = cx.idx.find_method(tm, name)
            if m is not None:
                nodes.append(m.node)
        for k in [cb] + cx.idx.subclasses(cb):
            for name in transport:
                if name in k.methods:
                    nodes.append(k.methods[name].node)
        for nd in nodes:
            for n in ast.walk(nd):
                if isinstance(n, ast.With):
                    for it in n.items:
                        t = U(it.context_expr)
                        if 'lock' in t.lower() and t != 'self.' + lock:
                            bad.append('with ' + t)
                if isinstance(n, ast.Call) and isinstance(n.func, ast.Attribute) and n.func.attr in ('acquire', 'release', 'join', 'wait') \
                        and not isinstance(n.func.value, ast.Constant):
                    bad.append('call ' + U(n.func))
        ck.ob('R4', ex.qn, 'no other lock and no thread/condition wait while holding the transaction lock', not bad,
              detail='nested-blocking %s' % sorted(set(bad)), loc=cx.floc(ex),
              message='while holding the transaction lock the code does %s' % sorted(set(bad)))
    ck.assume('GIL-level atomicity of single statements is assumed; actual interleavings are not explored')
    from .. import ownership as _own
    ck.guard(_own.rule_instance_owned, ck, cx, 'R5', _own.MANAGERS, "the transaction table / lock state would be shared between clients instead of being protected by the client's own lock", 3)
    from ..share import import_findings as _imp
    ck.rule('R6', 'the connection is (re)opened under the lock: connect() precedes the transmission inside the locked region on every attempt, so a caller that queued behind a failed transaction does not send on the socket that transaction closed (shared with C13 R20)')
    _imp(ck, 'C13', 'R6', ('R20',), 'the connect() that BaseModbusClient.execute performs happens before the lock is taken: a thread waiting for the lock behind a transaction that '
         'ends in a fault finds the socket closed when its turn comes, although the slave is healthy', detail_prefixes=('attempt-without-connect',))
    ck.rule('R7', 'a transaction that got no (or a short) reply ends with the connection closed before the lock is released: _recv raises on an empty / short first read, which makes _transact close the transport (shared with C13 R6 / R4)')
    _imp(ck, 'C13', 'R7', ('R6', 'R4'), 'the reply that arrives late is still in flight on the shared socket when the next queued caller takes the lock: callers are handed each other\'s replies',
         detail_prefixes=('short-first-read', 'empty-first-read', 'first-read', 'handler-does-not-close'))
    return cx.idx
