"""C03 — each transport framing builds the spec ADU and round-trips messages (structural rules)."""
import ast

from ..common import is_const, Ctx, U, AnalysisError, callee_name, annotate, ret_expr, Poly, NotInt
from ..layout import Writer, normalise, rename_rep, select, show, Seq, length, fsize
from ..framermodel import FRAMER_CLASSES, instance_constants, framer_paths
from ..msgtables import table, code_of
from ..pdumatch import Spec
from .c07 import r3_shape
from spec import pdu_layouts as PL

TITLE = 'each transport framing builds the spec ADU and round-trips messages'

ENC = 'message.encode()'
# ADU layouts written from the specifications:
#   tcp   [TCP] §3.1.3 MBAP header: transaction id (2), protocol id (2), length (2) = unit id + PDU, unit id (1); then the PDU
#   rtu   [SER] §2.5.1: address (1), PDU, CRC-16 (2, sent low byte first)
#   ascii [SER] §2.5.2: ':' + hex of address, PDU, LRC + CR LF, all upper case; LRC over address+PDU
#   tls   MODBUS/TCP Security: the bare PDU
#   binary (jamod framing, only definition is the framer docstring): '{' address PDU (delimiters doubled) CRC '}'
ADU = {
    'tcp': ['>H:message.transaction_id', '>H:message.protocol_id', '>H:2 + len(%s)' % ENC, 'B:message.unit_id', 'B:message.function_code', 'raw(%s)' % ENC],
    'rtu': ['B:message.unit_id', 'B:message.function_code', 'raw(%s)' % ENC, '>H:computeCRC(seq[B:message.unit_id B:message.function_code raw(%s)])' % ENC],
    'tls': ['B:message.function_code', 'raw(%s)' % ENC],
}


def build_summary(cx, kind):
    cls = cx.idx.cls(FRAMER_CLASSES[kind])
    fn = cx.method(cls, 'buildPacket')
    w = Writer(cx, cls)
    seq = rename_rep(normalise(w.func(fn)))
    return cls, fn, seq


def const_bytes(cx, cls, attr):
    v = instance_constants(cx, cls).get('self.' + attr)
    return v if isinstance(v, bytes) else None


def r1_build(ck, cx):
    ck.rule('R1', 'buildPacket layout equals the specified ADU for each of the five framers')
    out = {}
    for kind in FRAMER_CLASSES:
        cls, fn, seq = build_summary(cx, kind)
        ck.saw('functions', fn.qn)
        out[kind] = (cls, fn, seq)
        ck.sample({'framer': kind, 'buildPacket': show(seq)[:200]})
        items = [show(Seq([it])) for it in seq]
        if kind in ADU:
            ck.ob('R1', fn.qn, '%s ADU = %s' % (kind, ' '.join(ADU[kind])), items == ADU[kind], detail='adu-layout %s' % ' | '.join(items)[:160], loc=cx.floc(fn),
                  message='%s buildPacket emits `%s`, the specification has `%s`' % (kind, ' '.join(items), ' '.join(ADU[kind])))
        elif kind == 'ascii':
            ok = len(seq) == 1 and seq[0][0] == 'XF' and seq[0][1] == 'upper'
            inner = seq[0][2] if ok else Seq()
            if not ok:
                # no upper-casing of the whole packet: every piece must be upper case by construction
                # (b2a_hex yields lower-case digits, so a hex(...) item without upper() is a deviation)
                pass
            start, end = const_bytes(cx, cls, '_start'), const_bytes(cx, cls, '_end')
            shape = [it[0] for it in inner]
            ok = ok and shape == ['RAW', 'TEXT', 'XF', 'TEXT', 'RAW'] and inner[0][1] == 'self._start' and inner[4][1] == 'self._end' \
                and start == b':' and end == b'\r\n'
            if ok:
                t1, hx, t2 = inner[1], inner[2], inner[3]
                ok = t1[1] == '%02x%02x' and t1[2] == ('message.unit_id', 'message.function_code') and hx[1] == 'hex' and \
                    list(hx[2]) == [('RAW', ENC)] and t2[1] == '%02x' and len(t2[2]) == 1 and t2[2][0].startswith('computeLRC(')
                lrc_arg = t2[2][0] if ok else ''
                ok = ok and 'B:message.unit_id B:message.function_code' in lrc_arg and 'raw(%s)' % ENC in lrc_arg
            ck.ob('R1', fn.qn, "ascii ADU = upper(':' hex(unit) hex(fc) hex(PDU) hex(LRC(unit, fc, PDU)) CR LF)", ok,
                  detail='adu-layout %s' % show(seq)[:160], loc=cx.floc(fn), message='ascii buildPacket emits `%s`' % show(seq))
        elif kind == 'binary':
            start, end = const_bytes(cx, cls, '_start'), const_bytes(cx, cls, '_end')
            shape = [it[0] for it in seq]
            ok = shape == ['RAW', 'F', 'F', 'REP', 'F', 'RAW'] and seq[0][1] == 'self._start' and seq[5][1] == 'self._end' and start == b'{' and end == b'}'
            if ok:
                rep = seq[3]
                esc = list(rep[1])
                ok = seq[1][1:] == ('B', 'message.unit_id') and seq[2][1:] == ('B', 'message.function_code') and rep[2] == ENC and \
                    len(esc) == 2
                # the doubled byte and the byte itself are the same value: either order writes the same bytes
                alts = [x for x in esc if x[0] == 'ALT']
                plain = [x for x in esc if x[0] == 'F']
                ok = ok and len(alts) == 1 and len(plain) == 1 and alts[0][1] == '$e in self._repeat' and list(alts[0][2]) == [('F', 'B', '$e')] \
                    and not alts[0][3] and plain[0] == ('F', 'B', '$e')
                crc = seq[4]
                ok = ok and crc[1] == '>H' and crc[2].startswith('computeCRC(seq[B:message.unit_id B:message.function_code rep[')
                rp = instance_constants(cx, cls)
            ck.ob('R1', fn.qn, "binary ADU = '{' unit fc ESC(PDU) CRC(unit fc ESC(PDU)) '}'", ok, detail='adu-layout %s' % show(seq)[:160], loc=cx.floc(fn),
                  message='binary buildPacket emits `%s`' % show(seq))
    return out


def _advance_amount(cx, cls, nz, env):
    fn = cx.method(cls, 'advanceFrame')
    for p in cx.enum(fn, cls, max_depth=1):
        if p.exit and p.exit[0] == 'exc':
            continue
        annotate(p, heap=False)
        for ev in p.ev:
            if ev.kind == 'assign' and U(ev.a) == 'self._buffer' and isinstance(ev._sub, ast.Subscript) and isinstance(ev._sub.slice, ast.Slice):
                sl = ev._sub.slice
                if sl.lower is not None and sl.upper is None and U(ev._sub.value) == 'self._buffer':
                    return fn, nz.norm(sl.lower, env)
            if ev.kind == 'assign' and U(ev.a) == 'self._buffer' and isinstance(ev.node.value, ast.Constant):
                return fn, 'all'
    return fn, None


def r2_agreement(ck, cx, builds):
    ck.rule('R2', 'sender/receiver agreement: header parse = header build (format and binding), getFrame returns exactly [fc, data], advanceFrame consumes exactly the packet length, populateResult copies the header ids')
    HL = Poly.atom("self._header['len']")
    for kind, (cls, bfn, seq) in builds.items():
        nz = cx.nz(cls.mod, cls)
        env = {k: ast.Constant(value=v) for k, v in instance_constants(cx, cls).items() if isinstance(v, int)}
        total = length(select(seq, lambda c: False), nz) if kind != 'binary' else None
        if kind == 'binary':
            # without escaping (payload free of delimiters) ESC(PDU) is len(PDU) bytes
            s2 = Seq([it if it[0] != 'REP' else ('RAW', ENC) for it in seq])
            total = length(s2, nz)
        afn, adv = _advance_amount(cx, cls, nz, env)
        ck.saw('functions', afn.qn)
        L = Poly.atom('len(%s)' % ENC)
        endlen = len(const_bytes(cx, cls, '_end') or b'') if kind in ('ascii', 'binary') else 0
        # meaning of the header length on the receive side
        if kind == 'tcp':
            lenfield = [it for it in seq if it[0] == 'F' and 'len(' in it[2]]
            meaning = nz.norm(ast.parse(lenfield[0][2], mode='eval').body) if lenfield else None
        elif kind in ('ascii', 'binary'):
            # header len = index of the end delimiter = total - len(end)
            cf = cx.method(cls, 'checkFrame')
            from ..common import annotated_copy
            src_ok, nacc = True, 0
            for pp in cx.enum(cf, cls, max_depth=1):
                if pp.exit and pp.exit[0] == 'exc':
                    continue
                q, stq = annotated_copy(pp, heap=True, versioned=('self._buffer',))
                r_ = ret_expr(q)
                if r_ is None or is_const(r_, False):
                    continue
                nacc += 1
                hv = stq.heap.get("self._header['len']")
                cur = 'buffer_v%d' % stq.versioned.get('self._buffer', 0)
                src_ok = src_ok and isinstance(hv, ast.Call) and callee_name(hv) == 'find' and U(hv.func.value) == cur \
                    and len(hv.args) == 1 and U(hv.args[0]) == 'self._end'
            ck.ob('R2', cf.qn, "header 'len' is the index of the end delimiter in the buffer as checkFrame leaves it", src_ok and nacc > 0,
                  detail='header-len-source', loc=cx.floc(cf))
            meaning = total - Poly.const(endlen) if total is not None else None
        elif kind == 'rtu':
            meaning = total          # calculateRtuFrameSize: decided by R3
        else:
            meaning = None
        if kind == 'tls':
            ck.ob('R2', afn.qn, 'tls advanceFrame consumes the whole record', adv == 'all', detail='advance %s' % adv, loc=cx.floc(afn))
        else:
            ok = isinstance(adv, Poly) and meaning is not None and total is not None and adv.subst({"self._header['len']": meaning}) == total
            ck.sample({'framer': kind, 'packet-length': str(total), 'advance': str(adv), "header['len']": str(meaning)})
            ck.ob('R2', afn.qn, 'advanceFrame consumes exactly one packet (%s bytes)' % total, ok,
                  detail='advance-amount %s' % adv, loc=cx.floc(afn),
                  message="%s advanceFrame drops %s bytes; with header len = %s a packet is %s bytes long" % (kind, adv, meaning, total))
        # getFrame = [fc, data]
        gfn = cx.method(cls, 'getFrame')
        ck.saw('functions', gfn.qn)
        fc_off = Poly.const(0)
        items = seq[0][2] if (kind == 'ascii' and len(seq) == 1 and seq[0][0] == 'XF') else seq
        for it in items:
            if (it[0] == 'F' and it[2] == 'message.function_code'):
                break
            if it[0] == 'TEXT':
                fc_off = fc_off + Poly.const(2)      # '%02x' of the unit id precedes the function code
                break
            fc_off = fc_off + (length(Seq([it]), nz) if it[0] != 'RAW' or not it[1].startswith('self._') else
                               Poly.const(len(const_bytes(cx, cls, it[1].split('.')[1]) or b'')))
        okg = False
        got_rng = None
        for p in cx.enum(gfn, cls, max_depth=0):
            annotate(p, heap=False)
            r = ret_expr(p)
            while isinstance(r, ast.Call) and callee_name(r) in ('a2b_hex',) and r.args:
                r = r.args[0]
            if isinstance(r, ast.Subscript) and U(r.value) == 'self._buffer' and isinstance(r.slice, ast.Slice):
                lo = nz.norm(r.slice.lower, env) if r.slice.lower is not None else Poly.const(0)
                hi = nz.norm(r.slice.upper, env) if r.slice.upper is not None else None
                got_rng = (lo, hi)
                if kind == 'tcp':
                    want_hi = Poly.const(env_int(env, 'self._hsize') or 0) + HL - Poly.const(1)
                elif kind == 'tls':
                    want_hi = None
                else:
                    want_hi = HL - Poly.const(2 if kind != 'ascii' else 2)
                okg = lo == fc_off and hi == want_hi
        ck.ob('R2', gfn.qn, 'getFrame returns exactly the function code and data bytes (from offset %s)' % fc_off, okg,
              detail='getFrame-range %s' % (got_rng,), loc=cx.floc(gfn),
              message='%s getFrame returns buffer[%s:%s]; the function code is at %s' % (kind, got_rng[0] if got_rng else None, got_rng[1] if got_rng else None, fc_off))
        # populateResult binding
        pfn = cx.method(cls, 'populateResult')
        binds = {}
        for pp in cx.enum(pfn, cls, max_depth=1):
            annotate(pp, heap=False)
            for ev in pp.ev:
                v = getattr(ev, '_sub', None)
                if ev.kind == 'assign' and isinstance(ev.a, ast.Attribute) and isinstance(v, ast.Subscript) and U(v.value) == 'self._header':
                    binds[ev.a.attr] = cx.ce.try_ev(v.slice, pfn.mod, cls)
        if kind == 'tcp':
            cf = cx.method(cls, 'checkFrame')
            okh = False
            from ..common import annotated_copy
            from ..layout import fmt_items
            for p in cx.enum(cf, cls, max_depth=0, resolver=lambda c, fr, pa: None):
                hp, st = annotated_copy(p, heap=True, versioned=('self._buffer',))
                # every header cell is element k of some unpack(fmt, buffer[lo:hi]): its byte offset in the buffer and its struct code
                cells = {}
                ok2 = True
                for key, val in st.heap.items():
                    if key.startswith("self._header['") and isinstance(val, ast.Subscript) and isinstance(val.value, ast.Call) \
                            and callee_name(val.value) == 'unpack' and isinstance(val.slice, ast.Constant) and len(val.value.args) == 2:
                        call = val.value
                        fmt = cx.ce.try_ev(call.args[0], cf.mod, cls)
                        codes = [it[1] for it in fmt_items(fmt or '', [])]
                        sl = call.args[1]
                        k_ = val.slice.value
                        if not (isinstance(sl, ast.Subscript) and isinstance(sl.slice, ast.Slice) and isinstance(k_, int) and 0 <= k_ < len(codes)):
                            continue
                        try:
                            lo = nz.norm(sl.slice.lower, env).const_value() if sl.slice.lower is not None else 0
                            hi = nz.norm(sl.slice.upper, env).const_value() if sl.slice.upper is not None else None
                        except Exception:
                            continue
                        if lo is None:
                            continue
                        ok2 = ok2 and (hi is None or hi - lo == sum(fsize(c_) for c_ in codes))
                        off = lo + sum(fsize(c_) for c_ in codes[:k_])
                        cells[key[len("self._header['"):-2]] = (off, codes[k_])
                if len(cells) < 4:
                    continue
                built, off = [], 0
                for it in seq:
                    if it[0] != 'F' or len(built) == 4:
                        break
                    built.append((off, it[1], it[2]))
                    off += fsize(it[1])
                inv = {v: k for k, v in binds.items()}
                keys = [k for k, v in sorted(cells.items(), key=lambda kv: kv[1][0])]
                ok1 = len(keys) == 4 and len(built) == 4 and all(
                    cells[k] == (b_[0], b_[1]) and ((k == 'len' and 'len(' in b_[2]) or b_[2] == 'message.%s' % inv.get(k))
                    for k, b_ in zip(keys, built))
                okh = okh or (ok1 and ok2)
            ck.ob('R2', cf.qn, 'MBAP header is parsed with the format and field binding it is built with', okh, detail='header-binding', loc=cx.floc(cf),
                  message='tcp checkFrame parses the header differently from buildPacket / populateResult')
            # every legal MBAP length is accepted: 2 (unit + function code) .. 254 (unit + a 253-byte PDU)
            from ..framermodel import framer_paths as _fpaths
            from ..sym import constraints as _cons
            _c, _f, _fps = _fpaths(cx, 'tcp')
            lows, highs, ndel = [], [], 0
            for fp in _fps:
                for d in fp.deliveries:
                    cfs = [t for i, t in fp.truths.get('checkFrame', []) if i < d]
                    if not (cfs and cfs[-1] is True):
                        continue
                    ndel += 1
                    lo, hi = None, None
                    for ev in fp.path.ev[:d]:
                        if ev.kind == 'cond' and ev.frame.func is not None and ev.frame.func.name == 'checkFrame':
                            for c in _cons(ev._sub, ev.a, nz, env):
                                if c[0] == 'ge' and set(k for k in c[1].t if k != ()) == {("self._header['len']",)}:
                                    co, k0 = c[1].t[("self._header['len']",)], c[1].t.get((), 0)
                                    if co == 1:       # len + k0 >= 0
                                        lo = max(lo, -k0) if lo is not None else -k0
                                    elif co == -1:    # -len + k0 >= 0
                                        hi = min(hi, k0) if hi is not None else k0
                    lows.append(lo)
                    highs.append(hi)
            ck.ob('R2', cf.qn, 'a frame with the smallest MBAP length (2) is accepted', bool(lows) and all(l is None or l <= 2 for l in lows),
                  detail='mbap-length-lower-bound %s' % sorted(set(map(str, lows))), loc=cx.floc(cf))
            ck.ob('R2', cf.qn, 'a frame with the largest MBAP length (254 = unit id + 253-byte PDU) is accepted', bool(highs) and all(h is None or h >= 254 for h in highs),
                  detail='mbap-length-upper-bound %s' % sorted(set(map(str, highs))), loc=cx.floc(cf),
                  message='tcp checkFrame accepts an MBAP length only up to %s: a maximum-size PDU (253 bytes, length field 254) is dropped'
                          % sorted(set(h for h in highs if h is not None)))
            ck.ob('R2', pfn.qn, 'populateResult copies transaction, protocol and unit id', set(binds) == {'transaction_id', 'protocol_id', 'unit_id'},
                  detail='populate %s' % sorted(binds), loc=cx.floc(pfn))
        elif kind in ('rtu', 'ascii', 'binary'):
            ck.ob('R2', pfn.qn, 'populateResult copies the unit id', binds.get('unit_id') == 'uid', detail='populate %s' % sorted(binds.items()), loc=cx.floc(pfn))


def env_int(env, key):
    v = env.get(key)
    return v.value if isinstance(v, ast.Constant) and isinstance(v.value, int) else None


def r3_rtu_sizes(ck, cx):
    ck.rule('R3', 'RTU length oracle agrees with the codec: _rtu_frame_size = 4 + fixed layout length; _rtu_byte_count_pos = 2 + offset of the byte-count field and the bytes after it are exactly that many; variable layouts declare no constant size; custom size functions are affine in the right header bytes')
    n = 0
    seen = set()
    for dn, spec in (('ServerDecoder', PL.REQUEST), ('ClientDecoder', PL.RESPONSE)):
        for k in table(cx, dn, '__function_table')[1] + [cx.idx.cls('pymodbus.pdu.ExceptionResponse')]:
            if k.qn in seen:
                continue
            seen.add(k.qn)
            fc = code_of(cx, k)
            entry = PL.EXCEPTION if k.name == 'ExceptionResponse' else spec.get(fc)
            if entry is None:
                continue
            sp = Spec(cx, k)
            want = sp.parse(entry['layout'])
            nz = cx.nz(k.mod, k)
            n += 1
            size = cx.ce.try_ev(ast.Name(id='_rtu_frame_size', ctx=ast.Load()), k.mod, k)
            pos = cx.ce.try_ev(ast.Name(id='_rtu_byte_count_pos', ctx=ast.Load()), k.mod, k)
            custom = cx.idx.find_method(k, 'calculateRtuFrameSize')
            is_custom = custom is not None and custom.cls.name != 'ModbusPDU'
            fixed = all(it[0] == 'F' for it in want)
            ck.saw('classes', k.qn)
            if is_custom:
                _custom_size(ck, cx, k, custom, want, nz)
                continue
            ck.ob('R3', k.qn, 'class declares how its RTU frame is sized', size is not None or pos is not None, detail='no-rtu-size', loc=k.loc)
            if size is not None:
                if not fixed:
                    ck.ob('R3', k.qn, 'a variable-length layout does not declare a constant RTU frame size', False,
                          detail='constant-size-for-variable-layout %d' % size, loc=k.loc,
                          message='%s declares _rtu_frame_size = %d but its PDU is variable-length (%s): longer frames are cut, the CRC check then fails' % (k.name, size, entry['layout']))
                else:
                    ln = length(want, nz).const_value()
                    ck.ob('R3', k.qn, '_rtu_frame_size = unit + fc + %d + crc' % ln, size == ln + 4, detail='rtu-frame-size %d vs %d' % (size, ln + 4), loc=k.loc,
                          message='%s._rtu_frame_size is %d, the frame is %d bytes' % (k.name, size, ln + 4))
            elif pos is not None:
                off = 0
                idx = None
                for i, it in enumerate(want):
                    if it[0] == 'F' and it[1] == 'B' and ('len(' in it[2] or 'sum(' in it[2] or it[2].endswith('byte_count')):
                        idx = i
                        break
                    off += fsize(it[1]) if it[0] == 'F' else 0
                ck.ob('R3', k.qn, 'layout has a one-byte byte-count field', idx is not None, detail='no-byte-count-field', loc=k.loc)
                if idx is None:
                    continue
                ck.ob('R3', k.qn, '_rtu_byte_count_pos = 2 + %d' % off, pos == off + 2, detail='byte-count-pos %d vs %d' % (pos, off + 2), loc=k.loc,
                      message='%s._rtu_byte_count_pos is %d, the byte count is at frame offset %d' % (k.name, pos, off + 2))
                rest = length(Seq(want[idx + 1:]), nz)
                bc = nz.norm(ast.parse(want[idx][2], mode='eval').body)
                inv = entry.get('inv') or {}
                for _ in range(3):
                    sub = {a: nz.norm(ast.parse(inv[a], mode='eval').body) for a in bc.atoms() if a in inv}
                    if not sub:
                        break
                    bc = bc.subst(sub)
                okr = rest is not None and _same_len(rest, bc)
                ck.ob('R3', k.qn, 'the bytes after the byte-count field are exactly byte-count long', okr,
                      detail='after-byte-count %s vs %s' % (rest, bc), loc=k.loc,
                      message='%s: %s bytes follow the byte-count field whose value is %s' % (k.name, rest, bc))
    ck.floor('R3', n, 36, 'classes reachable through lookupPduClass')
    # the generic helper
    f = cx.idx.func('pymodbus.utilities.rtuFrameSize')
    okf = False
    for p in cx.enum(f, None, max_depth=0):
        annotate(p)
        r = ret_expr(p)
        nzu = cx.nz(f.mod, None)
        try:
            pr = nzu.norm(r)
            okf = pr == Poly.atom('%s[%s]' % (f.params[0], f.params[1])) + Poly.atom(f.params[1]) + Poly.const(3)
        except Exception:
            okf = False
    ck.ob('R3', f.qn, 'rtuFrameSize = data[pos] + pos + 3 (count byte, counted bytes, CRC)', okf, detail='rtuFrameSize-shape', loc=cx.floc(f))
    base = cx.method(cx.idx.cls('pymodbus.pdu.ModbusPDU'), 'calculateRtuFrameSize')
    # decided on the paths: a class that declares the constant gets the constant; otherwise one that declares the position gets
    # rtuFrameSize(buffer, position); nothing else is returned
    shapes, okb = set(), True
    for p in cx.enum(base, base.cls, max_depth=0):
        if p.exit and p.exit[0] == 'exc':
            continue
        annotate(p, heap=False)
        r = ret_expr(p)
        has = {}
        for e in p.ev:
            t = getattr(e, '_sub', None)
            if e.kind == 'cond' and isinstance(t, ast.Call) and callee_name(t) == 'hasattr' and len(t.args) == 2 and isinstance(t.args[1], ast.Constant):
                has[t.args[1].value] = e.a
        rt = U(r).replace(' ', '') if r is not None else None
        if rt == 'cls._rtu_frame_size':
            shapes.add('const')
            okb = okb and has.get('_rtu_frame_size') is True
        elif rt == 'rtuFrameSize(%s,cls._rtu_byte_count_pos)' % base.params[1]:
            shapes.add('pos')
            okb = okb and has.get('_rtu_byte_count_pos') is True and has.get('_rtu_frame_size') is False
        else:
            okb = False
    ck.ob('R3', base.qn, 'base size function uses the constant, else rtuFrameSize(buffer, pos)', okb and shapes == {'const', 'pos'},
          detail='base-size-shape', loc=cx.floc(base))


def r3_lookup_pdu_class(ck, cx, rule='R3', decoders=('ServerDecoder', 'ClientDecoder')):
    """populateHeader sizes an RTU frame with decoder.lookupPduClass(function code byte).calculateRtuFrameSize(buffer).  The builder
    puts message.function_code in that byte (error replies: code | 0x80), so the oracle is right only if the table is consulted
    with the byte as it is, anything not in the table is sized as the 5-byte exception frame, and every class that can come back
    knows its size (the base calculateRtuFrameSize raises NotImplementedException otherwise, which isFrameReady does not catch)."""
    n = 0
    exc = cx.idx.cls('pymodbus.pdu.ExceptionResponse')

    def sized(k):
        if cx.ce.try_ev(ast.Name(id='_rtu_frame_size', ctx=ast.Load()), k.mod, k) is not None:
            return True
        if cx.ce.try_ev(ast.Name(id='_rtu_byte_count_pos', ctx=ast.Load()), k.mod, k) is not None:
            return True
        custom = cx.idx.find_method(k, 'calculateRtuFrameSize')
        return custom is not None and custom.cls.name != 'ModbusPDU'
    for dn in decoders:
        d = cx.idx.cls('pymodbus.factory.' + dn)
        f = cx.method(d, 'lookupPduClass')
        ck.saw('functions', f.qn)
        param = f.params[1]
        for p in cx.enum(f, d, max_depth=0):
            annotate(p)
            if p.exit and p.exit[0] == 'exc':
                continue
            r = ret_expr(p)
            n += 1
            classes, key, default_ok = [], None, True
            if isinstance(r, ast.Call) and isinstance(r.func, ast.Attribute) and r.func.attr == 'get' and U(r.func.value).endswith('__lookup') and r.args:
                key = r.args[0]
                dflt = r.args[1] if len(r.args) > 1 else None
                k = cx.idx.resolve_class_expr(f.mod, dflt) if dflt is not None else None
                classes.append((dflt, k))
                conds = [(U(e._sub), e.a) for e in p.ev if e.kind == 'cond']
                default_ok = k is exc or any(param in c for c, a in conds)
                # a sentinel default that this very path has excluded (`if found is _MISSING: ...` not taken) cannot come back here
                for e in p.ev:
                    t = getattr(e, '_sub', None)
                    if e.kind == 'cond' and dflt is not None and isinstance(t, ast.Compare) and len(t.ops) == 1 and ast.dump(t.left) == ast.dump(r) \
                            and U(t.comparators[0]) == U(dflt) and ((isinstance(t.ops[0], (ast.Is, ast.Eq)) and e.a is False) or (isinstance(t.ops[0], (ast.IsNot, ast.NotEq)) and e.a is True)):
                        classes, default_ok = [], True
            elif isinstance(r, ast.Subscript) and U(r.value).endswith('__lookup'):
                key = r.slice
            elif isinstance(r, ast.Name):
                classes.append((r, cx.idx.resolve_class_expr(f.mod, r)))
            else:
                ck.ob(rule, f.qn, 'the result is a table lookup or a class', False, detail='lookup-result-not-recognised %s' % (U(r)[:40] if r is not None else None), loc=cx.floc(f),
                      message='%s.lookupPduClass returns `%s`: not a lookup in the function table nor a class' % (dn, U(r)[:60] if r is not None else None))
                continue
            if key is not None:
                ck.ob(rule, f.qn, 'the function table is consulted with the function-code byte as received', isinstance(key, ast.Name) and key.id == param,
                      detail='lookup-key-transformed %s' % U(key)[:40], loc=cx.floc(f, r),
                      message='%s.lookupPduClass looks `%s` up instead of the received function-code byte: an error reply (code | 0x80) is sized as the normal '
                              'response of that function, so the RTU receiver waits for / cuts a frame of the wrong length and the exception reply is never delivered'
                              % (dn, U(key)[:50]))
                ck.ob(rule, f.qn, 'codes outside the table are sized as the exception frame', default_ok, detail='lookup-default-not-exception', loc=cx.floc(f, r),
                      message='%s.lookupPduClass falls back to `%s` for every code outside the table, error replies (code | 0x80) included: they are 5-byte exception frames'
                              % (dn, U(classes[0][0]) if classes and classes[0][0] is not None else None))
            for node, k in classes:
                ok = k is not None and hasattr(k, 'mod') and sized(k)
                ck.ob(rule, f.qn, 'the class `%s` that can be returned knows its RTU frame size' % (U(node) if node is not None else None), ok,
                      detail='lookup-returns-unsized-class %s' % (U(node) if node is not None else None), loc=cx.floc(f, r),
                      message='%s.lookupPduClass can return %s, which declares neither _rtu_frame_size nor _rtu_byte_count_pos: calculateRtuFrameSize raises '
                              'NotImplementedException out of the RTU framer\'s isFrameReady (not caught there), the header stays half populated and the receiver '
                              'stops delivering frames' % (dn, U(node) if node is not None else None))
    ck.floor(rule, n, len(decoders), 'return paths of lookupPduClass')


def _same_len(rest, bc):
    """sum-of-record-sizes forms compare equal when the summand agrees"""
    if rest == bc:
        return True
    rs, bs = str(rest), str(bc)
    if rs.startswith('sum(') and bs.startswith('sum('):
        norm = lambda t: t.replace('$e', '_e').replace('len(_e.record_data)', 'LEN')
        a, b = norm(rs), norm(bs)
        # 7 + len(data) vs 7 + 2*record_length : FileRecord ties record_length = len(record_data)//2 (constructor default)
        a = a.replace('LEN', '2*_e.record_length')
        b2 = b.replace('1 + _e.response_length', '2 + LEN').replace('LEN', '2*_e.record_length')
        return a == b or a == b2 or a.replace('2 + 2*_e.record_length', '1 + _e.response_length') == b
    return False


def _custom_size(ck, cx, k, fn, want, nz):
    """affine summary of a custom calculateRtuFrameSize over the buffer bytes it reads"""
    ck.saw('functions', fn.qn)
    buf = fn.params[1]
    # whatever the message, the size of a frame is a function of the bytes of the frame, never of how many bytes have arrived so far
    uses_len = [n_ for n_ in ast.walk(fn.node) if isinstance(n_, ast.Call) and isinstance(n_.func, ast.Name) and n_.func.id == 'len'
                and n_.args and isinstance(n_.args[0], ast.Name) and n_.args[0].id == buf]
    ck.ob('R3', fn.qn, 'the RTU frame size does not depend on len(buffer)', not uses_len, detail='size-from-buffered-length', loc=cx.floc(fn, uses_len[0]) if uses_len else cx.floc(fn),
          message='%s computes the frame length from len(%s), the number of bytes buffered so far: with bytes of the next frame behind it the frame is cut '
                  'at the wrong place and fails its CRC, so what is delivered depends on how the stream was split into reads' % (fn.qn, buf))
    if k.name not in ('ReadFifoQueueResponse', 'ReadDeviceInformationResponse'):
        if uses_len:
            return
        # an override on a class with a fixed or byte-counted layout: the inherited oracle (constant / byte-count position) is the
        # reference, and the override must return it on every path
        vals = set()
        for p in cx.enum(fn, k, max_depth=0):
            if p.exit and p.exit[0] == 'exc':
                continue
            annotate(p)
            r = ret_expr(p)
            try:
                vals.add(str(nz.norm(r)))
            except Exception:
                vals.add(U(r) if r is not None else 'None')
        size = cx.ce.try_ev(ast.Name(id='_rtu_frame_size', ctx=ast.Load()), k.mod, k)
        ck.ob('R3', fn.qn, 'an overriding size function of a fixed-size message returns the declared constant', size is not None and vals == {str(size)},
              detail='custom-size-override %s' % sorted(vals)[:3], loc=cx.floc(fn),
              message='%s overrides the inherited frame-size oracle and returns %s (declared constant: %s)' % (fn.qn, sorted(vals)[:3], size))
        return
    if k.name == 'ReadFifoQueueResponse':
        # spec layout: byte count (2 bytes, big-endian) at PDU offset 0 = frame offsets 2,3 ; frame = 2 + 2 + count + 2
        for p in cx.enum(fn, k, max_depth=0):
            annotate(p)
            r = ret_expr(p)
            try:
                pr = nz.norm(r)
            except Exception:
                pr = None
            # the byte count of a conformant FIFO response is at most 2 + 2*31, so its high byte (buffer[2]) is always 0:
            # only the low-byte term and the constant are constrained
            hi = ('%s[2]' % buf,)
            rest = Poly({kk: vv for kk, vv in pr.t.items() if kk != hi}) if pr is not None else None
            want_p = Poly.atom('%s[3]' % buf) + Poly.const(6)
            ck.ob('R3', fn.qn, 'frame size = (high byte term) + buffer[3] + 6', rest == want_p and pr.t.get(hi, 0) >= 0, detail='fifo-size %s' % pr, loc=cx.floc(fn),
                  message='ReadFifoQueueResponse.calculateRtuFrameSize computes %s, expected byte count low byte buffer[3] + 6' % pr)
    else:
        # MEI response: header is 6 PDU bytes, object count at frame offset 7, objects (id, len, value) from offset 8, CRC 2
        ok, why = _mei_size_summary(cx, k, fn, nz)
        ck.ob('R3', fn.qn, 'frame size walks number_of_objects (id, len, value) records from offset 8 and adds the CRC', ok, detail='mei-size-shape', loc=cx.floc(fn),
              message='ReadDeviceInformationResponse.calculateRtuFrameSize: %s' % why)



def _mei_size_summary(cx, k, fn, nz):
    """dataflow summary of the MEI frame-size walk, independent of spelling: on loop entry the cursor is 8 and the counter is the
    byte at frame offset 7; one iteration reads a (id, length) pair of unsigned bytes at the cursor, advances the cursor by
    length + 2 and the counter by -1 (or the loop is a `for` over range(counter)); the result is the cursor + 2 (CRC)."""
    buf = fn.params[1]
    loops = [n for n in ast.walk(fn.node) if isinstance(n, (ast.While, ast.For))]
    if len(loops) != 1:
        return False, 'expected exactly one loop, found %d' % len(loops)
    loop = loops[0]
    # 1. state on loop entry
    entry = None
    for p in cx.enum_region(fn, k, stop=[loop]):
        if p.exit and p.exit[0] == 'stop':
            entry = annotate(p, heap=False)
    if entry is None:
        return False, 'loop not reachable'
    init = {name: v for (fid, name), v in entry.loc.items() if fid == 0}
    # 2. result in terms of the locals after the loop: take the zero-iteration path of the whole function
    ret0 = None
    for p in cx.enum(fn, k, max_depth=0):
        if p.exit and p.exit[0] == 'exc':
            continue
        if not any(e.kind == 'loop' and e.a == 'backedge' for e in p.ev) and not any(e.kind == 'assign' and e.frame.fid == 0 and any(e.node is x for x in ast.walk(loop)) for e in p.ev):
            annotate(p, heap=False)
            ret0 = ret_expr(p)
    try:
        r0 = nz.norm(ret0).const_value() if ret0 is not None else None
    except Exception:
        r0 = None
    if r0 != 10:
        return False, 'with no objects the size is %s, expected 8 + 2' % (r0 if r0 is not None else (U(ret0) if ret0 is not None else None))
    # 3. the counter: while counter > 0 (decremented by one per iteration), or for _ in range(counter)
    cnt_src = None
    if isinstance(loop, ast.While):
        t = loop.test
        if not (isinstance(t, ast.Compare) and len(t.ops) == 1 and isinstance(t.left, ast.Name) and isinstance(t.ops[0], (ast.Gt, ast.NotEq)) and cx.ce.try_ev(t.comparators[0], fn.mod, k) == 0):
            return False, 'loop test `%s` is not <counter> > 0' % U(t)
        cvar = t.left.id
        cnt_src = init.get(cvar)
    else:
        it = loop.iter
        if not (isinstance(it, ast.Call) and callee_name(it) == 'range' and len(it.args) == 1):
            return False, 'loop `%s` is not a range over the object count' % U(it)
        from ..sym import substitute
        cnt_src = substitute(it.args[0], {n_: v for n_, v in init.items() if isinstance(v, ast.AST)})
        cvar = None
    ctxt = U(cnt_src).replace(' ', '') if cnt_src is not None else None
    src = cnt_src
    if isinstance(src, ast.Call) and callee_name(src) == 'byte2int' and len(src.args) == 1:
        src = src.args[0]
    at7 = isinstance(src, ast.Subscript) and isinstance(src.value, ast.Name) and src.value.id == buf and not isinstance(src.slice, ast.Slice) \
        and cx.ce.try_ev(src.slice, fn.mod, k) == 7
    if not at7:
        return False, 'the number of records is taken from `%s`, expected the byte at frame offset 7' % ctxt
    # 4. one iteration
    n = 0
    for p in cx.enum_region(fn, k, loop.body):
        if p.exit not in (None, 'continue'):
            continue
        st = annotate(p, heap=False)
        n += 1
        moved = []
        for (fid, name), v in st.loc.items():
            if fid != 0 or name == cvar or not isinstance(v, ast.AST):
                continue
            try:
                d = nz.norm(v) - Poly.atom(name)
            except Exception:
                continue
            if d.t and any(name in a for kk in nz.norm(v).t for a in kk):
                moved.append((name, d))
        cur = [(nm, d) for nm, d in moved if init.get(nm) is not None and cx.ce.try_ev(init[nm], fn.mod, k) == 8]
        if len(cur) != 1:
            return False, 'no cursor that starts at 8 and advances in the loop (%s)' % [(a, str(b)) for a, b in moved]
        nm, d = cur[0]
        atoms = [kk for kk in d.t if kk != ()]
        # the one non-constant term is element 1 of an unsigned two-byte unpack of buffer[cursor : cursor + 2]
        reads = []
        for x in ast.walk(st.loc[(0, nm)]):
            if isinstance(x, ast.Subscript) and isinstance(x.value, ast.Call) and callee_name(x.value) == 'unpack' and len(x.value.args) == 2:
                reads.append(x)
        okr = False
        if len(reads) == 1:
            x = reads[0]
            fmt = cx.ce.try_ev(x.value.args[0], fn.mod, k)
            sl = x.value.args[1]
            try:
                lo = nz.norm(sl.slice.lower) if isinstance(sl, ast.Subscript) and isinstance(sl.slice, ast.Slice) and sl.slice.lower is not None else None
                hi = nz.norm(sl.slice.upper) if lo is not None and sl.slice.upper is not None else None
                okr = isinstance(fmt, str) and fmt.lstrip('>!') == 'BB' and fmt[:1] in ('>', '!', 'B') and cx.ce.try_ev(x.slice, fn.mod, k) == 1 \
                    and U(sl.value) == buf and lo == Poly.atom(nm) and hi is not None and (hi - lo).const_value() == 2
            except Exception:
                okr = False
        okd = okr and d.t.get((), 0) == 2 and len(atoms) == 1 and d.t[atoms[0]] == 1 and len(atoms[0]) == 1
        if not okd:
            return False, 'one record advances the cursor by %s, expected 2 + the length byte at cursor + 1' % d
        if cvar is not None:
            cv = st.loc.get((0, cvar))
            try:
                dc = (nz.norm(cv) - Poly.atom(cvar)).const_value() if cv is not None else 0
            except Exception:
                dc = None
            if dc != -1:
                return False, 'the record counter changes by %s per record, expected -1' % dc
    if not n:
        return False, 'no path through the loop body'
    return True, 'ok'

def r4_transforms(ck, cx, builds):
    ck.rule('R4', 'every transform applied between message.encode() and the wire has its inverse between the wire and decoder.decode')
    pairs = {'hex': ('a2b_hex', 'unhexlify'), 'upper': None}
    for kind, (cls, bfn, seq) in builds.items():
        xf = []

        def walk(sq):
            for it in sq:
                if it[0] == 'XF':
                    xf.append(it[1])
                    walk(it[2])
                elif it[0] == 'REP' and any(b[0] == 'ALT' for b in it[1]):
                    xf.append('escape')
        walk(seq)
        recv = set()
        for name in ('getFrame', 'checkFrame', 'processIncomingPacket', 'advanceFrame'):
            m = cx.idx.find_method(cls, name)
            if m is not None:
                recv |= {callee_name(c) for c in ast.walk(m.node) if isinstance(c, ast.Call)}
                recv |= {'loop-unescape'} if name in ('getFrame', 'checkFrame') and any(
                    isinstance(n, (ast.For, ast.While)) and 'self._repeat' in U(n) for n in ast.walk(m.node)) else set()
        for t in sorted(set(xf)):
            if t == 'hex':
                ok = bool(recv & set(pairs['hex']))
                ck.ob('R4', cls.qn, 'hex encoding on send is undone by a2b_hex on receive', ok, detail='unpaired-transform hex', loc=cls.loc)
            elif t == 'upper':
                ck.ob('R4', cls.qn, 'upper-casing on send is harmless: receive parses hex case-insensitively (int(x, 16) / a2b_hex)', bool(recv & {'int', 'a2b_hex'}),
                      detail='unpaired-transform upper', loc=cls.loc)
            elif t == 'escape':
                ok = 'loop-unescape' in recv or bool(recv & {'_postflight', '_unescape'})
                ck.ob('R4', cls.qn, 'delimiter doubling on send is undone on receive', ok, detail='unpaired-transform escape', loc=cls.loc,
                      message='%s framer doubles delimiter bytes in the payload when sending but never removes the doubling when receiving: a payload containing 0x7B/0x7D is not delivered' % kind)


def r7_struct_codes_and_minimum(ck, cx):
    ck.rule('R7', 'the receive side of a framer unpacks header fields with struct codes the send side packs them with (no signed reading of an unsigned field); the smallest PDU (a bare function code) is a complete frame')
    n = 0
    for kind, cqn in FRAMER_CLASSES.items():
        cls = cx.idx.cls(cqn)
        packs, unpacks = set(), []
        for c in cx.idx.mro(cls):
            if not c.qn.startswith('pymodbus.framer'):
                continue
            for m in c.methods.values():
                for nd in ast.walk(m.node):
                    if isinstance(nd, ast.Call) and callee_name(nd) in ('pack', 'unpack') and nd.args:
                        fmt = cx.ce.try_ev(nd.args[0], m.mod, cls)
                        if not isinstance(fmt, str):
                            continue
                        codes = [ch for ch in fmt if ch.isalpha()]
                        if callee_name(nd) == 'pack':
                            packs |= set(codes)
                        else:
                            unpacks.append((m, nd, codes))
        for m, nd, codes in unpacks:
            n += 1
            bad = [ch for ch in codes if ch not in packs and ch.swapcase() in packs] if packs else []
            ck.ob('R7', m.qn, 'unpack codes %s are codes the framer packs with' % ''.join(codes), not bad, detail='signedness-mismatch %s %s' % (kind, ''.join(bad)),
                  loc=cx.floc(m, nd), message='%s framer reads a header field with struct code %r while it is written with %r: values with the top bit set '
                                             '(unit ids >= 128, transaction ids >= 0x8000) come back negative' % (kind, ''.join(bad), ''.join(b_.swapcase() for b_ in bad)))
    # TLS: the ADU is the bare PDU, whose smallest form is one byte
    tls = cx.idx.cls(FRAMER_CLASSES['tls'])
    cf = cx.method(tls, 'checkFrame')
    from ..sym import constraints as _cons
    nz = cx.nz(cf.mod, tls)
    env = {k: ast.Constant(value=v) for k, v in instance_constants(cx, tls).items() if isinstance(v, int)}
    lows = []
    for p in cx.enum(cf, tls, max_depth=1):
        annotate(p, heap=False)
        r = ret_expr(p)
        if r is None or is_const(r, False):
            continue
        lo = 0
        known = True
        for ev in p.ev:
            if ev.kind == 'cond':
                for c in _cons(ev._sub, ev.a, nz, env):
                    if c[0] == 'ge' and set(k for k in c[1].t if k != ()) == {('len(self._buffer)',)} and c[1].t[('len(self._buffer)',)] == 1:
                        lo = max(lo, -c[1].t.get((), 0))
        if isinstance(r, ast.Compare) or not is_const(r, True):
            try:
                for c in _cons(r, True, nz, env):
                    if c[0] == 'ge' and set(k for k in c[1].t if k != ()) == {('len(self._buffer)',)} and c[1].t[('len(self._buffer)',)] == 1:
                        lo = max(lo, -c[1].t.get((), 0))
            except Exception:
                known = False
        if known:
            lows.append(lo)
    n += len(lows)
    ck.ob('R7', cf.qn, 'a TLS packet of one byte (function code only) is a complete frame', bool(lows) and all(l <= 1 for l in lows),
          detail='tls-minimum-frame %s' % sorted(set(lows)), loc=cx.floc(cf),
          message='tls checkFrame needs at least %s buffered bytes: requests without data (Read Exception Status, Get Comm Event Counter/Log, Report Slave ID) are never delivered'
                  % sorted(set(lows)))
    ck.floor('R7', n, 6, 'unpack sites / TLS acceptance paths')


def r6_header_keys_defined(ck, cx):
    """A fresh receiver called with its default options (what `processIncomingPacket(data, callback, unit)` means) must be able
    to deliver: on those paths every key it reads from its header dictionary is one the framer itself defines somewhere."""
    ck.rule('R6', 'with default options, no framer reads a header key on its receive path that it never defines (e.g. the TLS framing has no unit id)')
    from ..framermodel import framer_paths as _fpaths
    n = 0
    for kind in FRAMER_CLASSES:
        cls, f, fps = _fpaths(cx, kind, default_kwargs=True)
        defined = set()
        for c in cx.idx.mro(cls):
            for m in c.methods.values():
                for nd in ast.walk(m.node):
                    if isinstance(nd, (ast.Assign, ast.AugAssign)):
                        tgts = nd.targets if isinstance(nd, ast.Assign) else [nd.target]
                        for t in tgts:
                            for el in (t.elts if isinstance(t, (ast.Tuple, ast.List)) else [t]):
                                if isinstance(el, ast.Subscript) and U(el.value) == 'self._header' and isinstance(el.slice, ast.Constant):
                                    defined.add(el.slice.value)
                                if U(el) == 'self._header' and isinstance(getattr(nd, 'value', None), ast.Dict):
                                    defined |= {k.value for k in nd.value.keys if isinstance(k, ast.Constant)}
        for fp in fps:
            if fp.exit and fp.exit[0] == 'exc':
                continue
            n += 1
            for ev in fp.path.ev:
                if ev.kind not in ('cond', 'call', 'assign', 'return') or not isinstance(ev.node, ast.AST):
                    continue
                for nd in ast.walk(ev.node):
                    if isinstance(nd, ast.Subscript) and isinstance(nd.ctx, ast.Load) and U(nd.value) == 'self._header' and isinstance(nd.slice, ast.Constant):
                        ck.ob('R6', f.qn, 'header key %r read on the default receive path is defined by the %s framer' % (nd.slice.value, kind),
                              nd.slice.value in defined, detail='undefined-header-key %s %s' % (kind, nd.slice.value), loc=cx.floc(f),
                              message='%s framer: with default options the receive path reads self._header[%r], which this framer never sets: '
                                      'a whole, valid packet handed to a fresh receiver raises KeyError instead of being delivered' % (kind, nd.slice.value))
    ck.floor('R6', n, 20, 'default-option receive paths')


def run(ck, tier):
    cx = Ctx()
    builds = ck.guard(r1_build, ck, cx) or {}
    ck.guard(r2_agreement, ck, cx, builds)
    ck.guard(r3_rtu_sizes, ck, cx)
    ck.guard(r3_lookup_pdu_class, ck, cx)
    ck.guard(r4_transforms, ck, cx, builds)
    ck.guard(r6_header_keys_defined, ck, cx)
    ck.guard(r7_struct_codes_and_minimum, ck, cx)
    ck.rule('R8', 'a packet handed whole to a fresh receiver enters its buffer byte for byte (shared with C06 R5/R7)')
    from ..share import import_findings
    import_findings(ck, 'C06', 'R8', ('R5', 'R7'), 'a packet that starts with such a byte (e.g. unit id 0 on RTU) is not delivered')
    ck.rule('R5', 'checksum comparison shape and CRC constants (shared with C07 R3)')
    sub = type(ck)(ck.pid, ck.tier)
    r3_shape(sub, cx)
    for o in sub.obligations:
        ck.obligations.append(('R5',) + tuple(o[1:]))
    for f in sub.findings:
        ck.finding('R5', f.construct, f.detail, f.loc, f.message)
    ck.assume("numerical correctness of computeCRC/computeLRC beyond their constants is not decided; hence RTU 'low byte first' relies on computeCRC returning the byte-swapped value")
    ck.assume('payload-content sweeps and delivery by a fresh receiver are not decided (C06/C07 decide the structural part)')
    from ..share import import_findings as _imp
    ck.rule('R9', 'a packet handed to a fresh receiver delivers a message of the original type: the sub-function dispatch of both decoders reaches every registered code, sub-function 0 included (shared with C01 R4)')
    _imp(ck, 'C01', 'R9', ('R4',), 'the receiver of any framing delivers the bare base-class message instead of the message that was packed')
    _imp(ck, 'C01', 'R9', ('R7',), 'the receiver of any framing delivers a message of another registered class than the one that was packed')
    from .. import ownership as _own2
    ck.rule('R10', 'no unsound memoisation (a caching decorator on a method, or on a function that returns a mutable container) in the modules this property rests on')
    ck.guard(_own2.rule_no_unsafe_memo, ck, cx, 'R10', ('pymodbus.framer', 'pymodbus.framer.socket_framer', 'pymodbus.framer.rtu_framer', 'pymodbus.framer.ascii_framer', 'pymodbus.framer.binary_framer', 'pymodbus.framer.tls_framer', 'pymodbus.utilities'), 'a packet is built or parsed from a value cached for another message')
    from .. import ownership as _own4
    ck.guard(_own4.rule_instance_owned, ck, cx, 'R11', _own4.DECODERS, 'a class registered on another decoder takes over a standard function code: the packet of a standard message handed to a fresh receiver is sized and decoded as something else', 4)
    return cx.idx
