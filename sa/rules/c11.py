"""C11 — receivers resynchronise after noise and never go deaf (structural necessary conditions)."""
import ast

from ..common import Ctx, U, AnalysisError, callee_name, constraints
from ..framermodel import FRAMER_CLASSES, framer_paths
from ..frontends import FRONTENDS, recv_paths

TITLE = 'receivers resynchronise after noise and never go deaf'
KINDS = ('rtu', 'ascii', 'binary')


def _monotone(e, pol, buf='self._buffer'):
    """is `e` (required to have truth value `pol`) monotone under appending bytes to the buffer: once it holds it keeps holding
    however many bytes arrive?  Length lower bounds and delimiter-presence tests are; comparing two positions is not."""
    if isinstance(e, ast.UnaryOp) and isinstance(e.op, ast.Not):
        return _monotone(e.operand, not pol, buf)
    if isinstance(e, ast.BoolOp):
        return all(_monotone(v, pol, buf) for v in e.values)
    if isinstance(e, ast.Constant):
        return True
    if isinstance(e, ast.Call) and isinstance(e.func, ast.Name) and e.func.id == 'bool' and len(e.args) == 1:
        return _monotone(e.args[0], pol, buf)
    if buf not in U(e):
        return True                      # does not look at the buffer at all
    if isinstance(e, ast.Compare) and len(e.ops) == 1:
        l, o, r = e.left, e.ops[0], e.comparators[0]
        if isinstance(o, (ast.In, ast.NotIn)) and U(r) == buf and buf not in U(l):
            return isinstance(o, ast.In) == pol
        flip = {ast.Lt: ast.Gt, ast.LtE: ast.GtE, ast.Gt: ast.Lt, ast.GtE: ast.LtE, ast.Eq: ast.Eq, ast.NotEq: ast.NotEq}
        if buf in U(r) and buf not in U(l) and type(o) in flip:
            l, o, r = r, flip[type(o)](), l
        if buf in U(r):
            return False                 # two buffer-derived quantities compared with each other
        grows = (isinstance(l, ast.Call) and U(l) == 'len(%s)' % buf) or \
                (isinstance(l, ast.Call) and isinstance(l.func, ast.Attribute) and l.func.attr == 'count' and U(l.func.value) == buf)
        if grows:
            return isinstance(o, (ast.Gt, ast.GtE)) == pol and isinstance(o, (ast.Gt, ast.GtE, ast.Lt, ast.LtE))
        found = isinstance(l, ast.Call) and isinstance(l.func, ast.Attribute) and l.func.attr == 'find' and U(l.func.value) == buf and len(l.args) == 1 and buf not in U(l.args[0])
        if found and isinstance(r, (ast.Constant, ast.UnaryOp)):
            try:
                c = ast.literal_eval(r)
            except Exception:
                return False
            # find() >= 0 / != -1 / > -1 : the delimiter is present
            present = (isinstance(o, ast.NotEq) and c == -1) or (isinstance(o, ast.GtE) and c == 0) or (isinstance(o, ast.Gt) and c == -1)
            absent = (isinstance(o, ast.Eq) and c == -1) or (isinstance(o, ast.Lt) and c == 0) or (isinstance(o, ast.LtE) and c == -1)
            return (present and pol) or (absent and not pol)
        return False
    if U(e) == buf:
        return pol                       # truthiness of the buffer: non-empty
    return False


def r11_readiness_is_monotone(ck, cx, rule='R11'):
    """The garbage skip of the delimiter framers lives behind `while self.isFrameReady()`.  If the readiness predicate can be false
    for a buffer that holds a complete frame behind some garbage, the skip is never reached and the receiver is deaf from then on.
    A predicate that is monotone under appending (length lower bounds, delimiter-presence tests) cannot do that: whatever the
    garbage, the next complete frame makes it true.  Comparing two positions in the buffer (first end delimiter after first start
    delimiter, ...) is not monotone: garbage that contains the one before the other keeps it false for ever."""
    ck.rule(rule, 'the readiness test that gates the garbage skip of the ASCII / binary framer is monotone under appending bytes (length lower bounds and delimiter presence only): no garbage prefix can keep it false for ever')
    from ..common import annotate, ret_expr
    n = 0
    for kind in ('ascii', 'binary'):
        cls, f, fps = framer_paths(cx, kind)
        r = cx.method(cls, 'isFrameReady')
        ck.saw('functions', r.qn)
        for p in cx.enum(r, cls, max_depth=1):
            annotate(p, heap=False)
            if isinstance(p.exit, tuple) and p.exit[0] == 'exc':
                continue
            rv = ret_expr(p)
            if rv is None or (isinstance(rv, ast.Constant) and not rv.value):
                continue                 # a path on which the predicate is false
            n += 1
            parts = [(e._sub, e.a) for e in p.ev if e.kind == 'cond' and getattr(e, '_sub', None) is not None] + [(rv, True)]
            bad = [(t, a) for t, a in parts if not _monotone(t, a)]
            ck.ob(rule, r.qn, 'true-path of isFrameReady is monotone in the buffer', not bad, detail='readiness-not-monotone', loc=cx.floc(r),
                  message='%s framer: isFrameReady() holds only if `%s%s`, which appending bytes does not preserve and garbage can falsify for good (e.g. an end delimiter '
                          'ahead of the first start delimiter): the loop that skips garbage is then never entered, nothing is dropped and no later frame is delivered'
                          % (kind, '' if not bad or bad[0][1] else 'not ', U(bad[0][0])[:90] if bad else ''))
    ck.floor(rule, n, 2, 'true-paths of isFrameReady (ascii, binary)')


def r12_reset_empties_the_buffer(ck, cx, rule='R12'):
    """resetFrame() is what every recovery path relies on (the serving loops call it after a framer exception, the framers after a
    failed check, the client before a new transaction): it has to leave NOTHING in the receive buffer.  A reset that keeps part of
    the buffer keeps the misalignment that made the reset necessary."""
    ck.rule(rule, 'resetFrame() of every framer leaves the receive buffer empty on every path')
    from ..common import annotate
    n = 0
    for kind in KINDS:
        cls, f, fps = framer_paths(cx, kind)
        r = cx.method(cls, 'resetFrame')
        ck.saw('functions', r.qn)
        for p in cx.enum(r, cls, max_depth=2):
            if p.exit and isinstance(p.exit, tuple) and p.exit[0] == 'exc':
                continue
            st = annotate(p, heap=True)
            n += 1
            v = st.heap.get('self._buffer')
            folded = cx.ce.try_ev(v, r.mod, cls, default=None) if v is not None else None
            empty = isinstance(v, ast.Constant) and v.value in (b'', '') or folded in (b'', '')
            conds = [('' if e.a else 'not ') + U(getattr(e, '_sub', None) or e.node)[:40] for e in p.ev if e.kind == 'cond']
            ck.ob(rule, r.qn, 'buffer is empty after resetFrame() [%s]' % '; '.join(conds)[:60], bool(empty), detail='reset-keeps-bytes', loc=cx.floc(r),
                  message='%s framer: resetFrame() leaves `%s` in the buffer%s: the recovery paths that rely on it (after a framer exception, after a failed check, before a '
                          'new transaction) keep the very bytes that put the receiver out of step, and it does not resynchronise'
                          % (kind, U(v)[:60] if v is not None else 'the old contents', (' when ' + '; '.join(conds)[:80]) if conds else ''))
    ck.floor(rule, n, 3, 'paths of resetFrame over the framers')


def r13_reset_restores_all_framing_state(ck, cx, rule='R13'):
    """Everything a framer remembers between calls is framing state: the buffer, the parsed header, and whatever else its receive
    methods store on the instance (a scan offset, a cached frame size).  resetFrame() is the recovery primitive; state it leaves
    behind describes bytes that are gone, and the receiver stays out of step with the stream (a search offset beyond the end of
    the next frames means their terminator is never found).  Every attribute the receive-side methods assign is assigned by
    resetFrame() too (which value the header gets is C06 R3's concern)."""
    ck.rule(rule, 'resetFrame() re-initialises every attribute the receive-side methods of the framer assign (buffer, header and any further remembered position)')
    from ..common import annotate
    n = 0
    SEND_SIDE = ('buildPacket', 'sendPacket', '__init__', 'resetFrame')
    for kind in ('tcp',) + tuple(KINDS):
        cls, f, fps = framer_paths(cx, kind)
        state = {}
        for k in cx.idx.mro(cls):
            if not k.qn.startswith('pymodbus.framer'):
                continue
            for fn in k.methods.values():
                if fn.name in SEND_SIDE or cx.idx.find_method(cls, fn.name) is not fn:
                    continue
                for x in ast.walk(fn.node):
                    tg = x.targets if isinstance(x, ast.Assign) else ([x.target] if isinstance(x, ast.AugAssign) else [])
                    for t in tg:
                        for el in (t.elts if isinstance(t, (ast.Tuple, ast.List)) else [t]):
                            base = el
                            while isinstance(base, ast.Subscript):
                                base = base.value
                            if isinstance(base, ast.Attribute) and U(base.value) == 'self':
                                state.setdefault(base.attr, fn)
        r = cx.method(cls, 'resetFrame')
        init = cx.method(cls, '__init__')
        ck.saw('functions', r.qn)

        def final(fn_):
            vals = {}
            for p in cx.enum(fn_, cls, max_depth=2, default_kwargs=True):
                if p.exit and isinstance(p.exit, tuple) and p.exit[0] == 'exc':
                    continue
                st = annotate(p, heap=True)
                for a in state:
                    v = st.heap.get('self.' + a)
                    vals.setdefault(a, set()).add(None if v is None else repr(cx.ce.try_ev(v, fn_.mod, cls, default=U(v))))
            return vals
        rv, iv = final(r), final(init)
        for a, where in sorted(state.items()):
            n += 1
            got = rv.get(a, {None})
            ck.ob(rule, r.qn, 'resetFrame() assigns self.%s' % a, None not in got, detail='reset-leaves-state %s' % a, loc=cx.floc(r),
                  message='%s framer: %s stores self.%s, resetFrame() does not re-initialise it: after a reset the framer still carries a remembered position / size of bytes '
                          'that are gone, and frames that arrive afterwards are measured against it' % (kind, where.qn, a))
    ck.floor(rule, n, 6, 'framing-state attributes over the framers')


def run(ck, tier):
    cx = Ctx()
    ck.rule('R1', 'progress on a corrupt complete frame: after a failed integrity check (checkCRC/checkLRC false) the buffer shrinks before processIncomingPacket returns')
    ck.rule('R2', 'progress on a frame for a foreign unit: the rejected-unit branch shrinks the buffer')
    ck.rule('R3', 'garbage before a start delimiter is dropped (the start > 0 branch re-slices the buffer)')
    ck.rule('R4', 'serial / datagram receive loops reset the framer or end the connection on every exception from the framer')
    n1 = n2 = n3 = 0
    n3b = []
    for kind in KINDS:
        cls, f, fps = framer_paths(cx, kind)
        ck.saw('functions', f.qn)
        ck.saw('framers', kind)
        nz = cx.nz(f.mod, cls)
        for fp in fps:
            bad = [x for x in fp.integrity if x[2] is False]
            if bad:
                n1 += 1
                i0 = bad[0][0]
                later = [s for s in fp.shrinks if s[0] > i0]
                ck.ob('R1', f.qn, 'buffer shrinks after a failed %s' % bad[0][1], bool(later), detail='no-progress-after-failed-%s' % bad[0][1],
                      loc=cx.floc(f),
                      message='%s framer keeps a frame whose %s failed in its buffer: the same bytes are re-examined on every call and all later frames are blocked'
                              % (kind, bad[0][1]))
                ck.ob('R1', f.qn, 'a corrupt frame is not delivered', not [d for d in fp.deliveries if d > i0], detail='delivery-after-failed-check', loc=cx.floc(f))
            swallowed = [i for i, ev in enumerate(fp.path.ev) if ev.kind == 'handler']
            if swallowed and not (fp.exit and fp.exit[0] == 'exc'):
                later = [s for s in fp.shrinks if s[0] > swallowed[0]]
                ck.ob('R1', f.qn, 'an exception the framer catches itself is followed by progress (the undigestible bytes are dropped)', bool(later),
                      detail='no-progress-after-swallowed-exception', loc=cx.floc(f),
                      message='%s framer catches %s inside processIncomingPacket and returns without dropping anything: the handler never sees the '
                              'exception (so it does not reset the framer) and the same bytes fail again on every later call' % (kind, fp.path.ev[swallowed[0]].b))
            if fp.unit_reject is not None:
                n2 += 1
                later = [s for s in fp.shrinks if s[0] > fp.unit_reject]
                ck.ob('R2', f.qn, 'buffer shrinks after a frame for a foreign unit', bool(later), detail='no-progress-after-foreign-unit', loc=cx.floc(f),
                      message='%s framer keeps a frame addressed to another unit in its buffer forever' % kind)
            # garbage skip
            for i, ev in enumerate(fp.path.ev):
                if ev.kind == 'cond' and ev.a is True and '.find(' in U(ev._sub):
                    cs = constraints(ev._sub, True, nz)
                    skip = any(c[0] == 'ge' and c[1].const_value() is None and c[1].t.get((), 0) == -1 and
                               all(v == 1 for k, v in c[1].t.items() if k != ()) for c in cs)
                    if skip:
                        n3 += 1
                        nxt = [s for s in fp.shrinks if s[0] > i]
                        ck.ob('R3', f.qn, 'bytes before the start delimiter are dropped', bool(nxt) and nxt[0][1] == 'slice',
                              detail='garbage-prefix-kept', loc=cx.floc(f),
                              message='%s framer finds the start delimiter at an offset > 0 but does not drop the bytes before it' % kind)
            # the skip cuts at the FIRST start delimiter: everything from the first delimiter on may be a valid frame
            for i, sk in fp.shrinks:
                ev = fp.path.ev[i]
                v = getattr(ev, '_sub', None)
                if sk != 'slice' or not isinstance(v, ast.Subscript) or not isinstance(v.slice, ast.Slice) or v.slice.lower is None:
                    continue
                lo = v.slice.lower
                searches = [c for c in ast.walk(lo) if isinstance(c, ast.Call) and isinstance(c.func, ast.Attribute)
                            and c.func.attr in ('find', 'rfind', 'index', 'rindex') and c.args and U(c.args[0]) == 'self._start']
                for c in searches:
                    n3b.append(1)
                    first = c.func.attr in ('find', 'index') and len(c.args) == 1 and U(lo) == U(c)
                    ck.ob('R3', f.qn, 'garbage skip cuts the buffer at the first start delimiter', first,
                          detail='skip-not-to-first-delimiter %s' % c.func.attr, loc=cx.floc(f, ev.node),
                          message='%s framer skips to `%s`: complete frames that precede the last start delimiter in the buffer are thrown away as garbage'
                                  % (kind, U(lo)[:60]))
        if kind in ('ascii', 'binary'):
            ck.ob('R3', f.qn, 'framer has a skip-to-start-delimiter branch', any(
                ev.kind == 'cond' and '.find(' in U(ev._sub) for fp in fps for ev in fp.path.ev), detail='no-delimiter-search', loc=cx.floc(f))
    ck.rule('R5', 'state carried between calls stays coherent: a cached header is reset whenever bytes are dropped from the front of the buffer, and addToFrame only appends (shared with C06 R6/R7)')
    from .c06 import r6_header_cache_coherence, r7_add_appends
    for kind in KINDS:
        cls, f, fps = framer_paths(cx, kind)
        ck.guard(r6_header_cache_coherence, ck, cx, kind, cls, f, fps, 'R5')
        ck.guard(r7_add_appends, ck, cx, kind, cls, 'R5')
    ck.rule('R6', 'the client-side receiver drops an abandoned partial reply before the next transaction (shared with C08 R4)')
    from ..share import import_findings
    import_findings(ck, 'C08', 'R6', ('R4',), 'the fragment stays at the head of the buffer and every later reply is appended behind it: the master is deaf from then on')
    ck.rule('R7', 'every class lookupPduClass can hand the RTU framer knows its frame size, and the table is consulted with the byte as received: no exception other than the caught IndexError leaves the frame-size oracle (shared with C03 R3)')
    from .c03 import r3_lookup_pdu_class
    ck.guard(r3_lookup_pdu_class, ck, cx, 'R7')
    ck.floor('R1', n1, 3, 'failed-integrity paths')
    ck.floor('R2', n2, 3, 'foreign-unit paths')
    ck.floor('R3', n3, 2, 'garbage-prefix paths')
    ck.floor('R3', len(n3b), 2, 'garbage-skip slices traced to their delimiter search')
    n4 = 0
    for fe in FRONTENDS:
        if fe[0] not in ('sync-single', 'sync-datagram', 'asyncio-datagram', 'sync-stream', 'asyncio-stream'):
            continue
        cls, f, rps = recv_paths(cx, fe)
        ck.saw('functions', f.qn)
        for rp in rps:
            if rp.raised and 'processIncomingPacket' in rp.raised[1] and not (rp.exit and rp.exit[0] == 'exc'):
                n4 += 1
                ck.ob('R4', f.qn, 'after a framer exception: resetFrame() or connection end', rp.reset or rp.stops,
                      detail='no-reset-after-framer-exception', loc=cx.floc(f),
                      message='%s: an exception from the framer leaves its partial state in place and the loop continues' % fe[0])
    ck.floor('R4', n4, 5, 'framer-exception handler paths')
    ck.assume('liveness over all futures, the two-frame bound and boundedness of the backlog are not decided; these are necessary progress conditions per failure kind')
    ck.assume('RTU frames carry no delimiter: resynchronisation inside a byte stream is not decided')
    from .. import ownership as _own
    ck.guard(_own.rule_instance_owned, ck, cx, 'R8', _own.FRAMERS[1:4], "the parsed header of one receiver's pending frame is overwritten by another receiver, which then mis-sizes its frames", 3)
    from ..share import import_findings as _imp
    ck.rule('R9', 'the serial client discards stale input before every request on every framing (shared with C13 R5)')
    _imp(ck, 'C13', 'R9', ('R5',), 'noise or an abandoned reply left in the port shifts every later count-based read: the master never resynchronises')
    ck.guard(r11_readiness_is_monotone, ck, cx)
    ck.guard(r12_reset_empties_the_buffer, ck, cx)
    ck.guard(r13_reset_restores_all_framing_state, ck, cx)
    from .. import strtypes as _st
    ck.rule('R10', 'hexlify_packets, evaluated with the receive buffer on every reset / processing path outside any log-level guard, is total: what it joins is text')
    ck.guard(_st.rule_join_total, ck, cx, 'R10', ('pymodbus.utilities.hexlify_packets',), 'resetFrame() raises before it clears the buffer: the backlog is never dropped and the serial handler dies in its own except branch')
    return cx.idx
