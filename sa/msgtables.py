"""Const-evaluated decoder tables (which class handles which function / sub-function code)."""
import ast

from .loader import AnalysisError, Cls


def table(cx, decoder_name, attr):
    d = cx.idx.cls('pymodbus.factory.' + decoder_name)
    try:
        t = cx.ce.class_member(d, attr)
    except Exception as e:
        raise AnalysisError('cannot fold %s.%s: %s' % (decoder_name, attr, e))
    if not isinstance(t, list) or not all(isinstance(x, Cls) for x in t):
        raise AnalysisError('%s.%s is not a list of classes' % (decoder_name, attr))
    return d, t


def registered_classes(cx):
    """-> (request classes, response classes), each in table order, sub-function classes included, deduplicated"""
    out = []
    for dn in ('ServerDecoder', 'ClientDecoder'):
        seen = []
        for attr in ('__function_table', '__sub_function_table'):
            for k in table(cx, dn, attr)[1]:
                if k not in seen:
                    seen.append(k)
        out.append(seen)
    return out[0], out[1]


def code_of(cx, cls, name='function_code'):
    return cx.ce.try_ev(ast.Name(id=name, ctx=ast.Load()), cls.mod, cls)
