"""L2: structured, bounded, interprocedural path enumeration.

A *path* is a sequence of events (conditions with polarity, calls, assignments,
loop marks, handler entries) ending in an exit (fall-through / return / raise).
Loops are explored for zero and one iteration (the back-edge ends the
iteration and is marked).  Local names that are only ever bound to constants
(`broadcast`, `reset_frame`, `error`) are constant-propagated so that
infeasible branches are not explored.  Calls that the resolver can bind to a
function of the package are inlined (bounded depth); everything else becomes a
`call` event, optionally with exceptional successors given by `may_raise`.

Nothing is executed: this is a syntax-directed walk over the AST.
"""
import ast

from .loader import AnalysisError, Func, Cls

U = ast.unparse


class Frame:
    __slots__ = ('func', 'cls', 'fid', 'depth', 'call')

    def __init__(self, func, cls, fid, depth, call=None):
        self.func, self.cls, self.fid, self.depth, self.call = func, cls, fid, depth, call

    @property
    def qn(self):
        if self.func is None:
            return '<lambda>'
        if self.cls is not None and self.func.cls is not None:
            return '%s.%s' % (self.cls.name, self.func.name)
        return self.func.qn

    def __repr__(self):
        return '<frame %s#%d>' % (self.qn, self.fid)


class Ev:
    """event: kind in cond/call/assign/aug/loop/handler/raise/enter/leave/with/endwith/return/del"""
    __slots__ = ('kind', 'node', 'frame', 'a', 'b', '_sub', '_subt')

    def __init__(self, kind, node, frame, a=None, b=None):
        self.kind, self.node, self.frame, self.a, self.b = kind, node, frame, a, b

    def text(self):
        try:
            return U(self.node) if isinstance(self.node, ast.AST) else str(self.node)
        except Exception:
            return '?'

    def __repr__(self):
        return '%s(%s%s%s)@%s' % (self.kind, self.text()[:60],
                                  '' if self.a is None else ', %r' % (self.a,),
                                  '' if self.b is None else ', %r' % (self.b,), self.frame.qn)


class Path:
    __slots__ = ('ev', 'env', 'fn', 'exit', 'nf', 'ret')

    def __init__(self):
        self.ev, self.env, self.fn, self.exit, self.nf, self.ret = [], {}, {}, None, 0, None

    def fork(self):
        q = Path()
        q.ev, q.env, q.fn, q.exit, q.nf, q.ret = list(self.ev), dict(self.env), dict(self.fn), self.exit, self.nf, self.ret
        return q

    def calls(self, pred=None):
        return [e for e in self.ev if e.kind == 'call' and (pred is None or pred(e))]

    def conds(self):
        return [e for e in self.ev if e.kind == 'cond']


_UNKNOWN = object()


class Hier:
    """exception class hierarchy: repo classes + builtin table"""
    BUILTIN = {
        'BaseException': [], 'Exception': ['BaseException'],
        'ValueError': ['Exception'], 'TypeError': ['Exception'], 'KeyError': ['LookupError'],
        'IndexError': ['LookupError'], 'LookupError': ['Exception'], 'AttributeError': ['Exception'],
        'OSError': ['Exception'], 'socket.error': ['OSError'], 'socket.timeout': ['OSError'],
        'IOError': ['OSError'], 'ConnectionError': ['OSError'], 'TimeoutError': ['OSError'],
        'struct.error': ['Exception'], 'binascii.Error': ['ValueError'], 'UnicodeDecodeError': ['ValueError'],
        'NotImplementedError': ['RuntimeError'], 'RuntimeError': ['Exception'],
        'asyncio.CancelledError': ['BaseException'], 'CancelledError': ['BaseException'],
        'serial.SerialException': ['OSError'], 'AssertionError': ['Exception'],
        'ZeroDivisionError': ['ArithmeticError'], 'ArithmeticError': ['Exception'],
        'OverflowError': ['ArithmeticError'], 'StopIteration': ['Exception'],
        'AnyException': ['Exception'],       # "some subclass of Exception, unknown which"
        'KeyboardInterrupt': ['BaseException'], 'SystemExit': ['BaseException'],
    }

    def __init__(self, idx):
        self.sup = dict(self.BUILTIN)
        for c in idx.all_classes():
            names = [k.name for k in idx.mro(c)[1:]] + idx.extern_bases(c)
            if any(n in ('Exception', 'BaseException') or n.endswith('Exception') or n.endswith('Error') for n in names):
                self.sup[c.name] = names

    def ancestors(self, name):
        out, todo = [], [name]
        while todo:
            n = todo.pop()
            if n in out:
                continue
            out.append(n)
            todo += self.sup.get(n, ['Exception'] if n not in ('BaseException',) else [])
        return out

    def caught_by(self, exc, handler_names):
        """does `except handler_names` catch an exception of class `exc`?
        'AnyException' is caught only by Exception/BaseException handlers (it stands for an
        arbitrary Exception subclass, so a narrower handler does not cover it)."""
        anc = self.ancestors(exc)
        return any(h in anc for h in handler_names)


def handler_names(h):
    if h.type is None:
        return ['BaseException']
    ts = h.type.elts if isinstance(h.type, ast.Tuple) else [h.type]
    return [U(t) for t in ts]


def _replace_node(root, target, repl):
    """copy of `root` in which the node `target` (by identity) is replaced by `repl`; other nodes are shared"""
    if root is target:
        return repl
    if not isinstance(root, ast.AST):
        return root
    changed = False
    fields = {}
    for name, val in ast.iter_fields(root):
        if isinstance(val, list):
            nv = [_replace_node(x, target, repl) for x in val]
            if any(a is not b for a, b in zip(nv, val)):
                changed = True
            fields[name] = nv
        elif isinstance(val, ast.AST):
            nv = _replace_node(val, target, repl)
            if nv is not val:
                changed = True
            fields[name] = nv
        else:
            fields[name] = val
    if not changed:
        return root
    new = type(root)(**fields)
    ast.copy_location(new, root)
    if hasattr(root, '_parent'):
        new._parent = root._parent
    return new


class PathEnum:
    def __init__(self, idx, resolver=None, may_raise=None, max_paths=200000, max_depth=3, hier=None):
        self.idx = idx
        self.resolver = resolver or (lambda call, frame, path: None)
        self.may_raise = may_raise or (lambda node, frame, path: [])
        self.max_paths, self.max_depth = max_paths, max_depth
        self.hier = hier or Hier(idx)
        self.count = 0
        self.stop_nodes = set()      # statements at which enumeration stops (exit ('stop', node))

    # ------------------------------------------------------------ top level
    def run(self, func, cls=None, consts=None, fnbinds=None):
        p = Path()
        fr = Frame(func, cls, 0, 0)
        p.nf = 1
        for k, v in (consts or {}).items():
            p.env[(0, k)] = v
        for k, v in (fnbinds or {}).items():
            p.fn[(0, k)] = v
        # the root function's parameters are unknown: defaults are NOT assumed
        outs = self.block(func.node.body, p, fr)
        for q in outs:
            if q.exit is None:
                q.exit = ('return', None)
        return outs

    def _bind_defaults(self, func, fr, p, given):
        a = func.node.args
        pos = a.posonlyargs + a.args
        for arg, d in zip(pos[len(pos) - len(a.defaults):], a.defaults):
            if arg.arg not in given and isinstance(d, ast.Constant):
                p.env[(fr.fid, arg.arg)] = d.value
        for arg, d in zip(a.kwonlyargs, a.kw_defaults):
            if d is not None and arg.arg not in given and isinstance(d, ast.Constant):
                p.env[(fr.fid, arg.arg)] = d.value

    def _guard(self):
        self.count += 1
        if self.count > self.max_paths * 40:
            raise AnalysisError('path enumeration budget exceeded')

    # -------------------------------------------------------------- consts
    def const_of(self, e, p, fr):
        if isinstance(e, ast.Constant):
            return e.value
        if isinstance(e, ast.Tuple) and e.elts and all(isinstance(x, (ast.Constant, ast.Name, ast.Attribute)) for x in e.elts):
            return e            # a row of a constant table: the literal itself is the value (truthy; indexable below)
        if isinstance(e, ast.Subscript) and isinstance(e.slice, ast.Constant) and isinstance(e.slice.value, int) and not isinstance(e.slice.value, bool):
            base = self.const_of(e.value, p, fr) if isinstance(e.value, ast.Name) else _UNKNOWN
            if isinstance(base, ast.Tuple) and -len(base.elts) <= e.slice.value < len(base.elts):
                return self.const_of(base.elts[e.slice.value], p, fr)
            return _UNKNOWN
        if isinstance(e, ast.Name):
            f = fr
            while True:
                if (f.fid, e.id) in p.env:
                    return p.env[(f.fid, e.id)]
                if isinstance(f, _LambdaFrame):
                    f = f.defining
                else:
                    return _UNKNOWN
        if isinstance(e, ast.UnaryOp) and isinstance(e.op, ast.Not):
            v = self.const_of(e.operand, p, fr)
            return _UNKNOWN if v is _UNKNOWN else (not v)
        if isinstance(e, ast.Call) and isinstance(e.func, ast.Name) and e.func.id == 'hasattr' and len(e.args) == 2 and not e.keywords \
                and isinstance(e.args[1], ast.Constant) and isinstance(e.args[1].value, str):
            # hasattr(<local known to hold None / a number / a string>, 'name') is decided by the type of the constant
            v = self.const_of(e.args[0], p, fr) if isinstance(e.args[0], (ast.Name, ast.Constant)) else _UNKNOWN
            if v is None or isinstance(v, (bool, int, float, str, bytes)):
                return hasattr(v, e.args[1].value)
        if getattr(self, 'default_kwargs', False) and isinstance(e, ast.Call) and isinstance(e.func, ast.Attribute) and e.func.attr == 'get' \
                and isinstance(e.func.value, ast.Name) and len(e.args) == 2 and all(isinstance(a, ast.Constant) for a in e.args):
            # default-call mode: an option looked up in **kwargs takes its default
            func = getattr(fr, 'func', None)
            kw = getattr(getattr(getattr(func, 'node', None), 'args', None), 'kwarg', None)
            if kw is not None and kw.arg == e.func.value.id and fr.fid == 0:
                return e.args[1].value
        if getattr(self, 'default_kwargs', False) and fr.fid == 0:
            func = getattr(fr, 'func', None)
            kw = getattr(getattr(getattr(func, 'node', None), 'args', None), 'kwarg', None)
            if kw is not None:
                # default-call mode: no keyword option was passed, so `'opt' in kwargs` is False and .get('opt') is None
                if isinstance(e, ast.Compare) and len(e.ops) == 1 and isinstance(e.ops[0], (ast.In, ast.NotIn)) and isinstance(e.left, ast.Constant) \
                        and isinstance(e.comparators[0], ast.Name) and e.comparators[0].id == kw.arg and (fr.fid, kw.arg) not in p.env:
                    return isinstance(e.ops[0], ast.NotIn)
                if isinstance(e, ast.Call) and isinstance(e.func, ast.Attribute) and e.func.attr in ('get', 'pop') and isinstance(e.func.value, ast.Name) \
                        and e.func.value.id == kw.arg and len(e.args) == 1 and isinstance(e.args[0], ast.Constant) and e.func.attr == 'get':
                    return None
                if isinstance(e, ast.Call) and isinstance(e.func, ast.Attribute) and e.func.attr == 'pop' and isinstance(e.func.value, ast.Name) \
                        and e.func.value.id == kw.arg and len(e.args) == 2 and all(isinstance(a, ast.Constant) for a in e.args):
                    return e.args[1].value
        if isinstance(e, ast.Call) and isinstance(e.func, ast.Name) and e.func.id == 'isinstance' and len(e.args) == 2 \
                and isinstance(e.args[0], ast.Name) and e.args[0].id == 'self' and isinstance(e.args[1], ast.Name):
            # the receiver's concrete class is the one the enumeration was started for
            root = fr
            while isinstance(root, _LambdaFrame):
                root = root.defining
            cls = getattr(root, 'cls', None)
            mod = getattr(getattr(root, 'func', None), 'mod', None)
            if cls is not None and mod is not None and not any((f_.fid, 'self') in p.env for f_ in (root,)):
                r = self.idx.lookup(mod, e.args[1].id)
                if r and r[0] == 'class':
                    return r[1] in self.idx.mro(cls)
        if isinstance(e, ast.Compare) and len(e.ops) == 1 and isinstance(e.ops[0], (ast.Lt, ast.LtE, ast.Gt, ast.GtE)):
            a, b = self.const_of(e.left, p, fr), self.const_of(e.comparators[0], p, fr)
            if all(isinstance(x, (int, float)) and not isinstance(x, bool) for x in (a, b)):
                import operator
                return {ast.Lt: operator.lt, ast.LtE: operator.le, ast.Gt: operator.gt, ast.GtE: operator.ge}[type(e.ops[0])](a, b)
            return _UNKNOWN
        if isinstance(e, ast.Compare) and len(e.ops) == 1 and isinstance(e.ops[0], (ast.Is, ast.IsNot, ast.Eq, ast.NotEq)):
            a, b = self.const_of(e.left, p, fr), self.const_of(e.comparators[0], p, fr)
            if a is not _UNKNOWN and b is not _UNKNOWN:
                r = (a is b) if isinstance(e.ops[0], (ast.Is, ast.IsNot)) else (a == b)
                if isinstance(e.ops[0], (ast.Is, ast.IsNot)) and not (a is None or b is None or isinstance(a, bool)):
                    return _UNKNOWN
                return r if isinstance(e.ops[0], (ast.Is, ast.Eq)) else (not r)
        return _UNKNOWN

    # ---------------------------------------------------------- expressions
    def _note_calls(self, node, p, fr, skip=None):
        """emit call events (and exceptional forks) for every call inside node, inner first.
        returns list of exceptional paths."""
        exc = []
        for c in self._calls_in(node):
            if c is skip:
                continue
            for name in self.may_raise(c, fr, p):
                q = p.fork()
                q.ev.append(Ev('raise', c, fr, name))
                q.exit = ('exc', name)
                exc.append(q)
            if isinstance(c, ast.Call):
                p.ev.append(Ev('call', c, fr))
        return exc

    def _calls_in(self, node):
        out = []

        def rec(n):
            if isinstance(n, (ast.Lambda, ast.FunctionDef, ast.AsyncFunctionDef, ast.ClassDef)):
                return
            for ch in ast.iter_child_nodes(n):
                rec(ch)
            if isinstance(n, (ast.Call, ast.Subscript)):
                out.append(n)
        rec(node)
        return out

    def _inline(self, call, p, fr):
        """returns list of (path, retnode|None, retframe) or None if not inlinable"""
        if not isinstance(call, ast.Call):
            return None
        if isinstance(getattr(call, '_parent', None), ast.Await):
            pass
        tgt = self.resolver(call, fr, p)
        if tgt is None:
            return None
        if fr.depth >= self.max_depth:
            return None
        func, cls, extra = tgt
        # calls inside the arguments are noted first
        excs = []
        for a in list(call.args) + [k.value for k in call.keywords]:
            excs += self._note_calls(a, p, fr)
        q = p.fork()
        skip = extra.get('skip_args', 0)
        args = list(extra.get('pre_args', [])) + [(a, fr) for a in call.args[skip:]]
        kwargs = dict(extra.get('pre_kwargs', {}))
        kwargs.update({k.arg: (k.value, fr) for k in call.keywords if k.arg})
        if isinstance(func, Func):
            nfr = Frame(func, cls, q.nf, fr.depth + 1, call)
            q.nf += 1
            params = func.params
            if func.cls is not None and not func.is_staticmethod:
                params = params[1:]
            body = func.node.body
        elif len(func) == 3 and func[0] == 'localdef':
            _, node, dfr = func
            nfr = _LambdaFrame(dfr, q.nf, fr.depth + 1, call)
            q.nf += 1
            params = [x.arg for x in node.args.args]
            body = node.body
        else:   # lambda: (node, defining frame)
            lam, dfr = func
            nfr = _LambdaFrame(dfr, q.nf, fr.depth + 1, call)
            q.nf += 1
            params = [x.arg for x in lam.args.args]
            body = [ast.Return(value=lam.body)]
        given = set()
        for name, (a, afr) in list(zip(params, args)) + [(k, v) for k, v in kwargs.items() if k in params]:
            given.add(name)
            v = self.const_of(a, q, afr)
            if v is not _UNKNOWN:
                q.env[(nfr.fid, name)] = v
            else:
                fb = self._fnref(a, q, afr)
                if fb is not None:
                    q.fn[(nfr.fid, name)] = fb
        if isinstance(func, Func):
            self._bind_defaults(func, nfr, q, given)
        q.ev.append(Ev('enter', call, nfr, fr))
        res = []
        for r in self.block(body, q, nfr):
            if r.exit is None or (isinstance(r.exit, tuple) and r.exit[0] == 'return'):
                retnode = r.exit[1] if r.exit else None
                # the returned expression may itself have come out of a deeper call (`return self._build(...)`): it is to be read in
                # the frame it was written in, which the return event recorded
                rframe = nfr
                if r.exit:
                    for e_ in reversed(r.ev):
                        if e_.kind == 'return' and e_.frame is nfr:
                            if e_.a is retnode and e_.b is not None and not isinstance(e_.b, (str, tuple)):
                                rframe = e_.b
                            break
                r.exit = None
                r.ev.append(Ev('leave', call, nfr))
                res.append((r, retnode, rframe))
            else:
                r.ev.append(Ev('leave', call, nfr, 'exc'))
                res.append((r, _UNKNOWN, nfr))      # exceptional: r.exit set
        for x in excs:
            res.append((x, _UNKNOWN, fr))
        return res

    def _fnref(self, a, p, fr):
        """is expression `a` a reference to a function (for callback binding)?"""
        if isinstance(a, ast.Lambda):
            return ('lambda', a, fr)
        if isinstance(a, ast.Name) and (fr.fid, a.id) in p.fn:
            return p.fn[(fr.fid, a.id)]
        if isinstance(a, ast.Attribute) and isinstance(a.value, ast.Name) and a.value.id == 'self' and fr.cls is not None:
            m = self.idx.find_method(fr.cls, a.attr)
            if m is not None:
                return ('method', m, fr.cls)
        if isinstance(a, ast.Call) and U(a.func) in ('partial', 'functools.partial') and a.args:
            inner = self._fnref(a.args[0], p, fr)
            if inner is not None:
                return ('partial', inner, [(x, fr) for x in a.args[1:]], {k.arg: (k.value, fr) for k in a.keywords})
        if isinstance(a, ast.Name):
            r = self.idx.lookup(fr.func.mod, a.id) if fr.func is not None else None
            if r and r[0] == 'func':
                return ('func', r[1])
        return None

    def cond_paths(self, test, p, fr):
        """-> list of (path, truth) ; exceptional paths have path.exit set (truth None)"""
        self._guard()
        if isinstance(test, ast.UnaryOp) and isinstance(test.op, ast.Not):
            return [(q, (None if t is None else (not t))) for q, t in self.cond_paths(test.operand, p, fr)]
        if isinstance(test, ast.BoolOp):
            is_and = isinstance(test.op, ast.And)
            cur = [(p, None)]
            done = []
            for i, v in enumerate(test.values):
                nxt = []
                for q, _ in cur:
                    for r, t in self.cond_paths(v, q, fr):
                        if t is None:
                            done.append((r, None))
                        elif (is_and and not t) or (not is_and and t):
                            done.append((r, t))
                        elif i == len(test.values) - 1:
                            done.append((r, t))
                        else:
                            nxt.append((r, t))
                cur = nxt
            return done
        cv = self.const_of(test, p, fr)
        if cv is not _UNKNOWN:
            return [(p, bool(cv))]
        if isinstance(test, ast.Call):
            inl = self._inline(test, p, fr)
            if inl is not None:
                out = []
                for q, ret, rfr in inl:
                    if q.exit is not None:
                        out.append((q, None))
                    elif ret is None:
                        q.ev.append(Ev('truth', test, fr, False))
                        out.append((q, False))
                    else:
                        # evaluate the returned expression as a condition in the callee frame
                        for r, t in self.cond_paths(ret, q, rfr):
                            if t is not None:
                                r.ev.append(Ev('truth', test, fr, t))
                            out.append((r, t))
                return out
        if isinstance(test, ast.Compare) and fr.depth < self.max_depth:
            # `self._helper(x) >= K`: an operand that is an inlinable call is evaluated into a temporary first (its branches become
            # branches of this path), then the comparison is made on the value it returned
            for operand in [test.left] + list(test.comparators):
                tgt_ = self.resolver(operand, fr, p) if isinstance(operand, ast.Call) else None
                if tgt_ is not None and hasattr(tgt_[0], 'node'):
                    body_ = [x for x in tgt_[0].node.body if not (isinstance(x, ast.Expr) and isinstance(x.value, ast.Constant))]
                    if all(isinstance(x, (ast.Assign, ast.Return)) for x in body_):
                        tgt_ = None     # a straight-line helper is an expression: the normaliser inlines it where it stands
                if isinstance(operand, ast.Call) and tgt_ is not None:
                    inl = self._inline(operand, p, fr)
                    if inl is None:
                        break
                    out = []
                    for q, ret, rfr in inl:
                        if q.exit is not None:
                            out.append((q, None))
                            continue
                        if ret is None or ret is _UNKNOWN:
                            for pol in (True, False):
                                r = q.fork()
                                r.ev.append(Ev('cond', test, fr, pol))
                                out.append((r, pol))
                            continue
                        tmp = '__cmp%d' % len(q.ev)
                        tn = ast.Name(id=tmp, ctx=ast.Store())
                        asg = ast.Assign(targets=[tn], value=operand)
                        ast.copy_location(asg, test)
                        q.ev.append(Ev('assign', asg, fr, tn, (ret, rfr)))
                        t2 = _replace_node(test, operand, ast.Name(id=tmp, ctx=ast.Load()))
                        out += self.cond_paths(t2, q, fr)
                    return out
        out = []
        q = p.fork()
        out += [(x, None) for x in self._note_calls(test, q, fr)]
        for pol in (True, False):
            r = q.fork()
            r.ev.append(Ev('cond', test, fr, pol))
            out.append((r, pol))
        return out

    def value_paths(self, value, p, fr):
        """evaluate an expression in statement position -> list of (path, retnode, retframe)"""
        if isinstance(value, ast.Await):
            value = value.value
        if isinstance(value, ast.IfExp):
            cv = self.const_of(value.test, p, fr)
            if cv is not _UNKNOWN:
                return self.value_paths(value.body if cv else value.orelse, p, fr)
            outs = []
            for q, t in self.cond_paths(value.test, p, fr):
                if t is None:
                    outs.append((q, _UNKNOWN, fr))
                else:
                    outs += self.value_paths(value.body if t else value.orelse, q, fr)
            return outs
        if isinstance(value, ast.Call):
            # arguments are evaluated before the call: an argument that is itself an inlinable call of a package FUNCTION (its effects
            # -- stores into the objects it is given -- happen first) is hoisted into a temporary before the callee is entered
            if self.resolver(value, fr, p) is not None and fr.depth < self.max_depth:
                for ai, a in enumerate(value.args):
                    if isinstance(a, ast.Call) and isinstance(a.func, ast.Name) and self.resolver(a, fr, p) is not None:
                        outs = []
                        for q, ret, rfr in self._inline(a, p, fr):
                            if q.exit is not None:
                                outs.append((q, _UNKNOWN, fr))
                                continue
                            tmp = '__arg%d_%d' % (len(q.ev), ai)
                            tn = ast.Name(id=tmp, ctx=ast.Store())
                            asg = ast.Assign(targets=[tn], value=a)
                            ast.copy_location(asg, value)
                            q.ev.append(Ev('assign', asg, fr, tn, (ret, rfr)))
                            v2 = ast.Call(func=value.func, args=list(value.args), keywords=value.keywords)
                            v2.args[ai] = ast.Name(id=tmp, ctx=ast.Load())
                            ast.copy_location(v2, value)
                            outs += self.value_paths(v2, q, fr)
                        return outs
            inl = self._inline(value, p, fr)
            if inl is not None:
                return inl
            # a call nested deeper inside the arguments (f(g(h(x)))): hoist the innermost inlinable one into a temporary
            deep = self._deep_inlinable(value, p, fr)
            if deep is not None and fr.depth < self.max_depth:
                outs = []
                for q, ret, rfr in self._inline(deep, p, fr):
                    if q.exit is not None:
                        outs.append((q, _UNKNOWN, fr))
                        continue
                    tmp = '__arg%d_d' % len(q.ev)
                    tn = ast.Name(id=tmp, ctx=ast.Store())
                    asg = ast.Assign(targets=[tn], value=deep)
                    ast.copy_location(asg, value)
                    q.ev.append(Ev('assign', asg, fr, tn, (ret, rfr)))
                    v2 = _replace_node(value, deep, ast.Name(id=tmp, ctx=ast.Load()))
                    outs += self.value_paths(v2, q, fr)
                return outs
            # an argument that is itself an inlinable call: evaluate it first into a temporary
            for ai, a in enumerate(value.args):
                if isinstance(a, ast.Call) and self.resolver(a, fr, p) is not None and fr.depth < self.max_depth:
                    outs = []
                    for q, ret, rfr in self._inline(a, p, fr):
                        if q.exit is not None:
                            outs.append((q, _UNKNOWN, fr))
                            continue
                        tmp = '__arg%d_%d' % (len(q.ev), ai)
                        tn = ast.Name(id=tmp, ctx=ast.Store())
                        asg = ast.Assign(targets=[tn], value=a)
                        ast.copy_location(asg, value)
                        q.ev.append(Ev('assign', asg, fr, tn, (ret, rfr)))
                        v2 = ast.Call(func=value.func, args=list(value.args), keywords=value.keywords)
                        v2.args[ai] = ast.Name(id=tmp, ctx=ast.Load())
                        ast.copy_location(v2, value)
                        outs += self.value_paths(v2, q, fr)
                    return outs
        q = p.fork()
        excs = self._note_calls(value, q, fr)
        return [(q, value, fr)] + [(x, _UNKNOWN, fr) for x in excs]

    def _only_truth_tested(self, fr, name):
        """every read of the local `name` in the function of frame `fr` stands in a truth context (if / while / conditional
        expression test, `not`, and / or inside such a test, bool(...)) and the name is bound exactly once"""
        fn = getattr(getattr(fr, 'func', None), 'node', None)
        if fn is None:
            return False
        stores = loads = 0
        for n in ast.walk(fn):
            if not (isinstance(n, ast.Name) and n.id == name):
                continue
            if isinstance(n.ctx, ast.Store):
                stores += 1
                continue
            loads += 1
            cur = n
            ok = False
            while True:
                par = getattr(cur, '_parent', None)
                if par is None:
                    break
                if isinstance(par, (ast.If, ast.While, ast.IfExp)) and par.test is cur:
                    ok = True
                    break
                if isinstance(par, ast.BoolOp) or (isinstance(par, ast.UnaryOp) and isinstance(par.op, ast.Not)):
                    cur = par
                    continue
                if isinstance(par, ast.Call) and isinstance(par.func, ast.Name) and par.func.id == 'bool' and len(par.args) == 1:
                    ok = True
                    break
                break
            if not ok:
                return False
        return stores == 1 and loads > 0

    def _deep_inlinable(self, value, p, fr):
        """the first (evaluation order) inlinable call nested at depth >= 2 inside the arguments of `value`"""
        def rec(n, depth):
            if isinstance(n, (ast.Lambda, ast.ListComp, ast.GeneratorExp, ast.SetComp, ast.DictComp, ast.IfExp, ast.BoolOp)):
                return None
            for ch in ast.iter_child_nodes(n):
                r = rec(ch, depth + (1 if isinstance(n, ast.Call) else 0))
                if r is not None:
                    return r
            if isinstance(n, ast.Call) and depth >= 2 and self.resolver(n, fr, p) is not None:
                return n
            return None
        return rec(value, 0)

    # ----------------------------------------------------------- statements
    def block(self, stmts, p, fr):
        cur = [p]
        for s in stmts:
            nxt = []
            for q in cur:
                if q.exit is not None:
                    nxt.append(q)
                else:
                    nxt += self.stmt(s, q, fr)
            cur = nxt
            if len(cur) > self.max_paths:
                raise AnalysisError('more than %d paths in %s' % (self.max_paths, fr.qn))
        return cur

    def _assign_name(self, name, retnode, rfr, q, fr):
        key = (fr.fid, name)
        q.env.pop(key, None)
        q.fn.pop(key, None)
        if retnode is not None and retnode is not _UNKNOWN:
            v = self.const_of(retnode, q, rfr)
            if v is _UNKNOWN and isinstance(retnode, ast.Attribute) and getattr(self, 'consteval', None) is not None \
                    and isinstance(retnode.value, ast.Name) and retnode.value.id not in ('self', 'cls'):
                # a helper returned a named constant (e.g. an exception code): the caller's `is None` tests on it are decidable
                v = self.consteval(retnode, rfr)
            if v is not _UNKNOWN and (v is None or isinstance(v, (bool, int, str, bytes, ast.Tuple))):
                q.env[key] = v
            else:
                fb = self._fnref(retnode, q, rfr)
                if fb is not None:
                    q.fn[key] = fb
        elif retnode is None:
            q.env[key] = None

    def _forget_computed_carried(self, loop, q, fr):
        """One iteration stands for every iteration: a local that the loop body assigns from a CALL (a computed flag such as
        `ready = self.checkFrame()`) holds, at the loop head, whatever an earlier iteration left in it -- not the constant it was
        initialised with before the loop.  Its constant is forgotten on entry, so that a use that is not preceded by the
        assignment in the same iteration (the assignment skipped by an exception, a branch) is explored for both outcomes.
        Locals that are only ever assigned constants keep their value (flag fixpoints are computed by the rules that need them)."""
        for n in ast.walk(loop):
            if isinstance(n, ast.Assign) and isinstance(n.value, (ast.Call, ast.Await)):
                for t in n.targets:
                    for el in (t.elts if isinstance(t, (ast.Tuple, ast.List)) else [t]):
                        if isinstance(el, ast.Name):
                            q.env.pop((fr.fid, el.id), None)

    def _const_table(self, it, fr):
        """elements of a literal tuple/list iterated by a for statement -- written in place, bound once to a local of
        the function, or a class attribute (self.X / Cls.X); None for anything else"""
        func = getattr(fr, 'func', None)
        node = it
        if isinstance(it, ast.Call) and isinstance(it.func, ast.Name) and it.func.id == 'zip' and len(it.args) == 2 and not it.keywords:
            # zip(CONSTANT_TABLE, seq): iteration i binds (table[i], seq[i]); the table decides how many iterations there are
            # only when seq is at least as long, which holds for the unpack results / parallel tables this is used with
            a = self._const_table(it.args[0], fr)
            b = self._const_table(it.args[1], fr)
            if a is not None and b is not None and len(a) == len(b):
                return [ast.Tuple(elts=[x, y], ctx=ast.Load()) for x, y in zip(a, b)]
            if a is not None and isinstance(it.args[1], (ast.Name, ast.Attribute)):
                return [ast.Tuple(elts=[x, ast.Subscript(value=it.args[1], slice=ast.Constant(value=i), ctx=ast.Load())], ctx=ast.Load()) for i, x in enumerate(a)]
            return None
        if isinstance(it, ast.Call) and isinstance(it.func, ast.Name) and it.func.id == 'enumerate' and len(it.args) == 1 and not it.keywords:
            a = self._const_table(it.args[0], fr)
            return None if a is None else [ast.Tuple(elts=[ast.Constant(value=i), x], ctx=ast.Load()) for i, x in enumerate(a)]
        if isinstance(it, ast.Name) and func is not None and hasattr(func, 'node'):
            defs = [n.value for n in ast.walk(func.node) if isinstance(n, ast.Assign) and any(isinstance(t, ast.Name) and t.id == it.id for t in n.targets)]
            others = [n for n in ast.walk(func.node) if isinstance(n, (ast.AugAssign, ast.For)) and any(
                isinstance(x, ast.Name) and x.id == it.id for x in ast.walk(getattr(n, 'target', n)))]
            node = defs[0] if len(defs) == 1 and not others else None
            if not defs and not others and it.id not in getattr(func, 'params', []) and hasattr(func, 'mod'):
                # a module-level table (bound once at module level, never rebound in this function)
                r = self.idx.lookup(func.mod, it.id)
                if r and r[0] == 'const' and isinstance(r[1], (ast.Tuple, ast.List)):
                    node = r[1]
        elif isinstance(it, ast.Attribute) and isinstance(it.value, ast.Name) and getattr(fr, 'cls', None) is not None \
                and it.value.id in ('self', 'cls', fr.cls.name):
            k, v = self.idx.find_attr(fr.cls, it.attr)
            node = v if k is not None else None
            # an instance attribute of the same name would shadow the class-level table
            if node is not None:
                for c in self.idx.mro(fr.cls):
                    for m in c.methods.values():
                        for n in ast.walk(m.node):
                            if isinstance(n, ast.Attribute) and n.attr == it.attr and isinstance(n.ctx, ast.Store):
                                node = None
        if isinstance(node, (ast.Tuple, ast.List)) and all(isinstance(e, (ast.Tuple, ast.List, ast.Constant, ast.Name, ast.Attribute)) for e in node.elts):
            return list(node.elts)
        return None

    def _unrolled_for(self, s, elts, p, fr):
        """`for target in (e1, ..., en)` over a constant table: the iterations are enumerated one after the other with the
        target bound to each element (break leaves the loop, continue / fall-through goes on to the next element)"""
        outs = []
        q0 = p.fork()
        q0.ev.append(Ev('loop', s, fr, 'enter'))
        cur = [q0]
        for el in elts:
            nxt = []
            a = ast.Assign(targets=[s.target], value=el, lineno=s.lineno, col_offset=s.col_offset)
            a._parent = s
            for q in cur:
                for r in self.stmt(a, q, fr):
                    if r.exit is not None:
                        outs.append(r)
                        continue
                    for r2 in self.block(s.body, r, fr):
                        if r2.exit == 'break':
                            r2.exit = None
                            r2.ev.append(Ev('loop', s, fr, 'break'))
                            outs.append(r2)
                        elif r2.exit in (None, 'continue'):
                            r2.exit = None
                            nxt.append(r2)
                        else:
                            outs.append(r2)
            cur = nxt
        for q in cur:
            q.ev.append(Ev('loop', s, fr, 'backedge'))
            outs += self.block(s.orelse, q, fr) if s.orelse else [q]
        return outs

    def run_block(self, func, cls, stmts, consts=None):
        """enumerate only a region (statement list) of func"""
        p = Path()
        fr = Frame(func, cls, 0, 0)
        p.nf = 1
        for k, v in (consts or {}).items():
            p.env[(0, k)] = v
        return self.block(stmts, p, fr)

    def stmt(self, s, p, fr):
        self._guard()
        if s in self.stop_nodes:
            q = p.fork()
            q.exit = ('stop', s)
            return [q]
        if isinstance(s, ast.Expr):
            if isinstance(s.value, ast.Constant):
                return [p]
            v = s.value
            if isinstance(v, ast.Call) and isinstance(v.func, ast.Name) and v.func.id == 'setattr' and len(v.args) == 3 and not v.keywords:
                # setattr(obj, 'name', value) with a name that is a constant on this path is the assignment obj.name = value
                an = self.const_of(v.args[1], p, fr)
                if isinstance(an, str) and an.isidentifier():
                    a = ast.Assign(targets=[ast.Attribute(value=v.args[0], attr=an, ctx=ast.Store())], value=v.args[2])
                    ast.copy_location(a, s)
                    ast.fix_missing_locations(a)
                    a._parent = getattr(s, '_parent', None)
                    return self.stmt(a, p, fr)
            return [q for q, _, _ in self.value_paths(s.value, p, fr)]
        if isinstance(s, (ast.Assign, ast.AnnAssign)):
            if isinstance(s, ast.AnnAssign):
                if s.value is None:
                    return [p]
                targets = [s.target]
            else:
                targets = s.targets
            # `flag = self.predicate()` / `flag = bool(self.predicate())` where the flag is only ever tested for truth: the outcome of
            # the predicate is decided here, path by path, exactly as if the call stood in the condition that later tests the flag
            inner, wrapped = s.value, False
            if isinstance(inner, ast.Call) and isinstance(inner.func, ast.Name) and inner.func.id == 'bool' and len(inner.args) == 1 and not inner.keywords:
                inner, wrapped = inner.args[0], True
            if len(targets) == 1 and isinstance(targets[0], ast.Name) and isinstance(inner, ast.Call) and fr.depth < self.max_depth \
                    and self.resolver(inner, fr, p) is not None and (wrapped or self._only_truth_tested(fr, targets[0].id)):
                outs = []
                for q, t in self.cond_paths(inner, p, fr):
                    if t is None:
                        outs.append(q)
                        continue
                    c = ast.copy_location(ast.Constant(value=bool(t)), s)
                    self._assign_name(targets[0].id, c, fr, q, fr)
                    q.ev.append(Ev('assign', s, fr, targets[0], (c, fr)))
                    outs.append(q)
                return outs
            outs = []
            for q, ret, rfr in self.value_paths(s.value, p, fr):
                if q.exit is not None:
                    outs.append(q)
                    continue
                if isinstance(s.value, ast.Call) and rfr is not fr and ret is not None and ret is not _UNKNOWN:
                    # `flag = self.predicate()` with the predicate inlined: what it returned on this path is a fact about the path,
                    # exactly as if the call had been written in the condition that later tests the flag
                    tv = self.const_of(ret, q, rfr)
                    if isinstance(tv, bool):
                        q.ev.append(Ev('truth', s.value, fr, tv))
                for t in targets:
                    if isinstance(t, ast.Name):
                        self._assign_name(t.id, ret, rfr, q, fr)
                    elif isinstance(t, (ast.Tuple, ast.List)):
                        vals = ret.elts if isinstance(ret, (ast.Tuple, ast.List)) and len(ret.elts) == len(t.elts) else None
                        for i, el in enumerate(t.elts):
                            for n in ast.walk(el):
                                if isinstance(n, ast.Name):
                                    q.env.pop((fr.fid, n.id), None)
                                    q.fn.pop((fr.fid, n.id), None)
                            if isinstance(el, ast.Name) and vals is not None:
                                self._assign_name(el.id, vals[i], rfr, q, fr)
                    else:
                        outs += self._note_calls(t, q, fr)
                    q.ev.append(Ev('assign', s, fr, t, (ret, rfr)))
                outs.append(q)
            return outs
        if isinstance(s, ast.AugAssign):
            q = p.fork()
            outs = self._note_calls(s.value, q, fr)
            if isinstance(s.target, ast.Name):
                q.env.pop((fr.fid, s.target.id), None)
            q.ev.append(Ev('aug', s, fr, s.target, s.value))
            return outs + [q]
        if isinstance(s, ast.Return):
            if s.value is None:
                q = p.fork()
                q.exit = ('return', None)
                return [q]
            outs = []
            for q, ret, rfr in self.value_paths(s.value, p, fr):
                if q.exit is None:
                    # returning a callee's constant keeps constness through the env of *this* frame
                    if rfr is not fr and ret is not None and ret is not _UNKNOWN:
                        v = self.const_of(ret, q, rfr)
                        ret = ast.Constant(value=v) if v is not _UNKNOWN else ret
                    elif ret is not None and ret is not _UNKNOWN:
                        v = self.const_of(ret, q, fr)
                        if v is not _UNKNOWN and isinstance(ret, ast.Name):
                            ret = ast.Constant(value=v)
                    q.ev.append(Ev('return', s, fr, ret, rfr))
                    q.exit = ('return', ret)
                outs.append(q)
            return outs
        if isinstance(s, ast.Raise):
            q = p.fork()
            outs = []
            if s.exc is not None:
                outs = self._note_calls(s.exc, q, fr)
                name = U(s.exc.func) if isinstance(s.exc, ast.Call) else U(s.exc)
            else:
                name = 'reraise'
            q.ev.append(Ev('raise', s, fr, name))
            q.exit = ('exc', name)
            return outs + [q]
        if isinstance(s, ast.Break):
            q = p.fork(); q.exit = 'break'; return [q]
        if isinstance(s, ast.Continue):
            q = p.fork(); q.exit = 'continue'; return [q]
        if isinstance(s, (ast.FunctionDef, ast.AsyncFunctionDef)):
            q = p.fork()
            q.fn[(fr.fid, s.name)] = ('localdef', s, fr)
            return [q]
        if isinstance(s, (ast.Pass, ast.Import, ast.ImportFrom, ast.Global, ast.Nonlocal, ast.ClassDef)):
            return [p]
        if isinstance(s, ast.If):
            outs = []
            for q, t in self.cond_paths(s.test, p, fr):
                if t is None:
                    outs.append(q)
                else:
                    outs += self.block(s.body if t else s.orelse, q, fr)
            return outs
        if isinstance(s, ast.While):
            outs = []
            for q, t in self.cond_paths(s.test, p, fr):
                if t is None:
                    outs.append(q)
                elif not t:
                    q.ev.append(Ev('loop', s, fr, 'skip'))
                    outs += self.block(s.orelse, q, fr) if s.orelse else [q]
                else:
                    q.ev.append(Ev('loop', s, fr, 'enter'))
                    self._forget_computed_carried(s, q, fr)
                    for r in self.block(s.body, q, fr):
                        if r.exit == 'break':
                            r.exit = None
                            r.ev.append(Ev('loop', s, fr, 'break'))
                        elif r.exit in (None, 'continue'):
                            r.exit = None
                            r.ev.append(Ev('loop', s, fr, 'backedge'))
                        outs.append(r)
            return outs
        if isinstance(s, ast.For):
            elts = self._const_table(s.iter, fr)
            if elts is not None and 1 <= len(elts) <= 8:
                return self._unrolled_for(s, elts, p, fr)
        if isinstance(s, (ast.For, ast.AsyncFor)):
            outs = []
            q0 = p.fork()
            outs += self._note_calls(s.iter, q0, fr)
            for n in ast.walk(s.target):
                if isinstance(n, ast.Name):
                    q0.env.pop((fr.fid, n.id), None)
            qs = q0.fork()
            qs.ev.append(Ev('loop', s, fr, 'skip'))
            outs += self.block(s.orelse, qs, fr) if s.orelse else [qs]
            q1 = q0.fork()
            q1.ev.append(Ev('loop', s, fr, 'enter'))
            self._forget_computed_carried(s, q1, fr)
            for r in self.block(s.body, q1, fr):
                if r.exit == 'break':
                    r.exit = None
                    r.ev.append(Ev('loop', s, fr, 'break'))
                elif r.exit in (None, 'continue'):
                    r.exit = None
                    r.ev.append(Ev('loop', s, fr, 'backedge'))
                outs.append(r)
            return outs
        if isinstance(s, (ast.With, ast.AsyncWith)):
            q = p.fork()
            outs = []
            for it in s.items:
                outs += self._note_calls(it.context_expr, q, fr)
                q.ev.append(Ev('with', it.context_expr, fr))
            res = self.block(s.body, q, fr)
            for r in res:
                for it in reversed(s.items):
                    r.ev.append(Ev('endwith', it.context_expr, fr))
            return outs + res
        if isinstance(s, ast.Try):
            outs = []
            body = self.block(s.body, p, fr)
            for r in body:
                if isinstance(r.exit, tuple) and r.exit[0] == 'exc':
                    handled = False
                    for h in s.handlers:
                        names = handler_names(h)
                        if r.exit[1] == 'reraise':
                            break
                        if self.hier.caught_by(r.exit[1], names):
                            q = r.fork()
                            exc_name = q.exit[1]
                            q.exit = None
                            q.ev.append(Ev('handler', h, fr, names, exc_name))
                            for hq in self.block(h.body, q, fr):
                                if isinstance(hq.exit, tuple) and hq.exit == ('exc', 'reraise'):
                                    hq.exit = ('exc', exc_name)
                                outs.append(hq)
                            handled = True
                            break
                    if not handled:
                        outs.append(r)
                elif r.exit is None and s.orelse:
                    outs += self.block(s.orelse, r, fr)
                else:
                    outs.append(r)
            if s.finalbody:
                fin = []
                for r in outs:
                    ex = r.exit
                    r2 = r.fork()
                    r2.exit = None
                    r2.ev.append(Ev('finally', s, fr))
                    for f in self.block(s.finalbody, r2, fr):
                        if f.exit is None:
                            f.exit = ex
                        fin.append(f)
                outs = fin
            return outs
        if isinstance(s, ast.Delete):
            q = p.fork()
            q.ev.append(Ev('del', s, fr))
            return [q]
        if isinstance(s, ast.Assert):
            return [p]
        q = p.fork()
        q.ev.append(Ev('stmt', s, fr))
        return [q]


class _LambdaFrame(Frame):
    """a lambda body executes with the *defining* frame's names visible"""
    def __init__(self, dfr, fid, depth, call):
        Frame.__init__(self, dfr.func, dfr.cls, fid, depth, call)
        self.defining = dfr


# ------------------------------------------------------------------ resolver
class SelfResolver:
    """Default resolver: `self.m(...)` through the receiver class MRO, `Base.m(self, ...)`,
    `super().m(...)`, module-level functions, and calls of parameters bound to function
    references (callbacks, lambdas, functools.partial)."""

    def __init__(self, idx, receivers=None, stop=None):
        self.idx = idx
        self.receivers = receivers or {}     # canonical receiver text -> Cls
        self.stop = stop or (lambda func: False)   # functions not to inline

    def __call__(self, call, fr, path):
        f = call.func
        tgt = None
        if isinstance(f, ast.Attribute):
            recv = f.value
            if isinstance(recv, ast.Name) and recv.id == 'self' and fr.cls is not None:
                m = self.idx.find_method(fr.cls, f.attr)
                if m is not None:
                    tgt = (m, fr.cls, {})
            elif isinstance(recv, ast.Call) and isinstance(recv.func, ast.Name) and recv.func.id == 'super' and fr.cls is not None and fr.func is not None and fr.func.cls is not None:
                m = self.idx.find_method_after(fr.cls, fr.func.cls, f.attr)
                if m is not None:
                    tgt = (m, fr.cls, {})
            else:
                key = U(recv)
                if key in self.receivers:
                    c = self.receivers[key]
                    m = self.idx.find_method(c, f.attr)
                    if m is not None:
                        tgt = (m, c, {})
                elif isinstance(recv, ast.Name) and fr.func is not None:
                    r = self.idx.lookup(fr.func.mod, recv.id)
                    if r and r[0] == 'class' and fr.cls is not None and self.idx.is_subclass(fr.cls, r[1]):
                        m = self.idx.find_method(r[1], f.attr)
                        if m is not None and call.args and isinstance(call.args[0], ast.Name) and call.args[0].id == 'self':
                            # Base.m(self, ...) : explicit receiver consumes first arg
                            tgt = (m, fr.cls, {'skip_args': 1})
        elif isinstance(f, ast.Subscript) and isinstance(f.value, ast.Name) and isinstance(f.slice, ast.Constant) and isinstance(f.slice.value, int) \
                and isinstance(path.env.get((fr.fid, f.value.id)), ast.Tuple) and fr.func is not None:
            row = path.env[(fr.fid, f.value.id)]
            if -len(row.elts) <= f.slice.value < len(row.elts) and isinstance(row.elts[f.slice.value], ast.Name):
                r = self.idx.lookup(fr.func.mod, row.elts[f.slice.value].id)
                if r and r[0] == 'func':
                    tgt = (r[1], None, {})
        elif isinstance(f, ast.Name):
            key = (fr.fid, f.id)
            dfr = fr
            while key not in path.fn and isinstance(dfr, _LambdaFrame):
                dfr = dfr.defining
                key = (dfr.fid, f.id)
            if key in path.fn:
                tgt = self._from_ref(path.fn[key])
            elif fr.func is not None:
                r = self.idx.lookup(fr.func.mod, f.id)
                if r and r[0] == 'func':
                    tgt = (r[1], None, {})
        if tgt is None:
            return None
        if isinstance(tgt[0], Func) and self.stop(tgt[0]):
            return None
        return tgt

    def _from_ref(self, ref):
        kind = ref[0]
        if kind == 'method':
            return (ref[1], ref[2], {})
        if kind == 'func':
            return (ref[1], None, {})
        if kind == 'lambda':
            return ((ref[1], ref[2]), ref[2].cls, {})
        if kind == 'localdef':
            return (('localdef', ref[1], ref[2]), ref[2].cls, {})
        if kind == 'partial':
            inner = self._from_ref(ref[1])
            if inner is None:
                return None
            extra = dict(inner[2])
            extra['pre_args'] = list(extra.get('pre_args', [])) + list(ref[2])
            kw = dict(extra.get('pre_kwargs', {}))
            kw.update(ref[3])
            extra['pre_kwargs'] = kw
            return (inner[0], inner[1], extra)
        return None
