"""Structure of ModbusTransactionManager.execute: the retry loop and the regions around it."""
import ast

from .common import U, AnalysisError, callee_name

TM = 'pymodbus.transaction.DictTransactionManager'


class TxShape:
    def __init__(self, cx):
        self.tm = cx.idx.cls(TM)
        self.ex = cx.method(self.tm, 'execute')
        self.req = self.ex.params[1]
        loops = [n for n in ast.walk(self.ex.node) if isinstance(n, ast.While)]
        loops = [l for l in loops if any(isinstance(c, ast.Call) and callee_name(c) == '_transact' for c in ast.walk(l))]
        if len(loops) != 1:
            raise AnalysisError('expected exactly one retry loop calling _transact in %s, found %d' % (self.ex.qn, len(loops)))
        self.loop = loops[0]
        parent = self.loop._parent
        body = None
        for field in ('body', 'orelse', 'finalbody'):
            lst = getattr(parent, field, None)
            if isinstance(lst, list) and self.loop in lst:
                body = lst
        if body is None:
            raise AnalysisError('cannot locate the statement list holding the retry loop')
        i = body.index(self.loop)
        self.after = body[i + 1:]
        self.before_same_block = body[:i]
        # loop variable: the name compared in the loop test
        t = self.loop.test
        self.var = None
        if isinstance(t, ast.Compare) and isinstance(t.left, ast.Name):
            self.var = t.left.id
        elif isinstance(t, ast.Name):
            self.var = t.id
