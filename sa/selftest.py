"""Self-test of the checkers (thorough tier): every mutant of the corpus must be reported by
its property's check, every benign twin must leave it silent.  Mutants are written to a
scratch copy outside /repo and /verif, analysed (never executed) and deleted."""
import os
import shutil
import subprocess
import sys
import tempfile
import json
from concurrent.futures import ThreadPoolExecutor

VERIF = os.path.dirname(os.path.dirname(os.path.abspath(__file__)))


def _run_one(entry, repo):
    pid, name, kind, edits = entry
    base = '/dev/shm' if os.path.isdir('/dev/shm') else os.environ.get('TMPDIR')
    d = tempfile.mkdtemp(prefix='verif-st-', dir=base)
    try:
        shutil.copytree(os.path.join(repo, 'pymodbus'), os.path.join(d, 'pymodbus'))
        if isinstance(edits, str):
            # a stored patch (seeded breaking change or behaviour-preserving refactor)
            r = subprocess.run(['patch', '-p1', '-s', '-f', '-d', d, '-i', os.path.join(VERIF, edits)], capture_output=True, text=True)
            if r.returncode:
                return (pid, name, kind, 'stale', 'patch does not apply to the current tree')
            edits = []
        for f, old, new in edits:
            p = os.path.join(d, f)
            try:
                s = open(p).read()
            except OSError:
                return (pid, name, kind, 'stale', 'file missing: %s' % f)
            if old not in s:
                return (pid, name, kind, 'stale', 'pattern not found in %s' % f)
            open(p, 'w').write(s.replace(old, new, 1))
        env = dict(os.environ, VERIF_REPO=d, VERIF_TIER='quick', VERIF_SELFTEST_CHILD='1', VERIF_EVIDENCE_DIR=os.path.join(d, 'evidence'))
        r = subprocess.run([os.path.join(VERIF, 'check'), pid, '--tier', 'quick'], env=env, capture_output=True, text=True, timeout=600)
        viol = [l for l in r.stdout.splitlines() if l.startswith('VIOLATION')]
        rules = sorted(set(l.split(': rule ')[1].split(',')[0] for l in r.stdout.splitlines() if ': rule ' in l and 'KNOWN' not in l))
        if kind == 'mutant':
            ok = r.returncode == 1 and bool(viol)
            why = 'exit %d, %d violation line(s), rules %s' % (r.returncode, len(viol), rules)
        else:
            ok = r.returncode == 0 and not viol
            why = 'exit %d, %d violation line(s) %s' % (r.returncode, len(viol), rules)
        return (pid, name, kind, 'ok' if ok else 'FAILED', why)
    except subprocess.TimeoutExpired:
        return (pid, name, kind, 'FAILED', 'timeout')
    finally:
        shutil.rmtree(d, ignore_errors=True)


def patch_entries(pid=None):
    """stored patches: seeded/<id>/patch.diff must be reported by the checks listed in seeded/INDEX.json,
    selftest/twins/*.diff (behaviour-preserving refactors) must leave every check silent"""
    out = []
    pids = [pid] if pid else ['C%02d' % i for i in range(1, 21)]
    try:
        idx = json.load(open(os.path.join(VERIF, 'seeded', 'INDEX.json')))
    except OSError:
        idx = {}
    for seed, catchers in sorted(idx.items()):
        for c in catchers:
            if c in pids:
                out.append((c, 'seeded/' + seed, 'mutant', os.path.join('seeded', seed, 'patch.diff')))
    tw = os.path.join(VERIF, 'selftest', 'twins')
    if os.path.isdir(tw):
        for f in sorted(os.listdir(tw)):
            if f.endswith('.diff'):
                touched = _touched(os.path.join(tw, f))
                for c in pids:
                    if pid or _relevant(c, touched):
                        out.append((c, 'twins/' + f, 'twin', os.path.join('selftest', 'twins', f)))
    return out


def _touched(patch):
    return [l.split(' b/')[-1].strip() for l in open(patch) if l.startswith('diff --git')]


def _relevant(pid, touched):
    # the full run (no property given) pairs a twin with every check; kept as a hook for narrowing
    return True


def run(pid=None, jobs=16):
    sys.path.insert(0, VERIF)
    from selftest.corpus import CORPUS
    repo = os.environ.get('VERIF_REPO', '/repo')
    entries = [e for e in CORPUS if pid is None or e[0] == pid]
    entries += patch_entries(pid)
    with ThreadPoolExecutor(max_workers=jobs) as ex:
        results = list(ex.map(lambda e: _run_one(e, repo), entries))
    return results


def report(results, pid=None):
    bad = [r for r in results if r[3] == 'FAILED']
    stale = [r for r in results if r[3] == 'stale']
    for r in results:
        print('   selftest %-4s %-7s %-6s %s (%s)' % (r[0], r[2], r[3], r[1], r[4]))
    print('   selftest: %d entries, %d ok, %d stale, %d FAILED' % (len(results), len(results) - len(bad) - len(stale), len(stale), len(bad)))
    return bad, stale


def main(argv):
    pid = argv[0].upper() if argv else None
    results = run(pid)
    bad, stale = report(results, pid)
    if bad:
        print('ANALYSIS-ERROR selftest: %d corpus entries not handled correctly' % len(bad))
        return 2
    return 0
