"""A very small type inference for text-building expressions (shared by C06 / C11 / C12 / C13).

Logging arguments are evaluated whether or not the message is emitted, and exception texts are formatted inside `except` handlers.
Two places where a TypeError from text building is not contained by anything:

* `pymodbus.utilities.hexlify_packets` -- called with the receive buffer on the reset / processing paths of every framer and of the
  transaction manager, outside any log-level guard.  It must be total on byte strings: whatever it hands to `str.join` is a
  sequence of `str`.
* `__str__` of the library's exception classes -- the handlers of the serving loops format the exception they caught.  `'text' + x`
  needs `x` to be a `str`; `'text %s' % x` does not.  Where a `__str__` concatenates an attribute, every construction site of the
  class hierarchy must pass a `str` for it.

Types: 'str', 'bytes', 'int', 'float', 'bool', 'none', ('list', elem types frozenset), None = unknown.
"""
import ast

from .common import U

STR_FUNCS = {'hex', 'str', 'repr', 'format', 'oct', 'bin', 'chr', 'hexlify_packets'}
INT_FUNCS = {'len', 'int', 'ord', 'byte2int', 'sum', 'abs', 'round', 'min', 'max', 'id', 'hash'}


def infer(e, env):
    if isinstance(e, ast.Constant):
        v = e.value
        if isinstance(v, bool):
            return 'bool'
        if isinstance(v, str):
            return 'str'
        if isinstance(v, bytes):
            return 'bytes'
        if isinstance(v, int):
            return 'int'
        if isinstance(v, float):
            return 'float'
        if v is None:
            return 'none'
        return None
    if isinstance(e, ast.JoinedStr):
        return 'str'
    if isinstance(e, ast.Name):
        return env.get(e.id)
    if isinstance(e, ast.BinOp):
        l, r = infer(e.left, env), infer(e.right, env)
        if isinstance(e.op, ast.Mod) and l in ('str', 'bytes'):
            return l
        if isinstance(e.op, ast.Add):
            if l == r and l in ('str', 'bytes', 'int', 'float'):
                return l
            if isinstance(l, tuple) and isinstance(r, tuple):
                return ('list', l[1] | r[1])
            return None
        if isinstance(e.op, (ast.Sub, ast.Mult, ast.FloorDiv, ast.Mod, ast.LShift, ast.RShift, ast.BitAnd, ast.BitOr, ast.BitXor)) and l == 'int' and r == 'int':
            return 'int'
        if isinstance(e.op, ast.Mult) and (l in ('str', 'bytes') and r == 'int'):
            return l
        return None
    if isinstance(e, ast.Call):
        f = e.func
        name = f.attr if isinstance(f, ast.Attribute) else (f.id if isinstance(f, ast.Name) else None)
        if isinstance(f, ast.Attribute) and f.attr in ('format', 'join', 'upper', 'lower', 'strip', 'rstrip', 'lstrip', 'replace', 'decode') and infer(f.value, env) in ('str',):
            return 'str'
        if isinstance(f, ast.Attribute) and f.attr == 'format' and isinstance(f.value, ast.Constant) and isinstance(f.value.value, str):
            return 'str'
        if isinstance(f, ast.Name) and name in STR_FUNCS:
            return 'str'
        if isinstance(f, ast.Attribute) and name in ('__str__', '__repr__', 'hexdigest', 'isoformat'):
            return 'str'
        if isinstance(f, ast.Name) and name in INT_FUNCS:
            return 'int'
        if isinstance(f, ast.Name) and name == 'list' and len(e.args) == 1:
            t = infer(e.args[0], env)
            return t if isinstance(t, tuple) else None
        return None
    if isinstance(e, (ast.List, ast.Tuple)):
        return ('list', frozenset(infer(x, env) for x in e.elts))
    if isinstance(e, (ast.ListComp, ast.GeneratorExp)):
        return ('list', frozenset([infer(e.elt, env)]))
    if isinstance(e, ast.IfExp):
        a, b = infer(e.body, env), infer(e.orelse, env)
        return a if a == b else None
    if isinstance(e, ast.Subscript) and isinstance(e.slice, ast.Slice):
        return infer(e.value, env)
    return None


def local_types(fn):
    """flow-insensitive types of the locals of fn (a local assigned values of different known types is unknown; `x += list` merges
    element types)"""
    env = {}
    for name, v in getattr(fn.mod, 'consts', {}).items():       # module-level constants the function can read
        t = infer(v, {})
        if t is not None:
            env[name] = t
    for p_ in fn.params:
        env.pop(p_, None)
    for _ in range(3):
        for n in ast.walk(fn.node):
            if isinstance(n, ast.Assign) and len(n.targets) == 1 and isinstance(n.targets[0], ast.Name):
                t = infer(n.value, env)
                k = n.targets[0].id
                if k in env and env[k] != t and not (isinstance(env[k], tuple) and isinstance(t, tuple)):
                    env[k] = None if env[k] is not None and t is not None and env[k] != t else (env[k] or t)
                elif isinstance(env.get(k), tuple) and isinstance(t, tuple):
                    env[k] = ('list', env[k][1] | t[1])
                else:
                    env[k] = t
            elif isinstance(n, ast.AugAssign) and isinstance(n.target, ast.Name) and isinstance(n.op, ast.Add):
                t = infer(n.value, env)
                k = n.target.id
                if isinstance(env.get(k), tuple) and isinstance(t, tuple):
                    env[k] = ('list', env[k][1] | t[1])
            elif isinstance(n, ast.Call) and isinstance(n.func, ast.Attribute) and n.func.attr in ('append',) and isinstance(n.func.value, ast.Name) and n.args:
                k = n.func.value.id
                if isinstance(env.get(k), tuple):
                    env[k] = ('list', env[k][1] | frozenset([infer(n.args[0], env)]))
    return env


def rule_join_total(ck, cx, rule, func_qns, why):
    """every `sep.join(seq)` in the given functions whose element types are known joins only text (a non-text element is a TypeError
    on every call that reaches it)"""
    n = 0
    for q in func_qns:
        fn = cx.idx.func(q)
        ck.saw('functions', fn.qn)
        env = local_types(fn)
        for c in ast.walk(fn.node):
            if isinstance(c, ast.Call) and isinstance(c.func, ast.Attribute) and c.func.attr == 'join' and len(c.args) == 1:
                sep = infer(c.func.value, env)
                if sep not in ('str', 'bytes'):
                    continue
                n += 1
                t = infer(c.args[0], env)
                bad = sorted(str(x) for x in (t[1] if isinstance(t, tuple) else ()) if x is not None and x != sep)
                ck.ob(rule, fn.qn, '`%s` joins %s elements only' % (U(c)[:40], sep), not bad, detail='join-of-non-text %s' % ','.join(bad), loc=cx.floc(fn, c),
                      message='%s: `%s` is given a sequence that contains %s element(s): TypeError whenever that branch is taken — %s'
                              % (fn.qn, U(c)[:60], '/'.join(bad), why))
    ck.floor(rule, n, 1, 'join calls in the text helpers')
    return n


def rule_exception_text_total(ck, cx, rule, why):
    """__str__ / __repr__ of the classes of pymodbus.exceptions: a concatenation `text + self.attr` is total only if every
    construction site of the hierarchy passes text for the constructor parameter that ends up in self.attr"""
    mod = cx.idx.mod('pymodbus.exceptions')
    n = 0
    needs = {}          # class -> set of ctor params that must be str
    for k in mod.classes.values():
        for mname in ('__str__', '__repr__'):
            fn = k.methods.get(mname)
            if fn is None:
                continue
            n += 1
            ck.saw('functions', fn.qn)
            env = local_types(fn)
            attrs = set()
            for b in ast.walk(fn.node):
                if isinstance(b, ast.BinOp) and isinstance(b.op, ast.Add):
                    for side, other in ((b.left, b.right), (b.right, b.left)):
                        if isinstance(side, ast.Attribute) and isinstance(side.value, ast.Name) and side.value.id == 'self' and infer(other, env) in ('str', 'bytes'):
                            attrs.add(side.attr)
            if not attrs:
                ck.ob(rule, fn.qn, 'the text is built by formatting (total), not by concatenating attributes', True)
                continue
            # which constructor parameters feed these attributes (this class's __init__)
            init = cx.idx.find_method(k, '__init__')
            params = set()
            if init is not None:
                for a in ast.walk(init.node):
                    if isinstance(a, ast.Assign) and len(a.targets) == 1 and isinstance(a.targets[0], ast.Attribute) and a.targets[0].attr in attrs \
                            and isinstance(a.value, ast.Name) and a.value.id in init.params:
                        params.add(init.params.index(a.value.id) - 1)
            needs[k] = (fn, attrs, params)
    # construction sites
    for k, (fn, attrs, params) in needs.items():
        subs = [k] + cx.idx.subclasses(k)
        bad = []
        for f in cx.idx.all_funcs():
            env = None
            for c in ast.walk(f.node):
                if not (isinstance(c, ast.Call) and isinstance(c.func, ast.Name)):
                    continue
                r = cx.idx.lookup(f.mod, c.func.id)
                if not (r and r[0] == 'class' and r[1] in subs):
                    continue
                target = r[1]
                # which argument reaches the base parameter: follow Sub.__init__ -> Base.__init__(self, X) one level
                arg = c.args[0] if c.args else None
                tinit = cx.idx.find_method(target, '__init__')
                passthrough = True
                if tinit is not None and tinit.cls is not k:
                    passthrough = False
                    for b in ast.walk(tinit.node):
                        if isinstance(b, ast.Call) and isinstance(b.func, ast.Attribute) and b.func.attr == '__init__' and len(b.args) >= 2 \
                                and isinstance(b.args[1], ast.Name) and len(tinit.params) > 1 and b.args[1].id == tinit.params[1]:
                            passthrough = True
                if not passthrough or arg is None:
                    continue
                if env is None:
                    env = local_types(f)
                t = infer(arg, env)
                if t not in ('str',):
                    bad.append((f, c, U(arg)[:40]))
        ck.ob(rule, fn.qn, 'every construction site passes text for self.%s' % ', self.'.join(sorted(attrs)), not bad,
              detail='exception-text-concatenates-non-text', loc=cx.floc(bad[0][0], bad[0][1]) if bad else cx.floc(fn),
              message='%s concatenates self.%s to a string, but %s constructs the exception with `%s`, which is not known to be text: formatting the '
                      'exception (every serving loop does, inside its except branch) raises TypeError there — %s'
                      % (fn.qn, ', self.'.join(sorted(attrs)), bad[0][0].qn if bad else '', bad[0][2] if bad else '', why))
    ck.floor(rule, n, 1, 'text methods of the exception classes')
    return n
