"""Options whose documented default is an attribute of the `Defaults` singleton (pymodbus.constants) are read when the object is
constructed: `kwargs.get('retries', Defaults.Retries)` in the constructor body.  `Defaults` is the library's documented global
configuration -- applications assign to it at run time, before they build their clients and servers.  A default that names
`Defaults.X` in a *signature* is evaluated once, when the module is imported: the option is frozen at the import-time value and
the documented setting is silently ignored (and siblings that still read it at construction disagree with the one that does not).

The rule is evaluated per property for the options that property's behaviour hangs on (shared by C04 / C05 / C09 / C10 / C13 / C17 / C18)."""
import ast

from .common import U


def _frozen_in(node, options):
    a = node.args
    pos = a.posonlyargs + a.args
    pairs = list(zip(pos[len(pos) - len(a.defaults):], a.defaults)) + [(k, d) for k, d in zip(a.kwonlyargs, a.kw_defaults) if d is not None]
    out = []
    for arg, d in pairs:
        for n in ast.walk(d):
            if isinstance(n, ast.Attribute) and isinstance(n.value, ast.Name) and n.value.id == 'Defaults' and n.attr in options:
                out.append((arg.arg, n.attr))
    return out


def frozen_defaults(cx, modules, options):
    """(function, parameter, option) for every parameter of a function in `modules` whose default expression is Defaults.<option>"""
    out = []
    for mn in modules:
        m = cx.idx.mod(mn)
        funcs = list(m.funcs.values()) + [fn for c in m.classes.values() for fn in c.methods.values()]
        for fn in funcs:
            out += [(fn, par, opt) for par, opt in _frozen_in(fn.node, options)]
    return out


def rule_options_read_at_construction(ck, cx, rule, modules, options, why):
    ck.rule(rule, 'the options %s default to the CURRENT value of Defaults.<option>: they are read in the constructor body, never bound in a signature (which is evaluated once, at import)'
            % ', '.join(sorted(options)))
    n = 0
    for mn in modules:
        m = cx.idx.mod(mn)
        n += len(m.funcs) + sum(len(c.methods) for c in m.classes.values())
        ck.saw('modules', mn)
    for fn, par, opt in frozen_defaults(cx, modules, options):
        ck.ob(rule, fn.qn, 'no signature default is Defaults.%s' % opt, False, detail='default-frozen-at-import %s' % opt, loc=cx.floc(fn),
              message='%s binds `%s=Defaults.%s` in its signature: the value is taken when the module is imported, so an application that sets Defaults.%s before '
                      'building the object (the documented way) is ignored — %s' % (fn.qn, par, opt, opt, why))
    ck.obligations.append((rule, ','.join(modules), '%d signatures examined for frozen Defaults options' % n, True))
    ck.floor(rule, n, 5, 'function signatures examined')
    # embedded positive example: the detector sees the construct it is looking for
    probe = ast.parse('def build(framer, retries=Defaults.Retries, *, strict=Defaults.Strict):\n    pass\n').body[0]
    ck.positive(rule, _frozen_in(probe, ('Retries', 'Strict')) == [('retries', 'Retries'), ('strict', 'Strict')], 'signature defaults naming Defaults.<option>')
