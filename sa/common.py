"""Shared context for rule modules."""
import ast

from .loader import Index, AnalysisError, Cls, Func, loc, relpath
from .consteval import ConstEval, NotConst
from .sym import Normaliser, Poly, NotInt, constraints, cstr
from .paths import PathEnum, SelfResolver, Hier, Ev, _UNKNOWN
from .symreplay import replay

U = ast.unparse


class Ctx:
    _cache = {}

    def __init__(self, pkgs=('pymodbus',)):
        self.idx = Index(pkgs=pkgs)
        self.ce = ConstEval(self.idx)
        self.hier = Hier(self.idx)
        from . import symreplay
        symreplay.PURE_INLINER = self._pure_inline

    def _pure_inline(self, call, frame):
        """`self.m(args)` where m is a straight-line, side-effect-free method (local assignments + one
        return): the returned expression with parameters and locals substituted"""
        cls = getattr(frame, 'cls', None)
        if cls is None:
            return None
        return self.pure_inline_call(call, cls.mod, cls)

    def pure_inline_call(self, call, mod, cls, depth=0):
        """a call of a *private*, straight-line, side-effect-free helper -- `self._m(args)` (method or staticmethod),
        `Cls._m(args)`, or a module-level `_f(args)` -- replaced by its returned expression with parameters and
        locals substituted; None when the callee is anything else"""
        from .sym import substitute
        if not isinstance(call, ast.Call) or depth > 3:
            return None
        f = call.func
        m = None
        if isinstance(f, ast.Attribute) and isinstance(f.value, ast.Name) and cls is not None and f.value.id in ('self', 'cls', cls.name):
            m = self.idx.find_method(cls, f.attr)
            name = f.attr
        elif isinstance(f, ast.Name) and mod is not None:
            r = self.idx.lookup(mod, f.id)
            if r and r[0] == 'func':
                m = r[1]
            name = f.id
        if m is None or m.is_async or not name.startswith('_') or name.startswith('__'):
            return None         # only private helpers: public API calls keep their name in the summaries
        body = [st for st in m.node.body if not (isinstance(st, ast.Expr) and isinstance(st.value, ast.Constant))]
        if not body or not isinstance(body[-1], ast.Return) or body[-1].value is None:
            return None
        params = list(m.params)
        if m.cls is not None and not getattr(m, 'is_staticmethod', False):
            params = params[1:]
        if len(call.args) > len(params) or any(k.arg is None or k.arg not in params for k in call.keywords):
            return None
        env = dict(zip(params, call.args))
        for k in call.keywords:
            env[k.arg] = k.value
        a = m.node.args
        pos = a.posonlyargs + a.args
        for arg, d in zip(pos[len(pos) - len(a.defaults):], a.defaults):
            env.setdefault(arg.arg, d)
        if any(p_ not in env for p_ in params):
            return None
        for st in body[:-1]:
            if isinstance(st, ast.Assign) and len(st.targets) == 1 and isinstance(st.targets[0], ast.Name):
                env[st.targets[0].id] = substitute(st.value, env)
            elif isinstance(st, ast.Assign) and len(st.targets) == 1 and isinstance(st.targets[0], (ast.Tuple, ast.List)) and len(st.targets[0].elts) == 2 \
                    and all(isinstance(t, ast.Name) for t in st.targets[0].elts) and isinstance(st.value, ast.Call) and isinstance(st.value.func, ast.Name) \
                    and st.value.func.id == 'divmod' and len(st.value.args) == 2:
                # q, r = divmod(a, b)   ==   q = a // b ; r = a % b
                a_, b_ = (substitute(x, env) for x in st.value.args)
                env[st.targets[0].elts[0].id] = ast.BinOp(left=a_, op=ast.FloorDiv(), right=b_)
                env[st.targets[0].elts[1].id] = ast.BinOp(left=a_, op=ast.Mod(), right=b_)
            elif isinstance(st, ast.Assign) and len(st.targets) == 1 and isinstance(st.targets[0], (ast.Tuple, ast.List)) \
                    and all(isinstance(t, ast.Name) for t in st.targets[0].elts) and isinstance(st.value, ast.Call) and U(st.value.func) in ('struct.unpack', 'unpack'):
                # a, b = struct.unpack(F, x)   ==   a = struct.unpack(F, x)[0] ; b = struct.unpack(F, x)[1]
                call_ = substitute(st.value, env)
                for i_, t_ in enumerate(st.targets[0].elts):
                    env[t_.id] = ast.Subscript(value=call_, slice=ast.Constant(value=i_), ctx=ast.Load())
            else:
                return None
        for n in ast.walk(body[-1].value):
            if isinstance(n, ast.Call) and not (isinstance(n.func, ast.Name) and n.func.id in ('len', 'int', 'byte2int', 'min', 'max', 'divmod', 'dict', 'list', 'tuple', 'set', 'frozenset', 'bytes', 'bool', 'abs', 'ord', 'range', 'sum', 'sorted')):
                inner = self.pure_inline_call(n, m.mod, m.cls, depth + 1)
                if inner is None and not self._pure_lookup_call(n, m.cls):
                    return None
        return substitute(body[-1].value, env)

    def _pure_lookup_call(self, call, cls):
        """`self.m(args)` where m (public or private) is nothing but `return <expression without calls>`: a table lookup such as
        IModbusSlaveContext.decode(fx); it stays a call in the inlined expression"""
        f = call.func
        if not (isinstance(f, ast.Attribute) and isinstance(f.value, ast.Name) and f.value.id == 'self' and cls is not None):
            return False
        m = self.idx.find_method(cls, f.attr)
        if m is None or m.is_async:
            return False
        body = [st for st in m.node.body if not (isinstance(st, ast.Expr) and isinstance(st.value, ast.Constant))]
        return len(body) == 1 and isinstance(body[0], ast.Return) and body[0].value is not None and \
            not any(isinstance(x, (ast.Call, ast.Await, ast.Yield)) for x in ast.walk(body[0].value))

    def nz(self, mod=None, cls=None):
        n = Normaliser(self.ce, mod, cls)
        n.inliner = self.pure_inline_call
        return n

    def enum(self, func, cls=None, resolver=None, may_raise=None, max_depth=3, consts=None, fnbinds=None,
             max_paths=200000, default_kwargs=False):
        if resolver is None and max_depth == 0 and func.qn == 'pymodbus.transaction.ModbusTransactionManager.execute':
            resolver, max_depth = self.tx_helper_resolver(), 2
        if resolver is None and max_depth == 0:
            resolver, max_depth = self.receiver_helper_resolver(), 1
        pe = PathEnum(self.idx, resolver or SelfResolver(self.idx), may_raise, max_depth=max_depth,
                      hier=self.hier, max_paths=max_paths)
        pe.consteval = self._consteval_hook
        pe.default_kwargs = default_kwargs
        return pe.run(func, cls if cls is not None else func.cls, consts=consts, fnbinds=fnbinds)

    def _consteval_hook(self, node, frame):
        from .paths import _UNKNOWN
        f = getattr(frame, 'func', None)
        if f is None or not hasattr(f, 'mod'):
            return _UNKNOWN
        v = self.ce.try_ev(node, f.mod, getattr(frame, 'cls', None), default=_UNKNOWN)
        return v if isinstance(v, int) and not isinstance(v, bool) else _UNKNOWN

    TX_MODELLED = ('_transact', '_send', '_recv', '_calculate_response_length', '_calculate_exception_length', 'getNextTID', 'addTransaction',
                   'getTransaction', 'delTransaction', 'reset', 'execute')

    def receiver_helper_resolver(self):
        """`_helper(self, ...)` -- a private function of the same module that is handed the receiver -- is part of the method that
        calls it (a body shared by sibling classes, factored out): even an analysis that inlines nothing else follows it.  The
        helper's parameter stands for `self` in everything the rules look at (substituted expressions)."""
        def res(call, fr, path):
            f = call.func
            if isinstance(f, ast.Name) and f.id.startswith('_') and not f.id.startswith('__') and getattr(fr, 'func', None) is not None and fr.fid == 0 \
                    and any(isinstance(a, ast.Name) and a.id == 'self' for a in call.args):
                r = self.idx.lookup(fr.func.mod, f.id)
                if r and r[0] == 'func' and r[1].mod is fr.func.mod and not r[1].is_async and not r[1].node.decorator_list:
                    return (r[1], None, {})
            return None
        return res

    def tx_helper_resolver(self):
        """private helper methods of the transaction manager that are not modelled on their own (a prologue / epilogue factored
        out of execute()) are part of execute(): they are inlined; everything else stays a call event"""
        def stop(fn):
            return fn.cls is None or not fn.qn.startswith('pymodbus.transaction.') or fn.name in self.TX_MODELLED or not fn.name.startswith('_') \
                or fn.name.startswith('__')
        base = SelfResolver(self.idx, stop=stop)

        def res(call, fr, path):
            f = call.func
            if isinstance(f, ast.Attribute) and isinstance(f.value, ast.Name) and f.value.id == 'self':
                return base(call, fr, path)
            return None
        return res

    def enum_region(self, func, cls, stmts=None, stop=(), resolver=None, may_raise=None, max_depth=0, consts=None):
        """enumerate a region of func: `stmts` (a statement list inside func; default the whole body),
        stopping at the statements in `stop`"""
        if resolver is None and max_depth == 0 and func.qn == 'pymodbus.transaction.ModbusTransactionManager.execute':
            resolver, max_depth = self.tx_helper_resolver(), 2
        if resolver is None and max_depth == 0:
            resolver, max_depth = self.receiver_helper_resolver(), 1
        pe = PathEnum(self.idx, resolver or SelfResolver(self.idx), may_raise, max_depth=max_depth, hier=self.hier)
        pe.consteval = self._consteval_hook
        pe.stop_nodes = set(stop)
        return pe.run_block(func, cls if cls is not None else func.cls, stmts if stmts is not None else func.node.body, consts=consts)

    def method(self, cls, name):
        m = self.idx.find_method(cls, name)
        if m is None:
            raise AnalysisError('anchor method vanished: %s.%s' % (cls.qn, name))
        return m

    def floc(self, func, node=None):
        return loc(func.mod, node if node is not None else func.node)


def path_constraints(path, st, nz, frame_filter=None):
    """constraints implied by the branch conditions taken on the path (substituted)"""
    out = []
    for ev in path.ev:
        if ev.kind == 'cond' and (frame_filter is None or frame_filter(ev.frame)):
            out += constraints(st_expr_at(ev, st), ev.a, nz)
    return out


def st_expr_at(ev, st):
    return getattr(ev, '_sub', None) or st.expr(ev.node, ev.frame)


def annotate(path, heap=True, versioned=()):
    """replay the path and store on every cond/call/return event the substituted
    expression valid *at that point* (ev._sub) ; returns the final state"""
    def on(i, ev, st):
        if ev is None:
            return
        if ev.kind == 'cond':
            ev._sub = st.expr(ev.node, ev.frame, heap=heap, inline=True)
        elif ev.kind == 'call':
            ev._sub = _expand_star_kwargs(st.expr(ev.node, ev.frame, heap=heap))
        elif ev.kind == 'return' and ev.a is not None and ev.a is not _UNKNOWN:
            ev._sub = st.expr(ev.a, ev.b or ev.frame, heap=heap, inline=True)
        elif ev.kind == 'assign':
            ev._subt = st.expr(ev.a, ev.frame, heap=False) if not isinstance(ev.a, ast.Name) else ev.a
            ret, rfr = ev.b
            prev = path.ev[i - 1] if i > 0 else None
            if prev is not None and prev.kind == 'assign' and prev.node is ev.node and hasattr(prev, '_sub'):
                ev._sub = prev._sub          # a = b = value: one evaluation of the value
            else:
                ev._sub = st.expr(ret, rfr, heap=heap, inline=True) if (ret is not None and ret is not _UNKNOWN) else None
    return replay(path, on, heap=heap, versioned=versioned)


def _expand_star_kwargs(call):
    """f(a, **dict(k=v)) / f(a, **{'k': v}) is f(a, k=v): a keyword dictionary whose keys are known is spelt out"""
    if not isinstance(call, ast.Call) or not any(k.arg is None for k in call.keywords):
        return call
    kws, changed = [], False
    for k in call.keywords:
        v = k.value
        if k.arg is None and isinstance(v, ast.Call) and isinstance(v.func, ast.Name) and v.func.id == 'dict' and not v.args and v.keywords and all(x.arg for x in v.keywords):
            kws += [ast.keyword(arg=x.arg, value=x.value) for x in v.keywords]
            changed = True
        elif k.arg is None and isinstance(v, ast.Dict) and v.keys and all(isinstance(x, ast.Constant) and isinstance(x.value, str) for x in v.keys):
            kws += [ast.keyword(arg=x.value, value=y) for x, y in zip(v.keys, v.values)]
            changed = True
        else:
            kws.append(k)
    if not changed:
        return call
    c2 = ast.Call(func=call.func, args=call.args, keywords=kws)
    return ast.fix_missing_locations(ast.copy_location(c2, call))


def ret_expr(path):
    """substituted return expression of the root frame (None if bare return / fallthrough)"""
    for ev in reversed(path.ev):
        if ev.kind == 'return' and ev.frame.fid == 0:
            return getattr(ev, '_sub', None)
    return None


def is_const(node, value):
    return isinstance(node, ast.Constant) and node.value is value


def calls_named(node, names):
    """Call nodes inside `node` whose callee's last attribute / name is in names"""
    out = []
    for n in ast.walk(node):
        if isinstance(n, ast.Call):
            f = n.func
            nm = f.attr if isinstance(f, ast.Attribute) else (f.id if isinstance(f, ast.Name) else None)
            if nm in names:
                out.append(n)
    return out


def callee_name(call):
    f = call.func
    return f.attr if isinstance(f, ast.Attribute) else (f.id if isinstance(f, ast.Name) else None)


def annotated_copy(path, heap=True, versioned=()):
    """annotate a private copy of the path (events are shared between paths with a common
    prefix, so a second annotation mode must not overwrite the first)"""
    from .paths import Path
    q = Path()
    q.ev = [Ev(e.kind, e.node, e.frame, e.a, e.b) for e in path.ev]
    q.exit, q.env, q.fn, q.nf = path.exit, path.env, path.fn, path.nf
    st = annotate(q, heap=heap, versioned=versioned)
    return q, st


def contradictory(path):
    """A path that takes both outcomes of the same (substituted) condition without an
    intervening write to anything the condition mentions is infeasible."""
    seen = {}
    for ev in path.ev:
        if ev.kind in ('assign', 'aug'):
            tgts = []
            if ev.kind == 'assign':
                tgts = ev.node.targets if hasattr(ev.node, 'targets') else [ev.node.target]
            else:
                tgts = [ev.node.target]
            names = set()
            for t in tgts:
                for el in (t.elts if isinstance(t, (ast.Tuple, ast.List)) else [t]):
                    base = el
                    while isinstance(base, ast.Subscript):
                        base = base.value
                    names.add(U(base))
            for k in [k for k in seen if any(_mentions(k, n) for n in names)]:
                del seen[k]
        elif ev.kind == 'call':
            # a call on an object may mutate it: forget conditions mentioning the receiver
            f = ev.node.func
            if isinstance(f, ast.Attribute) and f.attr in ('append', 'remove', 'pop', 'extend', 'clear', 'update'):
                n = U(f.value)
                for k in [k for k in seen if _mentions(k, n)]:
                    del seen[k]
        elif ev.kind == 'cond':
            sub_ = getattr(ev, '_sub', None) or ev.node
            fid = ev.frame.fid
            fn_ = getattr(ev.frame, 'func', None)
            if fid != 0 and fn_ is not None and getattr(ev, '_sub', None) is not None:
                # a condition of an inlined helper that, after substitution, speaks only in terms of the caller (none of the helper's
                # own parameters / locals is left in it) is the caller's condition
                own = set(getattr(fn_, 'params', ())) | {n.id for n in ast.walk(fn_.node) if isinstance(n, ast.Name) and isinstance(n.ctx, ast.Store)}
                if getattr(fn_, 'cls', None) is not None and getattr(ev.frame, 'cls', None) is not None:
                    own.discard('self')      # helpers are inlined on the same receiver
                if not ({n.id for n in ast.walk(sub_) if isinstance(n, ast.Name)} & own):
                    fid = 0
            txt = '%d:%s' % (fid, U(sub_))
            if txt in seen and seen[txt] != ev.a:
                return True
            seen[txt] = ev.a
    return False


def _mentions(text, name):
    import re
    return re.search(r'(?<![\w.])' + re.escape(name) + r'(?![\w])', text) is not None


def removes_on_pickup(cx, fn, cls, table='self.transactions'):
    """For a getter `fn(key)`: on every path that returns an entry of `table` the entry is removed
    (pop, or subscript read followed by del).  -> (ok, why)"""
    key = fn.params[1]
    seen = False
    for p in cx.enum(fn, cls, max_depth=0):
        annotate(p, heap=False)
        r = ret_expr(p)
        if r is None or (isinstance(r, ast.Constant) and r.value is None):
            continue
        txt = U(r)
        if table not in txt:
            continue
        seen = True
        # every look-up in the table on this path uses the requested key (after substituting locals): a fallback key
        # (oldest entry, default id, ...) hands out an entry that was stored for another request
        keys = []
        for n in ast.walk(r):
            if isinstance(n, ast.Subscript) and U(n.value) == table:
                keys.append(U(n.slice))
            elif isinstance(n, ast.Call) and callee_name(n) in ('pop', 'get') and isinstance(n.func, ast.Attribute) and U(n.func.value) == table and n.args:
                keys.append(U(n.args[0]))
        foreign = [k for k in keys if k != key]
        if foreign or not keys:
            return False, 'path returns %s: entry looked up under %s, not under the requested id' % (txt, foreign[0] if foreign else 'nothing')
        popped = isinstance(r, ast.Call) and callee_name(r) == 'pop' and U(r.func.value) == table and r.args and U(r.args[0]) == key
        deleted = any((e.kind == 'del' and table in U(e.node)) or
                      (e.kind == 'call' and callee_name(e.node) in ('pop', 'popitem') and table in U(e.node)) for e in p.ev)
        if not (popped or deleted):
            return False, 'path returns %s without removing it' % txt
    return seen, 'no path returns an entry' if not seen else 'ok'
