"""Path summaries of the server front-ends' execute / send / receive-loop code
(shared by C05 R5, C09, C10, C11 R4, C12, C17)."""
import ast

from .common import Ctx, U, annotate, callee_name, AnalysisError, SelfResolver, _UNKNOWN

FRONTENDS = [
    # name, class, execute, send, receive loop, kind
    ('sync-stream', 'pymodbus.server.sync.ModbusConnectedRequestHandler', 'execute', 'send', 'handle', 'stream'),
    ('sync-single', 'pymodbus.server.sync.ModbusSingleRequestHandler', 'execute', 'send', 'handle', 'stream'),
    ('sync-datagram', 'pymodbus.server.sync.ModbusDisconnectedRequestHandler', 'execute', 'send', 'handle', 'datagram'),
    ('asyncio-stream', 'pymodbus.server.async_io.ModbusConnectedRequestHandler', 'execute', 'send', 'handle', 'stream'),
    ('asyncio-datagram', 'pymodbus.server.async_io.ModbusDisconnectedRequestHandler', 'execute', 'send', 'handle', 'datagram'),
    ('twisted-stream', 'pymodbus.server.asynchronous.ModbusTcpProtocol', '_execute', '_send', 'dataReceived', 'stream'),
    ('twisted-datagram', 'pymodbus.server.asynchronous.ModbusUdpProtocol', '_execute', '_send', 'datagramReceived', 'datagram'),
]

TRANSPORT_RECEIVERS = ('self.request', 'self.socket', 'self.transport')
TRANSPORT_WRITES = ('send', 'sendto', 'write', 'sendall')
CONTEXT_EXPRS = ('self.server.context', 'self.factory.store', 'self.store')


def is_transport_write(call):
    f = call.func
    return isinstance(f, ast.Attribute) and f.attr in TRANSPORT_WRITES and U(f.value) in TRANSPORT_RECEIVERS


def exec_may_raise(node, frame, path):
    if isinstance(node, ast.Subscript) and U(node.value) in CONTEXT_EXPRS and isinstance(node.ctx, ast.Load):
        return ['NoSuchSlaveException']
    if isinstance(node, ast.Call) and isinstance(node.func, ast.Attribute) and node.func.attr == 'execute' \
            and U(node.func.value) == 'request':
        # what a datastore may throw: "some Exception" plus the concrete classes a handler could single out
        return ['AnyException', 'KeyError', 'IndexError', 'ValueError', 'OSError']
    return []


class FrontPath:
    def __init__(self):
        self.flags = {}          # 'broadcast_enable','unit0','ignore_missing' -> polarity
        self.handler = None      # exception class handled (None = normal)
        self.raised = None       # exception class raised
        self.raise_site = None   # 'execute' (the datastore) | 'context' (unit lookup)
        self.response = None     # substituted expr of the message handed to send
        self.response_kind = None   # 'execute' | ('exception', code) | None
        self.exec_calls = []     # substituted request.execute(...) calls
        self.exec_in_loop = False
        self.loop_iter = None
        self.id_copies = set()   # 'transaction_id', 'unit_id' copied request -> response before send
        self.send_calls = 0      # calls of the front-end's send method
        self.writes = []         # transport write events (ev)
        self.gated = []          # per write: was should_respond tested true before it (in the send frame)
        self.built = []          # per write: payload comes from self.framer.buildPacket(message)
        self.exit = None
        self.path = None


def frontend_exec_paths(cx, fe):
    name, cqn, ex, snd, recv, kind = fe
    cls = cx.idx.cls(cqn)
    f = cx.method(cls, ex)
    sendf = cx.method(cls, snd)
    res = SelfResolver(cx.idx)
    out = []
    for p in cx.enum(f, cls, resolver=res, may_raise=exec_may_raise, max_depth=3):
        st = annotate(p)
        fp = FrontPath()
        fp.path, fp.exit = p, p.exit
        in_send = 0
        gate_ok = False
        loops = []
        copies = []
        for i, ev in enumerate(p.ev):
            t = U(ev.node) if isinstance(ev.node, ast.AST) and ev.kind == 'cond' else ''
            if ev.kind == 'cond' and ev.frame.fid == 0:
                sub, pol = U(ev._sub), ev.a
                while sub.startswith('not '):
                    sub, pol = sub[4:].strip(), not pol
                if sub.startswith('(') and sub.endswith(')'):
                    sub = sub[1:-1]
                if sub.endswith('.broadcast_enable'):
                    fp.flags['broadcast_enable'] = pol
                elif sub in ('request.unit_id == 0', '0 == request.unit_id'):
                    fp.flags['unit0'] = pol
                elif sub in ('request.unit_id != 0', '0 != request.unit_id', 'request.unit_id'):
                    fp.flags['unit0'] = not pol
                elif sub.endswith('.ignore_missing_slaves'):
                    fp.flags['ignore_missing'] = pol
                else:
                    fp.flags.setdefault('other', []).append((sub, ev.a))
            elif ev.kind == 'cond' and ev.frame.func is sendf:
                sub = U(ev._sub)
                if sub.endswith('.should_respond') and ev.a:
                    gate_ok = True
            elif ev.kind == 'handler' and ev.frame.fid == 0:
                fp.handler = ev.b
            elif ev.kind == 'raise' and ev.frame.fid == 0:
                fp.raised = ev.a
                fp.raise_site = 'execute' if (isinstance(ev.node, ast.Call) and callee_name(ev.node) == 'execute') else 'context'
            elif ev.kind == 'loop' and ev.frame.fid == 0:
                if ev.a == 'enter':
                    loops.append(ev.node)
                    if isinstance(ev.node, ast.For):
                        fp.loop_iter = U(st_expr(st, ev.node.iter, ev.frame, p, i))
                elif ev.a in ('break', 'backedge') and loops:
                    loops.pop()
            elif ev.kind == 'enter' and ev.frame.func is sendf:
                fp.send_calls += 1
                in_send += 1
                gate_ok = False
                msg = ev.node.args[0] if ev.node.args else None
                if msg is not None:
                    fp.response = st_expr(st, msg, ev.a, p, i)
            elif ev.kind == 'leave' and ev.frame.func is sendf:
                in_send -= 1
            elif ev.kind == 'call':
                sub = ev._sub
                if isinstance(sub.func, ast.Attribute) and sub.func.attr == 'execute' and ev.frame.fid == 0 and \
                        U(ev.node.func.value) == 'request':
                    fp.exec_calls.append(sub)
                    if loops:
                        fp.exec_in_loop = True
                if is_transport_write(ev.node):
                    fp.writes.append(ev)
                    fp.gated.append(gate_ok)
                    payload = sub.args[0] if sub.args else None
                    fp.built.append(payload is not None and isinstance(payload, ast.Call) and callee_name(payload) == 'buildPacket'
                                    and U(payload.func.value) == 'self.framer')
            elif ev.kind == 'assign' and isinstance(ev.a, ast.Attribute) and ev.a.attr in ('transaction_id', 'unit_id'):
                # <message>.<id> = request.<id>, in execute itself or in a helper it calls: both sides are compared after
                # substitution into the terms of execute's frame; which message it is is settled when it is sent
                val = getattr(ev, '_sub', None)
                tgt = getattr(ev, '_subt', None)
                if val is not None and U(val) == 'request.' + ev.a.attr and isinstance(tgt, ast.Attribute):
                    copies.append((ev.a.attr, U(tgt.value), fp.send_calls))
        for attr, base, sent_before in copies:
            if sent_before == 0 and (fp.response is None or base == U(fp.response)):
                fp.id_copies.add(attr)
        # classify the response
        r = fp.response
        if r is not None:
            if isinstance(r, ast.Call) and callee_name(r) == 'execute' and U(r.func.value) == 'request':
                fp.response_kind = 'execute'
            elif isinstance(r, ast.Call) and callee_name(r) == 'doException' and U(r.func.value) == 'request' and r.args:
                code = cx.ce.try_ev(r.args[0], f.mod, cls)
                fp.response_kind = ('exception', code)
            else:
                fp.response_kind = ('other', U(r))
        out.append(fp)
    return cls, f, sendf, out


def st_expr(st, node, frame, path, upto):
    """substituted value of `node` (in `frame`) using the state reached just before event
    index `upto` — recomputed by replaying the prefix."""
    from .symreplay import replay
    from .paths import Path
    q = Path()
    q.ev = path.ev[:upto]
    s2 = replay(q)
    return s2.expr(node, frame)


# ------------------------------------------------------------------ receive loops
def _is_logger_call(node):
    return isinstance(node, ast.Call) and U(node.func).startswith(('_logger.', 'logging.', 'traceback.'))


def recv_may_raise(node, frame, path):
    """may-raise model for the receive loops: the framer call may raise anything
    (decoders raise struct.error / IndexError on malformed PDUs), transport reads raise
    socket errors, everything else in the loop is treated as non-raising (assumption)."""
    if not isinstance(node, ast.Call) or not isinstance(node.func, ast.Attribute):
        return []
    f = node.func
    if f.attr == 'processIncomingPacket':
        return ['AnyException']
    if f.attr in ('recv', 'read', 'recvfrom') and U(f.value) in TRANSPORT_RECEIVERS:
        return ['socket.timeout', 'socket.error', 'AnyException']
    if f.attr == 'get' and 'queue' in U(f.value):
        return ['asyncio.CancelledError', 'AnyException']
    return []


class RecvPath:
    def __init__(self):
        self.flags = {}
        self.pip = None            # dict param -> substituted expr text (processIncomingPacket call), or None
        self.pip_node = None
        self.zero_added = False
        self.handler = None        # (handler class names, exception) taken
        self.raised = None         # exception raised inside the loop body (name) and where
        self.reset = False         # framer.resetFrame() called on this path
        self.stops = False         # running = False / transport.close()
        self.exit = None
        self.in_loop = False
        self.path = None


PIP_PARAMS = ['data', 'callback', 'unit']


def recv_paths(cx, fe):
    name, cqn, ex, snd, recv, kind = fe
    cls = cx.idx.cls(cqn)
    f = cx.method(cls, recv)
    res = SelfResolver(cx.idx, stop=lambda fn: fn.name in (ex, snd))
    out = []
    for p in cx.enum(f, cls, resolver=res, may_raise=recv_may_raise, max_depth=2):
        st = annotate(p)
        rp = RecvPath()
        rp.path, rp.exit = p, p.exit
        for i, ev in enumerate(p.ev):
            if ev.kind == 'cond':
                sub, pol = U(ev._sub), ev.a
                while sub.startswith('not '):
                    sub, pol = sub[4:].strip(), not pol
                if sub.endswith('.broadcast_enable'):
                    rp.flags['broadcast_enable'] = pol
                elif sub.endswith('.ListenOnly'):
                    rp.flags['listen_only'] = pol
                elif ' in ' in sub and sub.startswith(('0 in', '0 not in')):
                    pass
            elif ev.kind == 'loop' and ev.a == 'enter' and ev.frame.fid == 0:
                rp.in_loop = True
            elif ev.kind == 'raise':
                rp.raised = (ev.a, U(ev.node)[:60])
            elif ev.kind == 'handler':
                rp.handler = (ev.a, ev.b)
            elif ev.kind == 'call':
                sub = ev._sub
                fn = sub.func
                if isinstance(fn, ast.Attribute):
                    if fn.attr == 'processIncomingPacket':
                        args = {}
                        for pn, a in zip(PIP_PARAMS, sub.args):
                            args[pn] = a
                        for kw in sub.keywords:
                            if kw.arg:
                                args[kw.arg] = kw.value
                        rp.pip = args
                        rp.pip_node = ev.node
                        # a callback given as a local function: classify by what the function calls
                        cbn = args.get('callback')
                        if isinstance(cbn, ast.Name):
                            for nd in ast.walk(f.node):
                                if isinstance(nd, (ast.FunctionDef, ast.AsyncFunctionDef)) and nd.name == cbn.id and nd is not f.node:
                                    calls = [c for c in ast.walk(nd) if isinstance(c, ast.Call) and isinstance(c.func, ast.Attribute) and U(c.func.value) == 'self']
                                    if len(calls) == 1 and len(nd.body) == 1:
                                        args['callback'] = ast.parse('lambda x: %s' % U(calls[0]), mode='eval').body
                    elif fn.attr == 'append' and sub.args and isinstance(sub.args[0], ast.Constant) and sub.args[0].value == 0:
                        rp.zero_added = True
                    elif fn.attr == 'resetFrame' and U(ev.node.func.value) == 'self.framer':
                        rp.reset = True
                    elif fn.attr in ('close', 'loseConnection', 'abort') and U(ev.node.func.value) == 'self.transport':
                        rp.stops = True
            elif ev.kind == 'assign' and isinstance(ev.a, ast.Attribute) and U(ev.a) == 'self.running':
                if isinstance(ev.node.value, ast.Constant) and ev.node.value.value is False:
                    rp.stops = True
        out.append(rp)
    return cls, f, out


# ---------------------------------------------------------------------------------------------
# loop-carried flag states of a receive loop
def recv_loop_iterations(cx, fe, max_states=8):
    """For a front-end whose receive method contains a `while` loop: the set of reachable values of the
    loop-carried *flag locals* (locals assigned a constant before the loop) at the loop head, computed as a
    fixpoint, and for every such state the enumerated paths of ONE iteration of the loop body.
    -> (cls, f, loop node | None, [(state dict, [Path])])"""
    from .paths import _UNKNOWN
    name, cqn, ex, snd, recv, kind = fe
    cls = cx.idx.cls(cqn)
    f = cx.method(cls, recv)
    loops = [n for n in ast.walk(f.node) if isinstance(n, ast.While)]
    if not loops:
        return cls, f, None, []
    loop = loops[0]
    # constants assigned to plain names before the loop (textually earlier, outside of it)
    inside = set(id(n) for n in ast.walk(loop))
    init = {}
    for n in ast.walk(f.node):
        if isinstance(n, ast.Assign) and id(n) not in inside and n.lineno < loop.lineno and len(n.targets) == 1 \
                and isinstance(n.targets[0], ast.Name) and isinstance(n.value, ast.Constant):
            init[n.targets[0].id] = n.value.value
    res = SelfResolver(cx.idx, stop=lambda fn: fn.name in (ex, snd))
    states, work, out = [], [dict(init)], []
    while work:
        s = work.pop()
        if s in states:
            continue
        if len(states) >= max_states:
            raise AnalysisError('receive loop of %s: more than %d flag states' % (f.qn, max_states))
        states.append(s)
        consts = {k: v for k, v in s.items() if v is not _UNKNOWN}
        paths = cx.enum_region(f, cls, stmts=loop.body, resolver=res, may_raise=recv_may_raise, max_depth=2, consts=consts)
        out.append((s, paths))
        for p in paths:
            if p.exit is not None and p.exit[0] in ('return', 'exc', 'break'):
                continue
            nxt = {k: p.env.get((0, k), _UNKNOWN) for k in s}
            if nxt not in states and nxt not in work:
                work.append(nxt)
    return cls, f, loop, out
