"""Entry point: ./check <Cxx> [--tier quick|thorough] [--explain file]"""
import importlib
import json
import os
import sys

from .report import run_check


def main(argv):
    if not argv:
        print('usage: check <property id> [--tier quick|thorough] [--explain <replay.json>]')
        return 2
    pid = argv[0].upper()
    tier = os.environ.get('VERIF_TIER', 'quick')
    explain = None
    i = 1
    while i < len(argv):
        if argv[i] == '--tier' and i + 1 < len(argv):
            tier = argv[i + 1]
            i += 2
        elif argv[i] in ('--explain', '--replay') and i + 1 < len(argv):
            explain = argv[i + 1]
            i += 2
        else:
            i += 1
    if tier not in ('quick', 'thorough'):
        tier = 'quick'
    if pid == 'SELFTEST':
        from .selftest import main as st
        return st(argv[1:])
    try:
        mod = importlib.import_module('sa.rules.%s' % pid.lower())
    except Exception as e:   # noqa: a broken checker is never a verdict
        print('ANALYSIS-ERROR cannot load the rules of %s (%r)' % (pid, e))
        return 2
    if explain:
        try:
            with open(explain) as fh:
                rec = json.load(fh)
            print('replaying finding: %s' % json.dumps(rec, indent=1, sort_keys=True))
        except OSError as e:
            print('cannot read %s: %s' % (explain, e))
    return run_check(pid, mod.TITLE, lambda ck: mod.run(ck, tier), tier)


if __name__ == '__main__':
    try:
        rc = main(sys.argv[1:])
    except SystemExit:
        raise
    except BaseException as e:   # noqa
        print('ANALYSIS-ERROR checker crashed: %r' % (e,))
        rc = 2
    sys.exit(rc)
