"""Comparison of writer / reader summaries with the spec layouts (spec/pdu_layouts.py)."""
import ast
import re

from .layout import Seq, normalise, rename_rep, select, show, fsize, length
from .sym import Poly, NotInt

_ITEM = re.compile(r'(?:(H|B|BITS|RAW|WORDS|OBJECTS):|REP\()')


def _split_items(text):
    """split a layout string into item strings at nesting depth 0"""
    items, depth, start, i = [], 0, None, 0
    n = len(text)
    while i < n:
        ch = text[i]
        if depth == 0 and (i == 0 or text[i - 1].isspace()):
            m = _ITEM.match(text, i)
            if m:
                if start is not None:
                    items.append(text[start:i].strip())
                start = i
                if m.group(0) == 'REP(':
                    # REP( list ){ body }
                    j = text.index('){', i)
                    k, d = j + 2, 1
                    while d:
                        if text[k] == '{':
                            d += 1
                        elif text[k] == '}':
                            d -= 1
                        k += 1
                    i = k
                    continue
        i += 1
    if start is not None:
        items.append(text[start:].strip())
    return [x for x in items if x]


class Spec:
    def __init__(self, cx, cls):
        self.cx, self.cls = cx, cls
        self.nz = cx.nz(cls.mod, cls)

    def expr(self, text):
        t = text.replace('$e', '_E_')
        e = ast.parse(t, mode='eval').body
        try:
            s = str(self.nz.norm(e))
        except (NotInt, Exception):
            s = self.nz.canon(e)
        return s.replace('_E_', '$e')

    def parse(self, text):
        out = Seq()
        for it in _split_items(text):
            if it.startswith('REP('):
                j = it.index('){')
                over = self.expr(it[4:j])
                body = self.parse(it[j + 2:-1])
                out.append(('REP', body, over, '$e'))
                continue
            kind, _, rest = it.partition(':')
            ln = None
            if '#' in rest:
                rest, ln = rest.split('#', 1)
            if kind == 'H':
                out.append(('F', '>H', self.expr(rest)))
            elif kind == 'B':
                out.append(('F', 'B', self.expr(rest)))
            elif kind == 'BITS':
                out.append(('BITS', self.expr(rest)))
            elif kind == 'RAW':
                out.append(('RAW', self.expr(rest)) if ln is None else ('RAW', self.expr(rest), ln.strip()))
            elif kind in ('WORDS', 'OBJECTS'):
                out.append((kind, self.expr(rest)))
        return out


def strip_len(seq):
    """drop the reader-only #len annotation of RAW items"""
    out = Seq()
    for it in seq:
        if it[0] == 'RAW':
            out.append(('RAW', it[1]))
        elif it[0] == 'REP':
            out.append(('REP', strip_len(it[1]), it[2], it[3]))
        else:
            out.append(it)
    return out


WORD_LEAVES = None


def words_ok(seq, src):
    """is `seq` an acceptable encoding of a word-list message `src`?
    leaves: rep[>H:$e for $e in src] | >H:src | raw(src) | raw(src.encode()) | empty"""
    if not seq:
        return True
    if len(seq) == 1:
        it = seq[0]
        if it[0] == 'ALT':
            return words_ok(it[2], src) and words_ok(it[3], src)
        if it[0] == 'REP':
            return it[2] == src and list(it[1]) == [('F', '>H', '$e')]
        if it[0] == 'F':
            return it[1] == '>H' and it[2] == src
        if it[0] == 'RAW':
            return it[1] in (src, src + '.encode()')
    return False


def compare_encode(spec_seq, got, skip_conds=('self.skip_encode',)):
    """-> list of (detail, message) differences"""
    got = select(got, lambda c: False if c in skip_conds else None)
    got = rename_rep(normalise(got))
    want = strip_len(spec_seq)
    diffs = []
    i = 0
    gi = list(got)
    for wi, w in enumerate(want):
        if w[0] == 'WORDS':
            rest = Seq(gi[i:])
            if not words_ok(rest, w[1]):
                diffs.append(('field %d data-words' % wi, 'message data is encoded as `%s`, expected 16-bit big-endian words of %s' % (show(rest), w[1])))
            i = len(gi)
            continue
        if w[0] == 'OBJECTS':
            i = len(gi)     # decided by C20
            continue
        if i >= len(gi):
            diffs.append(('field %d missing' % wi, 'encode() emits nothing for spec item `%s`' % show(Seq([w]))))
            continue
        g = gi[i]
        i += 1
        if g != w:
            diffs.append(('field %d' % wi, 'encode() emits `%s` where the spec has `%s`' % (show(Seq([g])), show(Seq([w])))))
    if i < len(gi):
        diffs.append(('extra', 'encode() emits extra items `%s`' % show(Seq(gi[i:]))))
    return diffs


# ------------------------------------------------------------------ reader side
def _isz(fmt):
    return fsize(fmt)


def _conjuncts(guard):
    """top-level `and` conjuncts of a guard text like 'if (a and b) if c'"""
    out = []
    for part in re.split(r'\bifnot\b|\bif\b', guard):
        part = part.strip()
        if part.startswith('(') and part.endswith(')'):
            part = part[1:-1]
        depth, cur = 0, ''
        toks = re.split(r'(\(|\)| and )', part)
        for t in toks:
            if t == '(':
                depth += 1
            elif t == ')':
                depth -= 1
            if t == ' and ' and depth == 0:
                out.append(cur.strip())
                cur = ''
            else:
                cur += t
        if cur.strip():
            out.append(cur.strip())
    return out


def match_decode(spec_seq, s, nz, inv=None):
    """compare a DecSummary with the spec layout.  -> list of (detail, message)"""
    diffs = []
    off = Poly.const(0)
    derived = {}        # canonical source expr -> read id carrying it
    attr_read = {}
    used_loops = set()

    def top_reads():
        return [r for r in s.reads if r.loop is None]

    def find_read(o, fmt, loop=None):
        for r in s.reads:
            if r.loop == loop and r.fmt == fmt and r.off == o:
                return r
        return None

    def assigned(attr):
        return [v for v, lp in s.assigns.get(attr, [])]

    for wi, w in enumerate(spec_seq):
        if w[0] == 'F':
            r = find_read(off, w[1])
            src = w[2]
            if r is None:
                # a field may legitimately be skipped by the reader if it is redundant (derived and unused); an attribute must be read
                near = [x for x in top_reads() if x.off == off]
                if near:
                    diffs.append(('read@%s width' % off, 'decode() reads `%s` at offset %s where the spec has a `%s` field (%s)' % (near[0].fmt, off, w[1], src)))
                elif src.startswith('self.') and re.match(r'^self\.\w+$', src):
                    diffs.append(('read@%s missing' % off, 'decode() never reads the `%s` field %s at offset %s' % (w[1], src, off)))
                derived[src] = None
            else:
                derived[src] = r.rid
                m = re.match(r'^self\.(\w+)$', src)
                if m:
                    vals = assigned(m.group(1))
                    ok = any(v == r.rid or re.search(r'\b%s\b' % r.rid, v) for v in vals)
                    if not ok:
                        diffs.append(('assign %s' % m.group(1), 'decode() does not store the field at offset %s into self.%s (stores %s)' % (off, m.group(1), vals or 'nothing')))
                    attr_read[m.group(1)] = r.rid
                else:
                    m2 = re.match(r'^ite\(self\.(\w+), (\d+), (\d+)\)$', src)
                    if m2:
                        vals = assigned(m2.group(1))
                        ok = any(re.search(r'\b%s\b' % r.rid, v) and '==' in v for v in vals)
                        if not ok:
                            diffs.append(('assign %s' % m2.group(1), 'decode() does not derive self.%s from the field at offset %s' % (m2.group(1), off)))
            off = off + Poly.const(_isz(w[1]))
        elif w[0] == 'BITS':
            m = re.match(r'^self\.(\w+)$', w[1])
            vals = assigned(m.group(1)) if m else []
            want = 'bits(data[%s:])' % off
            ok = any(v == want or v.startswith(want + '[:') for v in vals)
            if not ok:
                diffs.append(('bits %s' % w[1], 'decode() does not unpack the bit list from offset %s to the end (got %s)' % (off, vals)))
            off = None
        elif w[0] == 'REP':
            body, over = w[1], w[2]
            m = re.match(r'^self\.(\w+)$', over)
            attr = m.group(1) if m else over
            fixed = all(b[0] == 'F' for b in body)
            loops = [lp for lp in s.loops if lp.lid not in used_loops]
            if not loops:
                diffs.append(('loop %s' % attr, 'decode() has no loop reading the repeated items of %s' % over))
                continue
            lp = loops[0]
            used_loops.add(lp.lid)
            var = Poly.atom('$' + lp.var) if lp.var else None
            if off is None or var is None or lp.start is None:
                diffs.append(('loop %s shape' % attr, 'decode() loop for %s is not an offset loop' % over))
                continue
            # a range loop may count items, bytes or anything affine in between: the offset of the first read inside
            # the loop, off0 = co*$var + base, fixes the map from the loop variable to byte offsets
            co, base0 = 1, Poly.const(0)
            if lp.kind == 'range':
                inloop = [x for x in s.reads if x.loop == lp.lid]
                if inloop:
                    co = inloop[0].off.t.get(('$' + lp.var,), 0)
                    base0 = inloop[0].off - var * Poly.const(co)
                    if co <= 0 or ('$' + lp.var) in base0.atoms():
                        diffs.append(('loop %s shape' % attr, 'decode() loop for %s does not read at an offset affine in its loop variable' % over))
                        continue
            cur = var * Poly.const(co) + base0        # byte offset of the current item
            # element reads
            eo = Poly.const(0)
            elem_reads = {}
            raw_fields = []
            for b in body:
                if b[0] == 'F':
                    r = find_read(cur + eo, b[1], lp.lid)
                    if r is None:
                        diffs.append(('loop %s item@%s' % (attr, eo), 'decode() loop for %s reads no `%s` at element offset %s' % (over, b[1], eo)))
                    else:
                        elem_reads[b[2]] = r
                    eo = eo + Poly.const(_isz(b[1]))
                elif b[0] == 'RAW':
                    raw_fields.append((b, eo))
                    ln = b[2] if len(b) > 2 else None
                    if ln is not None:
                        lp_len = _spec_len(ln, elem_reads, derived, nz)
                        eo = eo + lp_len if lp_len is not None else eo
            esize = eo
            # loop geometry
            if lp.kind == 'range' and fixed:
                es = esize.const_value()
                eff_start = lp.start * Poly.const(co) + base0
                eff_step = (lp.step or 0) * co
                if eff_start != off:
                    diffs.append(('loop %s start' % attr, 'decode() loop for %s starts at offset %s, the items start at %s' % (over, eff_start, off)))
                if eff_step != es:
                    diffs.append(('loop %s stride' % attr, 'decode() loop for %s advances by %s, an item is %s bytes' % (over, eff_step, es)))
                # number of iterations must equal len(list) under the meaning of some count / byte-count field read before
                stride = lp.step
                raw_span = (lp.stop - lp.start)
                cands = []
                okc = False
                for src, rid in derived.items():
                    if rid is None:
                        continue
                    n_it = _iterations(raw_span, stride, src, rid, over, nz, inv)
                    if n_it is not None:
                        cands.append('%s=%s -> %s iterations' % (rid, src, n_it))
                        if n_it == Poly.atom('len(%s)' % over):
                            okc = True
                if cands and not okc:
                    diffs.append(('loop %s count' % attr, 'decode() loop for %s: %s; expected len(%s) iterations' % (over, '; '.join(cands), over)))
                if not cands:
                    diffs.append(('loop %s count' % attr, 'decode() loop for %s is not bounded by a count field' % over))
            elif lp.kind == 'cursor':
                if lp.start != off:
                    diffs.append(('loop %s start' % attr, 'decode() loop for %s starts at offset %s, the records start at %s' % (over, lp.start, off)))
                if lp.step is None or lp.step != esize:
                    diffs.append(('loop %s advance' % attr, 'decode() advances by %s per record, a record is %s bytes' % (lp.step, esize)))
                # stop: start + byte count
                bc = [rid for src, rid in derived.items() if rid and (src.startswith('sum(') or 'len(' in src)]
                want_stop = [off + Poly.atom(r) for r in bc]
                minsize = max(esize.t.get((), 0), 1, (inv or {}).get('__min_record__', 1))
                okstop = any((w_ - lp.stop).const_value() is not None and 0 <= (w_ - lp.stop).const_value() < minsize for w_ in want_stop) \
                    if lp.stop is not None else False
                if lp.stop is not None and want_stop and not okstop:
                    diffs.append(('loop %s stop' % attr, 'decode() loop runs while cursor < %s, the records end at %s' % (lp.stop, want_stop[0])))
            elif lp.kind == 'range' and not fixed:
                # fixed-size records read by a range loop (FC20 request): same as fixed
                es = esize.const_value()
                eff_start = lp.start * Poly.const(co) + base0
                eff_step = (lp.step or 0) * co
                if eff_start != off or eff_step != es:
                    diffs.append(('loop %s geometry' % attr, 'decode() loop for %s: start %s step %s, expected start %s step %s' % (over, eff_start, eff_step, off, es)))
            # appended element
            apps = [a for a in s.appends if a[0] == attr and a[2] == lp.lid]
            if not apps:
                diffs.append(('loop %s append' % attr, 'decode() loop does not append to self.%s' % attr))
            else:
                # a guard on the append may only drop records the specification excludes
                from spec.tables import RECORD_FIELD_RANGES
                for a in apps:
                    g = a[3] or ''
                    for conj in _conjuncts(g):
                        for src, r in elem_reads.items():
                            m3 = re.match(r'^\$e\.(\w+)$', src)
                            if not m3 or m3.group(1) not in RECORD_FIELD_RANGES or not re.search(r'\b%s\b' % r.rid, conj):
                                continue
                            lo_, hi_ = RECORD_FIELD_RANGES[m3.group(1)]
                            refused = []
                            for v_ in (lo_, lo_ + 1, (lo_ + hi_) // 2, hi_ - 1, hi_):
                                try:
                                    ok_ = eval(re.sub(r'\b%s\b' % r.rid, str(v_), conj), {'__builtins__': {}, 'range': range, 'len': len, 'abs': abs})
                                except Exception:
                                    ok_ = True       # not decidable here: no verdict
                                if not ok_:
                                    refused.append(v_)
                            if refused:
                                diffs.append(('loop %s filter %s' % (attr, m3.group(1)),
                                              'decode() drops records whose %s is %s (guard `%s`), values the specification allows' % (m3.group(1), refused, conj)))
                for src, r in elem_reads.items():
                    if src == '$e' and not any(a[1] == r.rid for a in apps):
                        diffs.append(('loop %s element' % attr, 'decode() appends %s to self.%s instead of the item read' % ([a[1] for a in apps], attr)))
                    m3 = re.match(r'^\$e\.(\w+)$', src)
                    if m3 and not any(re.search(r'\b%s=%s\b' % (m3.group(1), r.rid), a[1]) for a in apps):
                        diffs.append(('loop %s element.%s' % (attr, m3.group(1)), 'decode() does not pass the %s field (read %s) to the record' % (m3.group(1), r.rid)))
                for b, beo in raw_fields:
                    m3 = re.match(r'^\$e\.(\w+)$', b[1])
                    ln = _spec_len(b[2], elem_reads, derived, nz) if len(b) > 2 else None
                    if m3 and ln is not None:
                        lo = cur + beo
                        want = '%s=data[%s:%s]' % (m3.group(1), lo, lo + ln)
                        if not any(want in a[1] for a in apps):
                            diffs.append(('loop %s element.%s' % (attr, m3.group(1)),
                                          'decode() does not take %s from data[%s:%s] (appends %s)' % (m3.group(1), lo, lo + ln, [a[1] for a in apps])))
            if not s.fresh.get(attr):
                pass      # accumulation is decided by C02 R3
            off = None
        elif w[0] == 'RAW':
            m = re.match(r'^self\.(\w+)$', w[1])
            vals = assigned(m.group(1)) if m else []
            ln = None
            if len(w) > 2:
                txt = w[2]
                for src, rid in derived.items():
                    pass
                # lengths are written with read ids of this reader (R0 = first field)
                try:
                    ln = nz.norm(ast.parse(txt, mode='eval').body)
                except Exception:
                    ln = None
            if off is not None and ln is not None:
                want = 'data[%s:%s]' % (off, off + ln)
                if want not in vals:
                    diffs.append(('raw %s' % w[1], 'decode() takes %s from %s, the spec places it at %s' % (w[1], vals, want)))
                off = off + ln
            else:
                off = None
        elif w[0] == 'WORDS':
            m = re.match(r'^self\.(\w+)$', w[1])
            vals = assigned(m.group(1)) if m else []
            ok = any(v.startswith('words(>H x ') and v.endswith('@%s)' % off) and 'len(data)' in v for v in vals)
            if not ok:
                diffs.append(('words %s' % w[1], 'decode() does not read all remaining 16-bit words from offset %s into %s (got %s)' % (off, w[1], vals)))
            off = None
        elif w[0] == 'OBJECTS':
            off = None
    return diffs


def _spec_len(txt, elem_reads, derived, nz):
    """length annotation in terms of sibling fields ($e.x) -> Poly over read ids"""
    t = txt
    for src, r in elem_reads.items():
        t = t.replace(src, r.rid)
    try:
        return nz.norm(ast.parse(t.replace('$e', '_E_'), mode='eval').body)
    except Exception:
        return None


def _iterations(span, stride, src, rid, over, nz, inv=None):
    """number of loop iterations ceil(span/stride) when read `rid` carries `src` (an affine function of len(over))"""
    L = 'len(%s)' % over
    try:
        p = nz.norm(ast.parse(src, mode='eval').body)
    except Exception:
        return None
    # count attributes are related to len(list) by the constructor invariants of the spec entry
    for _ in range(3):
        sub = {}
        for a in p.atoms():
            if inv and a in inv:
                try:
                    sub[a] = nz.norm(ast.parse(inv[a], mode='eval').body)
                except Exception:
                    pass
        if not sub:
            break
        p = p.subst(sub)
    if p.t.get((L,), 0) == 0:
        return None
    if (rid,) not in span.t:
        return None
    sp = span.subst({rid: p})
    nonconst = Poly({k: v for k, v in sp.t.items() if k != ()})
    c = sp.t.get((), 0)
    if not nonconst.divisible(stride):
        return Poly.atom('ceil(%s/%d)' % (sp, stride))
    return nonconst.div_exact(stride) + Poly.const(-((-c) // stride))


def _span_from(src, rid, over, es, nz):
    """src (canonical field source, e.g. '2*len(self.registers)' or 'self.count') read as `rid`:
    how many bytes do the items of `over` occupy?"""
    L = 'len(%s)' % over
    R = Poly.atom(rid)
    try:
        p = nz.norm(ast.parse(src, mode='eval').body)
    except Exception:
        return None
    # p = a*L + b   ->  L = (R - b)/a ; span = es * L
    a = p.t.get((L,), 0)
    rest = Poly({k: v for k, v in p.t.items() if k != (L,)})
    if a and rest.is_const():
        num = (R - rest) * Poly.const(es)
        if num.divisible(a):
            return num.div_exact(a)
        return Poly.atom('(%s)/%d' % (num, a))
    return None
