"""L5: wire-layout summaries of encode()/buildPacket() (writer side) and
decode() (reader side).

Writer side: a forward pass over the function body with abstract values for
bytes-typed variables.  Items of a layout (`Seq`):
  ('F', fmt, src)            fixed-width field, fmt is one struct code with endianness ('>H', 'B'), src canonical expr
  ('C', bytes)               constant bytes
  ('RAW', src)               bytes of a run-time value, length len(src)
  ('BITS', src)              pack_bitstring(src): ceil(len(src)/8) bytes
  ('REP', Seq, over, var)    Seq repeated for every element `var` of `over`
  ('ALT', cond, SeqA, SeqB)  cond ? SeqA : SeqB
  ('XF', name, Seq)          transform applied to a sub-layout (b2a_hex, upper, _preflight ...)
  ('OPQ', why)               unrecognised construct (a rule that needs it reports ANALYSIS-ERROR)
Nothing is executed; struct.calcsize is applied to constant format strings only.
"""
import ast
import struct

from .loader import clone, Func
from .consteval import NotConst
from .sym import Normaliser, Poly, NotInt

U = ast.unparse


class Seq(list):
    def __repr__(self):
        return 'Seq' + list.__repr__(self)


def fmt_items(fmt, srcs):
    endian = '>'
    if fmt and fmt[0] in '<>!=@':
        endian = '>' if fmt[0] in '>!' else fmt[0]
        fmt = fmt[1:]
    out, num = [], ''
    srcs = list(srcs)
    for ch in fmt:
        if ch.isdigit():
            num += ch
            continue
        n = int(num) if num else 1
        num = ''
        if ch == 's':
            out.append(('F', '%ds' % n, srcs.pop(0) if srcs else '?'))
            continue
        if ch == 'x':
            out.append(('C', b'\x00' * n))
            continue
        for _ in range(n):
            e = '' if ch in 'Bbc?' else endian
            out.append(('F', e + ch, srcs.pop(0) if srcs else '?'))
    return out


def fsize(fmt):
    return struct.calcsize(fmt if fmt[0] in '<>!=@' else '>' + fmt)


class Writer:
    """summarise a bytes-building method of class `cls`"""

    def __init__(self, cx, cls, selfname='self'):
        self.cx, self.cls = cx, cls
        self.opaque = []

    def nz(self, mod):
        return self.cx.nz(mod, self.cls)

    def u(self, e, env, mod):
        """canonical source string with locals substituted"""
        sub = {k: v for k, v in env.items() if isinstance(v, ast.AST)}
        nz = self.nz(mod)
        # inline expression-valued locals first, so that bytes-valued names inside them are seen
        for _ in range(4):
            if not any(isinstance(n, ast.Name) and isinstance(sub.get(n.id), ast.AST) for n in ast.walk(e)):
                break
            from .sym import substitute
            e = substitute(e, {k: v for k, v in sub.items() if '.' not in k})
        # len(<bytes variable>) -> length of its layout
        if any(isinstance(n, ast.Call) and isinstance(n.func, ast.Name) and n.func.id == 'len' and len(n.args) == 1
               and isinstance(n.args[0], ast.Name) and isinstance(env.get(n.args[0].id), Seq) for n in ast.walk(e)):
            e = clone(e)

            class T(ast.NodeTransformer):
                def visit_Call(self2, n):
                    self2.generic_visit(n)
                    if isinstance(n.func, ast.Name) and n.func.id == 'len' and len(n.args) == 1 and isinstance(n.args[0], ast.Name) \
                            and isinstance(env.get(n.args[0].id), Seq):
                        ln = length(normalise(env[n.args[0].id]), nz)
                        if ln is not None:
                            key = '__len_%s' % n.args[0].id
                            sub[key] = ln
                            return ast.Name(id=key, ctx=ast.Load())
                    return n
            e = T().visit(e)
        for n in ast.walk(e):
            if isinstance(n, ast.Name) and isinstance(env.get(n.id), Seq):
                sub[n.id] = 'seq[%s]' % show(rename_rep(normalise(env[n.id])))
        try:
            return str(nz.norm(e, sub))
        except (NotInt, Exception):
            return nz.canon(e, sub)

    def const(self, e, mod, env=None):
        cenv = {}
        try:
            return self.cx.ce.ev(e, mod, self.cls, cenv)
        except Exception:
            # self.X class constants
            if isinstance(e, ast.Attribute) and isinstance(e.value, ast.Name) and e.value.id == 'self':
                k, v = self.cx.idx.find_attr(self.cls, e.attr)
                if k is not None:
                    try:
                        return self.cx.ce.class_member(k, e.attr)
                    except Exception:
                        return None
            return None

    def expr(self, e, env, mod):
        """-> Seq or None (not a bytes expression we understand)"""
        if isinstance(e, ast.Constant):
            if isinstance(e.value, bytes):
                return Seq([('C', e.value)]) if e.value else Seq()
            return None
        if isinstance(e, ast.BinOp) and isinstance(e.op, ast.Add):
            a, b = self.expr(e.left, env, mod), self.expr(e.right, env, mod)
            if a is not None and b is not None:
                return Seq(a + b)
            if a is not None or b is not None:
                other = e.right if a is not None else e.left
                o = Seq([('RAW', self.u(other, env, mod))])
                return Seq(a + o) if a is not None else Seq(o + b)
            return None
        if isinstance(e, ast.Name):
            v = env.get(e.id)
            if isinstance(v, Seq):
                return Seq(v)
            if isinstance(v, ast.AST):
                return self.expr(v, {k: w for k, w in env.items() if k != e.id}, mod)
            r = self.cx.idx.lookup(mod, e.id)
            if r and r[0] == 'const':
                c = self.const(e, mod)
                if isinstance(c, bytes):
                    return Seq([('C', c)])
            return None
        if isinstance(e, ast.IfExp):
            a, b = self.expr(e.body, env, mod), self.expr(e.orelse, env, mod)
            if a is not None and b is not None:
                if all(len(x) == 1 and x[0][0] == 'RAW' for x in (a, b)):
                    return None     # nothing says these are bytes: keep the conditional as a value expression
                return Seq([('ALT', self.u(e.test, env, mod), a, b)]) if a != b else a
            return None
        if isinstance(e, ast.Call):
            fn = U(e.func)
            name = fn.split('.')[-1]
            if fn in ('struct.pack', 'pack') and e.args:
                f = self.const(e.args[0], mod)
                if not isinstance(f, str):
                    return Seq([('OPQ', 'dynamic format ' + U(e.args[0]))])
                vals = []
                for a in e.args[1:]:
                    if isinstance(a, ast.Starred):
                        tv = a.value
                        if isinstance(tv, ast.Name) and isinstance(env.get(tv.id), (ast.Tuple, ast.List)):
                            tv = env[tv.id]
                        if isinstance(tv, (ast.Tuple, ast.List)):
                            vals += list(tv.elts)
                            continue
                    vals.append(a)
                return Seq(fmt_items(f, [self.u(a, env, mod) for a in vals]))
            if fn == 'int2byte' and len(e.args) == 1:
                return Seq([('F', 'B', self.u(e.args[0], env, mod))])
            if fn == 'pack_bitstring' and len(e.args) == 1:
                return Seq([('BITS', self.u(e.args[0], env, mod))])
            if name == 'encode' and not e.args and isinstance(e.func, ast.Attribute):
                recv = e.func.value
                # "fmt % args".encode()  : hex text built by % formatting
                if isinstance(recv, ast.BinOp) and isinstance(recv.op, ast.Mod) and isinstance(recv.left, ast.Constant) and isinstance(recv.left.value, str):
                    args = recv.right
                    argl = args.elts if isinstance(args, ast.Tuple) else [args]
                    sub = {k: v for k, v in env.items() if isinstance(v, ast.AST)}
                    if isinstance(args, ast.Name) and isinstance(env.get(args.id), ast.Tuple):
                        argl = env[args.id].elts
                    return Seq([('TEXT', recv.left.value, tuple(self.u(a, env, mod) for a in argl))])
                return Seq([('RAW', self.u(recv, env, mod) + '.encode()')])
            if fn == "b''.join" and len(e.args) == 1:
                g = e.args[0]
                if isinstance(g, ast.Name) and isinstance(env.get(g.id), Seq) and g.id in getattr(self, 'listacc', ()):
                    return Seq(env[g.id])        # a list of byte pieces built with .append(): the join is their concatenation
                if isinstance(g, ast.Name) and isinstance(env.get(g.id), (ast.List, ast.Tuple, ast.ListComp, ast.GeneratorExp, ast.IfExp)):
                    g = env[g.id]
                if isinstance(g, ast.IfExp):
                    # b''.join(A if c else B): the join of whichever list the flag selects
                    mk = lambda x: ast.Call(func=e.func, args=[x], keywords=[])
                    a_, b_ = self.expr(mk(g.body), env, mod), self.expr(mk(g.orelse), env, mod)
                    if a_ is not None and b_ is not None:
                        return Seq([('ALT', self.u(g.test, env, mod), a_, b_)]) if a_ != b_ else a_
                if isinstance(g, (ast.List, ast.Tuple)):
                    # a literal list of pieces: their concatenation
                    out = Seq()
                    for el in g.elts:
                        piece = self.expr(el, env, mod)
                        out += piece if piece is not None else Seq([('RAW', self.u(el, env, mod))])
                    return out
                if isinstance(g, (ast.GeneratorExp, ast.ListComp)) and len(g.generators) == 1 and not g.generators[0].ifs:
                    gen = g.generators[0]
                    e2 = dict(env)
                    for n in ast.walk(gen.target):
                        if isinstance(n, ast.Name):
                            e2.pop(n.id, None)
                    body = self.expr(g.elt, e2, mod)
                    if body is None:
                        body = Seq([('RAW', self.u(g.elt, e2, mod))])
                    return Seq([('REP', body, self.u(gen.iter, env, mod), U(gen.target))])
                return Seq([('REP', Seq([('RAW', '$e')]), self.u(g, env, mod), '$e')])
            if name in ('bytes',) and len(e.args) == 1:
                return self.expr(e.args[0], env, mod)
            if name in ('b2a_hex', 'hexlify') and len(e.args) == 1:
                inner = self.expr(e.args[0], env, mod)
                return Seq([('XF', 'hex', inner if inner is not None else Seq([('RAW', self.u(e.args[0], env, mod))]))])
            if name == 'upper' and not e.args and isinstance(e.func, ast.Attribute):
                inner = self.expr(e.func.value, env, mod)
                if inner is not None:
                    return Seq([('XF', 'upper', inner)])
            inl = self.cx.pure_inline_call(e, mod, self.cls)
            if inl is not None:
                r = self.expr(inl, env, mod)
                if r is not None:
                    return r
            if isinstance(e.func, ast.Name) and e.func.id.startswith('_'):
                lk = self.cx.idx.lookup(mod, e.func.id)
                if lk and lk[0] == 'func' and not e.keywords and len(e.args) == len(lk[1].params):
                    sub = {}
                    for p, a in zip(lk[1].params, e.args):
                        sub[p] = ast.parse(self._subst_text(a, env), mode='eval').body
                    return self.func(lk[1], sub)
            if isinstance(e.func, ast.Attribute) and isinstance(e.func.value, ast.Name) and e.func.value.id == 'self':
                m = self.cx.idx.find_method(self.cls, e.func.attr)
                if m is not None:
                    params = m.params[1:]
                    sub = {}
                    for p, a in zip(params, e.args):
                        sub[p] = ast.parse(self._subst_text(a, env), mode='eval').body
                    r = self.func(m, sub)
                    # attributes the callee writes are no longer known in the caller
                    for attr in self._written_attrs(m):
                        env.pop('self.' + attr, None)
                    return r
            if name == 'encode' and not e.args:
                return Seq([('RAW', self.u(e.func.value, env, mod) + '.encode()')])
            return None
        if isinstance(e, ast.Attribute):
            c = self.const(e, mod)
            if isinstance(c, bytes):
                return Seq([('C', c)])
            v = env.get(U(e))
            if isinstance(v, Seq):
                return Seq(v)
            return Seq([('RAW', self.u(e, env, mod))])
        if isinstance(e, ast.Subscript):
            return Seq([('RAW', self.u(e, env, mod))])
        return None

    def _written_attrs(self, fn, seen=None):
        seen = seen if seen is not None else set()
        if fn.qn in seen:
            return set()
        seen.add(fn.qn)
        out = set()
        for n in ast.walk(fn.node):
            tg = []
            if isinstance(n, ast.Assign):
                tg = n.targets
            elif isinstance(n, ast.AugAssign):
                tg = [n.target]
            for t in tg:
                for el in (t.elts if isinstance(t, ast.Tuple) else [t]):
                    if isinstance(el, ast.Attribute) and U(el.value) == 'self':
                        out.add(el.attr)
            if isinstance(n, ast.Call) and isinstance(n.func, ast.Attribute) and U(n.func.value) == 'self':
                m = self.cx.idx.find_method(self.cls, n.func.attr)
                if m is not None:
                    out |= self._written_attrs(m, seen)
        return out

    def _subst_text(self, e, env):
        from .sym import substitute
        return U(substitute(e, {k: v for k, v in env.items() if isinstance(v, ast.AST)}))

    def _store(self, env, name, value_node, mod):
        v = self.expr(value_node, env, mod)
        # n = n + f(x) with n a number so far (not a byte sequence) is arithmetic, whatever the right operand looks like
        arith = isinstance(value_node, ast.BinOp) and any(isinstance(o, ast.Name) and isinstance(env.get(o.id), ast.AST) and not isinstance(env.get(o.id), Seq)
                                                          and isinstance(env.get(o.id), (ast.Constant, ast.BinOp, ast.Call)) and not (
                                                              isinstance(env.get(o.id), ast.Constant) and isinstance(env.get(o.id).value, (bytes, str)))
                                                          for o in (value_node.left, value_node.right))
        if v is not None and not arith and not (len(v) == 1 and v[0][0] == 'RAW' and not isinstance(value_node, (ast.Call, ast.BinOp))):
            env[name] = v
        else:
            try:
                env[name] = ast.parse(self._subst_text(value_node, env), mode='eval').body
            except SyntaxError:
                env.pop(name, None)

    def block(self, stmts, env, mod, rets, guard=()):
        """returns True if every path through stmts returns"""
        for s in stmts:
            if isinstance(s, ast.Expr):
                c = s.value
                # a list of byte pieces: pieces.append(x) adds the whole piece
                if isinstance(c, ast.Call) and isinstance(c.func, ast.Attribute) and isinstance(c.func.value, ast.Name) \
                        and c.func.value.id in getattr(self, 'listacc', ()) and isinstance(env.get(c.func.value.id), Seq) and c.func.attr == 'append' and len(c.args) == 1:
                    v = self.expr(c.args[0], env, mod)
                    if v is None:
                        v = Seq([('RAW', self.u(c.args[0], env, mod))])
                    env[c.func.value.id] = Seq(env[c.func.value.id] + v)
                    continue
                # any other expression statement: attributes written by the self-methods it calls are unknown afterwards
                for n_ in ast.walk(c):
                    if isinstance(n_, ast.Call) and isinstance(n_.func, ast.Attribute) and isinstance(n_.func.value, ast.Name) and n_.func.value.id == 'self':
                        m_ = self.cx.idx.find_method(self.cls, n_.func.attr)
                        if m_ is not None:
                            for attr in self._written_attrs(m_):
                                env.pop('self.' + attr, None)
                # bytearray accumulation: packet.extend(x) / packet.append(x)
                if isinstance(c, ast.Call) and isinstance(c.func, ast.Attribute) and isinstance(c.func.value, ast.Name) \
                        and isinstance(env.get(c.func.value.id), Seq) and c.func.attr in ('extend', 'append') and len(c.args) == 1:
                    v = self.expr(c.args[0], env, mod)
                    if v is None:
                        v = Seq([('F', 'B', self.u(c.args[0], env, mod))]) if c.func.attr == 'append' else Seq([('RAW', self.u(c.args[0], env, mod))])
                    env[c.func.value.id] = Seq(env[c.func.value.id] + v)
                continue
            if isinstance(s, ast.Return):
                v = self.expr(s.value, env, mod) if s.value is not None else Seq()
                if v is None:
                    v = Seq([('RAW', self.u(s.value, env, mod))])
                rets.append((guard, v))
                return True
            if isinstance(s, ast.Assign) and len(s.targets) == 1:
                t = s.targets[0]
                if isinstance(t, ast.Name):
                    if isinstance(s.value, ast.Call) and U(s.value.func) in ('bytearray', 'bytes') and not s.value.args:
                        env[t.id] = Seq()
                    elif (isinstance(s.value, ast.List) and not s.value.elts) or (isinstance(s.value, ast.Call) and U(s.value.func) == 'list' and not s.value.args):
                        # an empty list that may collect byte pieces for a final b''.join(...)
                        if not hasattr(self, 'listacc'):
                            self.listacc = set()
                        self.listacc.add(t.id)
                        env[t.id] = Seq()
                    elif isinstance(s.value, ast.List) and s.value.elts and all(self.expr(x, env, mod) is not None and
                                                                                 not (len(self.expr(x, env, mod)) == 1 and self.expr(x, env, mod)[0][0] == 'RAW' and not isinstance(x, ast.Call))
                                                                                 for x in s.value.elts):
                        # a list that starts with some byte pieces (a header) and collects more with .append()
                        if not hasattr(self, 'listacc'):
                            self.listacc = set()
                        self.listacc.add(t.id)
                        acc = Seq()
                        for x in s.value.elts:
                            acc = Seq(acc + self.expr(x, env, mod))
                        env[t.id] = acc
                    else:
                        self._store(env, t.id, s.value, mod)
                elif isinstance(t, ast.Attribute) and U(t.value) == 'self':
                    try:
                        env[U(t)] = ast.parse(self._subst_text(s.value, env), mode='eval').body
                    except SyntaxError:
                        pass
                elif isinstance(t, ast.Tuple) and isinstance(s.value, ast.Tuple) and len(t.elts) == len(s.value.elts):
                    for a, b in zip(t.elts, s.value.elts):
                        if isinstance(a, ast.Name):
                            self._store(env, a.id, b, mod)
                continue
            if isinstance(s, ast.AugAssign):
                if isinstance(s.target, ast.Name) and isinstance(s.op, ast.Add) and isinstance(env.get(s.target.id), Seq):
                    v = self.expr(s.value, env, mod)
                    env[s.target.id] = Seq(env[s.target.id] + (v if v is not None else Seq([('RAW', self.u(s.value, env, mod))])))
                elif isinstance(s.target, ast.Name):
                    cur = env.get(s.target.id)
                    if isinstance(cur, ast.AST):
                        env[s.target.id] = ast.BinOp(left=cur, op=s.op, right=ast.parse(self._subst_text(s.value, env), mode='eval').body)
                    else:
                        env.pop(s.target.id, None)
                elif isinstance(s.target, ast.Attribute) and U(s.target.value) == 'self':
                    key = U(s.target)
                    cur = env.get(key, s.target)
                    env[key] = ast.BinOp(left=cur if isinstance(cur, ast.AST) else s.target, op=s.op,
                                         right=ast.parse(self._subst_text(s.value, env), mode='eval').body)
                continue
            if isinstance(s, ast.For):
                inner = {k: (Seq() if isinstance(v, Seq) else v) for k, v in env.items()}
                for n in ast.walk(s.target):
                    if isinstance(n, ast.Name):
                        inner.pop(n.id, None)
                self.block(s.body, inner, mod, rets, guard)
                for k, v in inner.items():
                    if isinstance(v, Seq) and v and isinstance(env.get(k), Seq):
                        env[k] = Seq(env[k] + [('REP', v, self.u(s.iter, env, mod), U(s.target))])
                # an integer accumulated over the loop:  n = c; for e in xs: n += f(e)   ==>   n = c + sum(f(e) for e in xs)
                if isinstance(s.target, ast.Name):
                    for k in list(env):
                        a0, a1 = env.get(k), inner.get(k)
                        if isinstance(a0, ast.AST) and isinstance(a1, ast.BinOp) and isinstance(a1.op, ast.Add) and ast.dump(a1.left) == ast.dump(a0) \
                                and not any(isinstance(x, ast.Name) and x.id == k for x in ast.walk(a1.right)):
                            gen = ast.GeneratorExp(elt=a1.right, generators=[ast.comprehension(target=ast.Name(id=s.target.id, ctx=ast.Store()), iter=s.iter, ifs=[], is_async=0)])
                            tot = ast.BinOp(left=a0, op=ast.Add(), right=ast.Call(func=ast.Name(id='sum', ctx=ast.Load()), args=[gen], keywords=[]))
                            ast.fix_missing_locations(tot)
                            env[k] = inner[k] = tot
                # attributes / locals changed inside the loop body are unknown afterwards
                for k in list(env):
                    if isinstance(env[k], ast.AST) and (k not in inner or not isinstance(inner[k], ast.AST) or ast.dump(inner[k]) != ast.dump(env[k])):
                        env.pop(k)
                continue
            if isinstance(s, ast.If):
                cond = self.u(s.test, env, mod)
                e1 = {k: (Seq(v) if isinstance(v, Seq) else v) for k, v in env.items()}
                e2 = {k: (Seq(v) if isinstance(v, Seq) else v) for k, v in env.items()}
                r1 = self.block(s.body, e1, mod, rets, guard + ((cond, True),))
                r2 = self.block(s.orelse, e2, mod, rets, guard + ((cond, False),))
                for k in set(e1) | set(e2):
                    a, b = e1.get(k), e2.get(k)
                    if isinstance(a, Seq) or isinstance(b, Seq):
                        if r1 and not r2:
                            env[k] = b
                        elif r2 and not r1:
                            env[k] = a
                        elif a == b:
                            env[k] = a
                        else:
                            base = env.get(k) if isinstance(env.get(k), Seq) else Seq()
                            n = len(base)
                            if isinstance(a, Seq) and isinstance(b, Seq) and a[:n] == base and b[:n] == base:
                                env[k] = Seq(base + [('ALT', cond, Seq(a[n:]), Seq(b[n:]))])
                            else:
                                # a name that is bytes-valued on one branch and an (unmodified) expression on the other
                                def as_seq(v, name):
                                    if isinstance(v, Seq):
                                        return v
                                    if isinstance(v, ast.AST):
                                        return Seq([('RAW', self.u(v, env, mod))])
                                    return Seq()
                                env[k] = Seq([('ALT', cond, as_seq(a, k), as_seq(b, k))])
                    else:
                        if r1 and not r2:
                            if b is not None:
                                env[k] = b
                            else:
                                env.pop(k, None)
                        elif r2 and not r1:
                            if a is not None:
                                env[k] = a
                            else:
                                env.pop(k, None)
                        elif isinstance(a, ast.AST) and isinstance(b, ast.AST) and ast.dump(a) != ast.dump(b):
                            env[k] = ast.IfExp(test=ast.parse(self._subst_text(s.test, env), mode='eval').body, body=a, orelse=b)
                        elif a is not None and b is not None:
                            env[k] = a
                        else:
                            env.pop(k, None)
                for k in list(env):
                    if k not in e1 and k not in e2:
                        env.pop(k)
                if r1 and r2:
                    return True
                continue
            if isinstance(s, ast.Try):
                self.block(s.body, env, mod, rets, guard)
                continue
        return False

    def func(self, fn, env=None):
        rets = []
        self.block(fn.node.body, dict(env or {}), fn.mod, rets)
        if not rets:
            return Seq([('OPQ', 'no return')])
        if len(rets) == 1:
            return rets[0][1]
        # several returns: nest as ALT on the first differing guard
        return self._merge(rets)

    def _merge(self, rets):
        if len(rets) == 1:
            return rets[0][1]
        g0 = rets[0][0]
        if not g0:
            return rets[0][1]
        cond = g0[0][0]
        t = [(g[1:], v) for g, v in rets if g and g[0] == (cond, True)]
        f = [(g, v) for g, v in rets if not (g and g[0] == (cond, True))]
        f = [((g[1:] if g and g[0] == (cond, False) else g), v) for g, v in f]
        return Seq([('ALT', cond, self._merge(t) if t else Seq(), self._merge(f) if f else Seq())])


# ----------------------------------------------------------------- normal form
def normalise(seq):
    """merge adjacent constants, drop empty items, canonicalise recursively"""
    out = Seq()
    for it in seq:
        if it[0] == 'C':
            if not it[1]:
                continue
            if out and out[-1][0] == 'C':
                out[-1] = ('C', out[-1][1] + it[1])
                continue
            out.append(it)
        elif it[0] == 'REP':
            out.append(('REP', normalise(it[1]), it[2], it[3]))
        elif it[0] == 'ALT':
            a, b = normalise(it[2]), normalise(it[3])
            cond_ = it[1]
            if isinstance(cond_, str) and cond_.startswith('not ') and '(' not in cond_[4:].split(' ')[0] and ' and ' not in cond_ and ' or ' not in cond_:
                # (not c ? A : B)  ==  (c ? B : A)
                cond_, a, b = cond_[4:], b, a
                it = ('ALT', cond_, a, b)
            if a == b:
                out.extend(a)
            elif len(a) == 1 and len(b) == 1 and a[0][0] == 'F' and b[0][0] == 'F' and a[0][1] == b[0][1]:
                # the same field packed with one of two values: a field whose value depends on the flag
                out.append(('F', a[0][1], 'ite(%s, %s, %s)' % (it[1], a[0][2], b[0][2])))
            elif len(a) == 1 and len(b) == 1 and a[0][0] == 'C' and b[0][0] == 'C' and len(a[0][1]) == len(b[0][1]) and len(a[0][1]) in (1, 2):
                # a constant selected by a flag is a field whose value depends on the flag
                n = len(a[0][1])
                out.append(('F', 'B' if n == 1 else '>H', 'ite(%s, %d, %d)' % (it[1], int.from_bytes(a[0][1], 'big'), int.from_bytes(b[0][1], 'big'))))
            else:
                # common prefix / suffix of the two branches is emitted unconditionally
                pre = 0
                while pre < len(a) and pre < len(b) and a[pre] == b[pre]:
                    pre += 1
                suf = 0
                while suf < len(a) - pre and suf < len(b) - pre and a[len(a) - 1 - suf] == b[len(b) - 1 - suf]:
                    suf += 1
                out.extend(a[:pre])
                ma, mb = Seq(a[pre:len(a) - suf]), Seq(b[pre:len(b) - suf])
                if ma or mb:
                    out.append(('ALT', it[1], ma, mb))
                out.extend(a[len(a) - suf:] if suf else [])
        elif it[0] == 'XF':
            out.append(('XF', it[1], normalise(it[2])))
        else:
            out.append(it)
    return out


def rename_rep(seq):
    """canonical element variable names in REP bodies ($e, or $e0,$e1 for tuple targets)"""
    out = Seq()
    for it in seq:
        if it[0] == 'REP':
            out.append(('REP', _rn(rename_rep(it[1]), it[3]), it[2], '$e'))
        elif it[0] == 'ALT':
            out.append(('ALT', it[1], rename_rep(it[2]), rename_rep(it[3])))
        elif it[0] == 'XF':
            out.append(('XF', it[1], rename_rep(it[2])))
        else:
            out.append(it)
    return out


def _rn(seq, var):
    import re
    vs = [x.strip() for x in var.strip('()').split(',')]

    def r(t):
        for i, v in enumerate(vs):
            t = re.sub(r'(?<![\w.$])' + re.escape(v) + r'(?![\w])', '$e' if len(vs) == 1 else '$e%d' % i, t)
        return t
    out = Seq()
    for b in seq:
        if b[0] in ('F', 'RAW', 'BITS'):
            out.append(b[:-1] + (r(b[-1]),))
        elif b[0] == 'ALT':
            out.append(('ALT', r(b[1]), _rn(b[2], var), _rn(b[3], var)))
        elif b[0] == 'REP':
            out.append(('REP', _rn(b[1], var), r(b[2]), b[3]))
        else:
            out.append(b)
    return out


def select(seq, choose):
    """resolve ALT items with `choose(cond) -> True/False/None`"""
    out = Seq()
    for it in seq:
        if it[0] == 'ALT':
            c = choose(it[1])
            if c is None and isinstance(it[1], str) and it[1].startswith('not '):
                c = choose(it[1][4:].strip())
                c = None if c is None else (not c)
            if c is True:
                out.extend(select(it[2], choose))
            elif c is False:
                out.extend(select(it[3], choose))
            else:
                out.append(('ALT', it[1], select(it[2], choose), select(it[3], choose)))
        elif it[0] == 'REP':
            out.append(('REP', select(it[1], choose), it[2], it[3]))
        elif it[0] == 'XF':
            out.append(('XF', it[1], select(it[2], choose)))
        else:
            out.append(it)
    return normalise(out)


def show(seq):
    parts = []
    for it in seq:
        if it[0] == 'F':
            parts.append('%s:%s' % (it[1], it[2]))
        elif it[0] == 'C':
            parts.append('const(%s)' % it[1].hex())
        elif it[0] == 'REP':
            parts.append('rep[%s for $e in %s]' % (show(it[1]), it[2]))
        elif it[0] == 'ALT':
            parts.append('(%s ? %s : %s)' % (it[1], show(it[2]), show(it[3])))
        elif it[0] == 'XF':
            parts.append('%s(%s)' % (it[1], show(it[2])))
        elif it[0] == 'TEXT':
            parts.append('text(%r %% %s)' % (it[1], ', '.join(it[2])))
        else:
            parts.append('%s(%s)' % (it[0].lower(), it[-1]))
    return ' '.join(parts)


def length(seq, nz):
    """Poly length in bytes of a layout (None if it cannot be expressed)"""
    total = Poly()
    for it in seq:
        if it[0] == 'F':
            if it[1].endswith('s'):
                total = total + Poly.const(int(it[1][:-1] or 1))
            else:
                total = total + Poly.const(fsize(it[1]))
        elif it[0] == 'C':
            total = total + Poly.const(len(it[1]))
        elif it[0] == 'RAW':
            total = total + Poly.atom('len(%s)' % it[1])
        elif it[0] == 'BITS':
            total = total + Poly.atom('ceil8(len(%s))' % it[1])
        elif it[0] == 'REP':
            inner = length(it[1], nz)
            if inner is None:
                return None
            if inner.is_const():
                total = total + Poly.atom('len(%s)' % it[2]) * inner
            else:
                total = total + Poly.atom('sum(%s for $e in %s)' % (inner, it[2]))
        elif it[0] == 'ALT':
            a, b = length(it[2], nz), length(it[3], nz)
            if a is None or b is None or a != b:
                return None
            total = total + a
        elif it[0] == 'XF' and it[1] == 'hex':
            inner = length(it[2], nz)
            if inner is None:
                return None
            total = total + inner * Poly.const(2)
        elif it[0] == 'XF' and it[1] == 'upper':
            inner = length(it[2], nz)
            if inner is None:
                return None
            total = total + inner
        elif it[0] == 'TEXT':
            import re
            n = 0
            fmt = it[1]
            for m in re.finditer(r'%0(\d+)[xXd]|%%|.', fmt):
                n += int(m.group(1)) if m.group(1) else 1
            total = total + Poly.const(n)
        else:
            return None
    return total
