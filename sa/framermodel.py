"""Interprocedural path summaries of framer.processIncomingPacket
(shared by C06, C07, C11, C13)."""
import ast

from .common import Ctx, U, annotate, constraints, callee_name, AnalysisError, SelfResolver, _UNKNOWN
from .sym import Poly, NotInt

FRAMER_CLASSES = {
    'tcp': 'pymodbus.framer.socket_framer.ModbusSocketFramer',
    'rtu': 'pymodbus.framer.rtu_framer.ModbusRtuFramer',
    'ascii': 'pymodbus.framer.ascii_framer.ModbusAsciiFramer',
    'binary': 'pymodbus.framer.binary_framer.ModbusBinaryFramer',
    'tls': 'pymodbus.framer.tls_framer.ModbusTlsFramer',
}
INTEGRITY_FUNCS = ('checkCRC', 'checkLRC')
BUF = 'self._buffer'


def framer_may_raise(node, frame, path):
    """frozen may-raise table for framer code (reasons):
    calculateRtuFrameSize -> IndexError  (rtuFrameSize / custom size functions index the buffer at a fixed position)
    int(x, 16), a2b_hex(x) -> ValueError (non-hex characters; binascii.Error is a ValueError)
    """
    if isinstance(node, ast.Call):
        n = callee_name(node)
        if n == 'calculateRtuFrameSize':
            return ['IndexError']
        if n == 'int' and len(node.args) == 2:
            return ['ValueError']
        if n == 'a2b_hex':
            return ['ValueError']
    return []


class FPath:
    def __init__(self):
        self.path = None
        self.deliveries = []     # event indices
        self.shrinks = []        # (index, kind) kind: 'clear' | 'slice'
        self.absences = []       # (index, text)
        self.integrity = []      # (index, kind, polarity, sub)
        self.truths = {}         # callee name -> list of (index, truth)
        self.loops = []          # (index, kind, node) root-frame loop marks
        self.raised = None
        self.exit = None
        self.unit_reject = None  # index where _validate_unit_id returned False

    def first(self, lst):
        return lst[0] if lst else None


def _is_buf(node):
    return isinstance(node, ast.Attribute) and U(node) == BUF


def shrink_kind(stmt, target=None, sub=None):
    """Assign to self._buffer of b'' or a slice of self._buffer (`sub`: the assigned value with locals substituted,
    so that a local alias of the buffer counts as the buffer)"""
    if not isinstance(stmt, ast.Assign):
        return None
    if target is not None:
        if not _is_buf(target):
            return None
    elif not any(_is_buf(t) for t in stmt.targets):
        return None
    v = sub if sub is not None else stmt.value
    if isinstance(v, ast.Constant) and v.value in (b'', ''):
        return 'clear'
    if isinstance(v, ast.Subscript) and _is_buf(v.value) and isinstance(v.slice, ast.Slice):
        return 'slice'
    if isinstance(v, ast.Call) and callee_name(v) in ('bytes', 'bytearray') and not v.args:
        return 'clear'
    return 'other'


def absence_of(sub, polarity, nz):
    """is this branch outcome a *data-absence* outcome (not enough bytes / delimiter not yet seen)?"""
    try:
        cs = constraints(sub, polarity, nz)
    except Exception:
        return None
    for c in cs:
        if c[0] == 'ge':
            p = c[1]
            for k, v in p.t.items():
                if k == ('len(%s)' % BUF,) and v < 0:
                    return ('len', 'len(buffer) too small: %s >= 0' % p)
                # truthiness of len(buffer) being zero
        if c[0] == 'eq':
            p = c[1]
            for k in p.t:
                if len(k) == 1 and '.find(' in k[0] and k[0].startswith(BUF) and p.t.get((), 0) == p.t[k]:
                    return ('delimiter', 'delimiter not found: %s == -1' % k[0])
        if c[0] == 'atom' and c[1] == 'len(%s)' % BUF and c[2] is False:
            return ('empty', 'buffer empty')
        if c[0] == 'atom' and c[1] == BUF and c[2] is False:
            return ('empty', 'buffer empty')
    return None


def framer_paths(cx, kind, may_raise=None, consts=None, default_kwargs=False):
    cls = cx.idx.cls(FRAMER_CLASSES[kind])
    f = cx.method(cls, 'processIncomingPacket')
    cbname = f.params[2]
    res = SelfResolver(cx.idx, stop=lambda fn: fn.name in INTEGRITY_FUNCS or fn.mod.name == 'pymodbus.utilities')
    nz = cx.nz(f.mod, cls)
    out = []
    for p in cx.enum(f, cls, resolver=res, may_raise=may_raise or framer_may_raise, max_depth=4, consts=consts, default_kwargs=default_kwargs):
        annotate(p, heap=False)
        if contradictory(p):
            continue
        fp = FPath()
        fp.path, fp.exit = p, p.exit
        nfind = 0
        parents = {}
        for i, ev in enumerate(p.ev):
            k = ev.kind
            if k == 'enter' and ev.a is not None and not isinstance(ev.a, (str, bool)):
                parents[id(ev.frame)] = ev.a
            if k == 'call':
                sub = ev._sub
                if isinstance(sub.func, ast.Name) and sub.func.id == cbname:
                    fp.deliveries.append(i)
            elif k == 'assign':
                sub_ = getattr(ev, '_sub', None)
                pairs = [(ev.a, sub_)]
                if isinstance(ev.a, (ast.Tuple, ast.List)) and isinstance(sub_, (ast.Tuple, ast.List)) and len(ev.a.elts) == len(sub_.elts):
                    pairs = list(zip(ev.a.elts, sub_.elts))       # a, self._buffer = x, self._buffer[n:]
                for tgt_, val_ in pairs:
                    sk = shrink_kind(ev.node, tgt_, val_)
                    if sk in ('clear', 'slice'):
                        fp.shrinks.append((i, sk))
            elif k == 'cond':
                sub = ev._sub
                inner = sub
                if isinstance(inner, ast.Call) and callee_name(inner) in INTEGRITY_FUNCS:
                    fp.integrity.append((i, callee_name(inner), ev.a, inner))
                else:
                    a = absence_of(sub, ev.a, nz)
                    is_find = '.find(' in U(sub) and U(sub).startswith(BUF)
                    if a:
                        if a[0] == 'delimiter':
                            # the first delimiter searched on a path is the start delimiter, a later one the end
                            a = ('delimiter-start' if nfind == 0 else 'delimiter-end', a[1])
                        fp.absences.append((i, a))
                    if is_find:
                        nfind += 1
            elif k == 'truth':
                fp.truths.setdefault(callee_name(ev.node), []).append((i, ev.a))
                if callee_name(ev.node) == '_validate_unit_id' and ev.a is False:
                    fp.unit_reject = i
            elif k == 'loop' and ev.frame.fid == 0:
                fp.loops.append((i, ev.a, ev.node))
            elif k == 'raise':
                # named after the nearest enclosing method that is not a private helper (a raise moved into `_helper` is the same raise)
                fr_ = ev.frame
                while fr_ is not None and getattr(fr_, 'func', None) is not None and fr_.func.name.startswith('_') and not fr_.func.name.startswith('__') and id(fr_) in parents:
                    fr_ = parents[id(fr_)]
                fp.raised = (i, ev.a, U(ev.node)[:60], (fr_ or ev.frame).qn)
        out.append(fp)
    return cls, f, out


def in_root_loop(fp, index):
    depth = 0
    for i, kind, node in fp.loops:
        if i > index:
            break
        if kind == 'enter':
            depth += 1
        elif kind in ('break', 'backedge'):
            depth -= 1
    return depth > 0


def contradictory(p):
    """a path that takes both outcomes of the same condition without an intervening write to
    the framer state it reads is infeasible (e.g. isFrameReady() evaluated twice)"""
    version = 0
    seen = {}
    have, exact = set(), False       # keys definitely present in self._header / the key set is known exactly
    for ev in p.ev:
        if ev.kind in ('assign', 'aug'):
            t = ev.node.targets[0] if ev.kind == 'assign' and hasattr(ev.node, 'targets') else getattr(ev.node, 'target', None)
            txt = U(t) if t is not None else ''
            if txt.startswith('self._buffer') or txt.startswith('self._header'):
                version += 1
            if ev.kind == 'assign':
                tg = getattr(ev, '_subt', None)
                tg = tg if isinstance(tg, ast.AST) else ev.a
                for el in (tg.elts if isinstance(tg, (ast.Tuple, ast.List)) else [tg]):
                    if isinstance(el, ast.Subscript) and U(el.value) == 'self._header' and isinstance(el.slice, ast.Constant):
                        have.add(el.slice.value)
                    elif isinstance(el, ast.Attribute) and U(el) == 'self._header':
                        v = getattr(ev, '_sub', None)
                        if isinstance(v, ast.Dict) and all(isinstance(x, ast.Constant) for x in v.keys):
                            have, exact = {x.value for x in v.keys}, True
                        else:
                            have, exact = set(), False
        elif ev.kind in ('call', 'del') and 'self._header' in U(ev.node) and not U(ev.node).startswith(('_logger', 'logging')):
            f_ = getattr(ev.node, 'func', None)
            if ev.kind == 'del' or (isinstance(f_, ast.Attribute) and U(f_.value) == 'self._header' and f_.attr in ('pop', 'clear', 'update', 'popitem', 'setdefault')):
                have, exact = set(), False
        elif ev.kind == 'cond':
            t_ = ev._sub
            if isinstance(t_, ast.Compare) and len(t_.ops) == 1 and isinstance(t_.ops[0], (ast.In, ast.NotIn)) and isinstance(t_.left, ast.Constant) \
                    and U(t_.comparators[0]) == 'self._header':
                present = (ev.a is True) == isinstance(t_.ops[0], ast.In)
                if (t_.left.value in have and not present) or (exact and t_.left.value not in have and present):
                    return True
            txt = U(ev._sub)
            if 'self.' not in txt:
                continue
            key = (txt, version)
            if key in seen and seen[key] != ev.a:
                return True
            seen[key] = ev.a
    return False


def instance_constants(cx, cls):
    """attributes assigned exactly once in the class (in __init__) with a constant value"""
    count, val = {}, {}
    for k in cx.idx.mro(cls):
        for fn in k.methods.values():
            for n in ast.walk(fn.node):
                tg = []
                if isinstance(n, ast.Assign):
                    tg = n.targets
                elif isinstance(n, ast.AugAssign):
                    tg = [n.target]
                for t in tg:
                    for el in (t.elts if isinstance(t, ast.Tuple) else [t]):
                        if isinstance(el, ast.Attribute) and U(el.value) == 'self':
                            count[el.attr] = count.get(el.attr, 0) + 1
                            if isinstance(n, ast.Assign) and fn.name == '__init__' and k is cx.idx.find_method(cls, '__init__').cls:
                                v = cx.ce.try_ev(n.value, fn.mod, k, default=None)
                                if v is not None and not isinstance(v, (list, dict, set)):
                                    val[el.attr] = v
        break_at = None
    return {'self.' + a: v for a, v in val.items() if count.get(a) == 1}
