"""L5: affine / polynomial normaliser for integer-valued expressions.

An expression is normalised to a polynomial over opaque *atoms* (canonical
strings such as `self.count`, `len(self.values)`, `ceil8(self.count)`).  Two
expressions are considered equal iff their normal forms are identical — this
is a syntactic-modulo-arithmetic comparison, never a solver query.
"""
import ast
from .loader import clone


class Poly:
    __slots__ = ('t',)

    def __init__(self, t=None):
        self.t = {k: v for k, v in (t or {}).items() if v != 0}
        # floor_c(X) + [X % c != 0]  ==  ceil_c(X)
        for k in [k for k in self.t if len(k) == 1 and k[0].startswith('nzmod')]:
            a = k[0]
            c, x = a[5:a.index('(')], a[a.index('(') + 1:-1]
            fk = ('floor%s(%s)' % (c, x),)
            if self.t.get(fk) == self.t.get(k) and k in self.t:
                v = self.t.pop(k)
                del self.t[fk]
                ck_ = ('ceil%s(%s)' % (c, x),)
                self.t[ck_] = self.t.get(ck_, 0) + v
                if self.t[ck_] == 0:
                    del self.t[ck_]

    @staticmethod
    def const(c):
        return Poly({(): c})

    @staticmethod
    def atom(a):
        return Poly({(a,): 1})

    def __add__(self, o):
        t = dict(self.t)
        for k, v in o.t.items():
            t[k] = t.get(k, 0) + v
        return Poly(t)

    def __neg__(self):
        return Poly({k: -v for k, v in self.t.items()})

    def __sub__(self, o):
        return self + (-o)

    def __mul__(self, o):
        t = {}
        for k1, v1 in self.t.items():
            for k2, v2 in o.t.items():
                k = tuple(sorted(k1 + k2))
                t[k] = t.get(k, 0) + v1 * v2
        return Poly(t)

    def is_const(self):
        return all(k == () for k in self.t)

    def const_value(self):
        if not self.is_const():
            return None
        return self.t.get((), 0)

    def divisible(self, c):
        return c != 0 and all(v % c == 0 for v in self.t.values())

    def div_exact(self, c):
        return Poly({k: v // c for k, v in self.t.items()})

    def atoms(self):
        s = set()
        for k in self.t:
            s.update(k)
        return s

    def subst(self, mapping):
        """replace atoms by polynomials"""
        out = Poly()
        for k, v in self.t.items():
            term = Poly.const(v)
            for a in k:
                term = term * (mapping[a] if a in mapping else Poly.atom(a))
            out = out + term
        return out

    def __eq__(self, o):
        return isinstance(o, Poly) and self.t == o.t

    def __hash__(self):
        return hash(frozenset(self.t.items()))

    def __str__(self):
        if not self.t:
            return '0'
        parts = []
        for k in sorted(self.t, key=lambda k: (len(k), k)):
            v = self.t[k]
            if k == ():
                parts.append(str(v))
            else:
                m = '*'.join(k)
                parts.append(m if v == 1 else '%d*%s' % (v, m))
        return ' + '.join(parts)

    __repr__ = __str__


def substitute(e, env):
    """Replace Names bound in env (name -> ast expr) — returns a new tree."""
    class T(ast.NodeTransformer):
        def visit_Name(self, n):
            v = env.get(n.id)
            if isinstance(v, ast.AST):
                return clone(v)
            return n
    return T().visit(clone(e))


class Normaliser:
    """env maps local names / 'self.attr' strings to ast expressions or Poly."""

    def __init__(self, consteval=None, mod=None, cls=None):
        self.ce, self.mod, self.cls = consteval, mod, cls

    def canon(self, e, env=None):
        """canonical string of an arbitrary expression (after substitution)."""
        env = env or {}
        if isinstance(e, ast.Name):
            v = env.get(e.id)
            if isinstance(v, Poly):
                return str(v)
            if isinstance(v, ast.AST):
                return self.canon(v, {})
            if isinstance(v, str):
                return v
            return e.id
        if isinstance(e, ast.Attribute):
            key = ast.unparse(e)
            v = env.get(key)
            if isinstance(v, Poly):
                return str(v)
            if isinstance(v, ast.AST):
                return self.canon(v, {})
            return '%s.%s' % (self.canon(e.value, env), e.attr)
        if isinstance(e, ast.Constant):
            return repr(e.value)
        if isinstance(e, (ast.BinOp, ast.UnaryOp)) or (
                isinstance(e, ast.Call) and isinstance(e.func, ast.Name) and e.func.id == 'len'):
            try:
                return str(self.norm(e, env))
            except NotInt:
                pass
        if isinstance(e, ast.Call):
            return '%s(%s)' % (self.canon(e.func, env), ', '.join(
                [self.canon(a, env) for a in e.args] +
                ['%s=%s' % (k.arg, self.canon(k.value, env)) for k in e.keywords]))
        if isinstance(e, ast.Subscript):
            if isinstance(e.slice, ast.Slice):
                lo = self.canon(e.slice.lower, env) if e.slice.lower else ''
                hi = self.canon(e.slice.upper, env) if e.slice.upper else ''
                st = (':' + self.canon(e.slice.step, env)) if e.slice.step else ''
                return '%s[%s:%s%s]' % (self.canon(e.value, env), lo, hi, st)
            return '%s[%s]' % (self.canon(e.value, env), self.canon(e.slice, env))
        if isinstance(e, (ast.Tuple, ast.List)):
            return '[%s]' % ', '.join(self.canon(x, env) for x in e.elts)
        if isinstance(e, ast.Compare):
            return self.canon_cond(e, env)
        if isinstance(e, ast.BoolOp):
            j = ' and ' if isinstance(e.op, ast.And) else ' or '
            return '(' + j.join(self.canon(v, env) for v in e.values) + ')'
        if isinstance(e, ast.UnaryOp) and isinstance(e.op, ast.Not):
            return 'not ' + self.canon(e.operand, env)
        if isinstance(e, ast.IfExp):
            return 'ite(%s, %s, %s)' % (self.canon(e.test, env), self.canon(e.body, env), self.canon(e.orelse, env))
        return ast.unparse(substitute(e, {k: v for k, v in env.items() if isinstance(v, ast.AST) and '.' not in k}))

    def canon_cond(self, e, env):
        parts = []
        left = e.left
        for o, c in zip(e.ops, e.comparators):
            parts.append('%s %s %s' % (self.canon(left, env), _OPS.get(type(o), '?'), self.canon(c, env)))
            left = c
        return ' and '.join(parts)

    # -------------------------------------------------------------- integers
    @staticmethod
    def _undivmod(e):
        """divmod(a, b)[0] -> a // b ; divmod(a, b)[1] -> a % b"""
        if isinstance(e, ast.Subscript) and isinstance(e.value, ast.Call) and isinstance(e.value.func, ast.Name) and e.value.func.id == 'divmod' \
                and len(e.value.args) == 2 and isinstance(e.slice, ast.Constant) and e.slice.value in (0, 1):
            a, b = e.value.args
            return ast.BinOp(left=a, op=ast.FloorDiv() if e.slice.value == 0 else ast.Mod(), right=b)
        return e

    def norm(self, e, env=None):
        env = env or {}
        if isinstance(e, Poly):
            return e
        e = self._undivmod(e)
        if isinstance(e, ast.Constant):
            if isinstance(e.value, bool) or not isinstance(e.value, int):
                raise NotInt(repr(e.value))
            return Poly.const(e.value)
        if isinstance(e, ast.Name):
            v = env.get(e.id)
            if isinstance(v, Poly):
                return v
            if isinstance(v, ast.AST):
                return self.norm(v, {k: w for k, w in env.items() if '.' in k})
            if isinstance(v, str):
                return Poly.atom(v)
            c = self._const(e)
            if c is not None:
                return Poly.const(c)
            return Poly.atom(e.id)
        if isinstance(e, ast.Attribute):
            key = ast.unparse(e)
            v = env.get(key)
            if isinstance(v, Poly):
                return v
            if isinstance(v, ast.AST):
                return self.norm(v, {k: w for k, w in env.items() if k != key})
            c = self._const(e)
            if c is not None:
                return Poly.const(c)
            return Poly.atom(self.canon(e, env))
        if isinstance(e, ast.UnaryOp):
            if isinstance(e.op, ast.USub):
                return -self.norm(e.operand, env)
            if isinstance(e.op, ast.UAdd):
                return self.norm(e.operand, env)
            raise NotInt(ast.unparse(e))
        if isinstance(e, ast.BinOp):
            if isinstance(e.op, ast.Add):
                return self.norm(e.left, env) + self.norm(e.right, env)
            if isinstance(e.op, ast.Sub):
                return self.norm(e.left, env) - self.norm(e.right, env)
            if isinstance(e.op, ast.Mult):
                return self.norm(e.left, env) * self.norm(e.right, env)
            if isinstance(e.op, ast.LShift):
                r = self.norm(e.right, env).const_value()
                if r is not None and 0 <= r < 64:
                    return self.norm(e.left, env) * Poly.const(1 << r)
            if isinstance(e.op, ast.RShift):
                r = self.norm(e.right, env).const_value()
                if r is not None and 0 <= r < 64:
                    return self._floordiv(self.norm(e.left, env), 1 << r)
            if isinstance(e.op, ast.FloorDiv):
                r = self.norm(e.right, env).const_value()
                if r is not None and r > 0:
                    return self._floordiv(self.norm(e.left, env), r)
            if isinstance(e.op, ast.Div):
                r = self.norm(e.right, env).const_value()
                l = self.norm(e.left, env)
                if r and l.divisible(r):
                    return l.div_exact(r)
            if isinstance(e.op, ast.Mod):
                r = self.norm(e.right, env).const_value()
                l = self.norm(e.left, env)
                if r is not None and r > 0:
                    if l.is_const():
                        return Poly.const(l.const_value() % r)
                    if l.divisible(r):
                        return Poly.const(0)
                    return Poly.atom('mod(%s, %d)' % (l, r))
            if isinstance(e.op, (ast.BitAnd, ast.BitOr, ast.BitXor)):
                l, r = self.norm(e.left, env), self.norm(e.right, env)
                if l.is_const() and r.is_const():
                    import operator
                    f = {ast.BitAnd: operator.and_, ast.BitOr: operator.or_, ast.BitXor: operator.xor}[type(e.op)]
                    return Poly.const(f(l.const_value(), r.const_value()))
                sym = {ast.BitAnd: 'and', ast.BitOr: 'or', ast.BitXor: 'xor'}[type(e.op)]
                a, b = sorted([str(l), str(r)])
                return Poly.atom('%s(%s, %s)' % (sym, a, b))
            raise NotInt(ast.unparse(e))
        if isinstance(e, ast.Call):
            if ast.unparse(e.func) in ('struct.calcsize', 'calcsize') and len(e.args) == 1 and not e.keywords:
                c = self._const(e)
                if c is not None:
                    return Poly.const(c)        # the size of a constant struct format is a constant
            inl = getattr(self, 'inliner', None)
            if inl is not None:
                r = inl(e, self.mod, self.cls)
                if r is not None:
                    return self.norm(r, env)
            if isinstance(e.func, ast.Name) and e.func.id == 'len' and len(e.args) == 1:
                return Poly.atom('len(%s)' % self.canon(e.args[0], env))
            if isinstance(e.func, ast.Name) and e.func.id in ('int', 'byte2int') and len(e.args) == 1:
                try:
                    return self.norm(e.args[0], env)
                except NotInt:
                    pass
            if isinstance(e.func, ast.Name) and e.func.id == 'sum' and len(e.args) == 1 and \
                    isinstance(e.args[0], (ast.GeneratorExp, ast.ListComp)) and len(e.args[0].generators) == 1 and \
                    isinstance(e.args[0].generators[0].target, ast.Name) and not e.args[0].generators[0].ifs:
                g = e.args[0].generators[0]
                env2 = dict(env)
                env2[g.target.id] = ast.Name(id='_e', ctx=ast.Load())
                try:
                    inner = self.norm(e.args[0].elt, env2)
                    return Poly.atom('sum(%s for _e in %s)' % (inner, self.canon(g.iter, env)))
                except NotInt:
                    pass
            return Poly.atom(self.canon(e, env))
        if isinstance(e, ast.IfExp):
            a, b = self.norm(e.body, env), self.norm(e.orelse, env)
            if a == b:
                return a
            c = self._ceil_ite(e.test, a, b, env)
            if c is not None:
                return c
            return Poly.atom('ite(%s, %s, %s)' % (self.canon(e.test, env), a, b))
        if isinstance(e, ast.Subscript):
            return Poly.atom(self.canon(e, env))
        raise NotInt(type(e).__name__)

    def _const(self, e):
        if self.ce is None or self.mod is None:
            return None
        v = self.ce.try_ev(e, self.mod, self.cls)
        if isinstance(v, int) and not isinstance(v, bool):
            return v
        return None

    def _floordiv(self, p, c):
        if c == 1:
            return p
        if p.is_const():
            return Poly.const(p.const_value() // c)
        if p.divisible(c):
            return p.div_exact(c)
        # (x + c-1)//c  ==> ceil_c(x) when x's coefficients... keep it simple: constant term c-1
        k = p.t.get((), 0)
        rest = Poly({m: v for m, v in p.t.items() if m != ()})
        if rest.t and all(v < 0 for v in rest.t.values()):
            # floor((-y + k)/c) = -ceil((y - k)/c) = -floor((y - k + c - 1)/c)
            return -self._floordiv(-p + Poly.const(c - 1), c)
        if k == c - 1:
            return Poly.atom('ceil%d(%s)' % (c, rest))
        if k == 0:
            return Poly.atom('floor%d(%s)' % (c, rest))
        # split off multiples of c from the constant
        q, r = divmod(k, c)
        if q:
            return self._floordiv(rest + Poly.const(r), c) + Poly.const(q)
        return Poly.atom('floor%d(%s)' % (c, p))

    def _ceil_ite(self, test, a, b, env):
        """`x//c + 1 if x % c else x//c`  ==> ceil_c(x)"""
        test = self._undivmod(test)
        try:
            if isinstance(test, ast.Compare) and len(test.ops) == 1:
                # x % c != 0   /  x % c > 0   /  x % c == 0 (swapped)
                l = test.left
                rv = self.norm(test.comparators[0], env).const_value()
                if isinstance(l, ast.BinOp) and isinstance(l.op, ast.Mod) and rv == 0:
                    if isinstance(test.ops[0], (ast.NotEq, ast.Gt)):
                        return self._ceil_ite(l, a, b, env)
                    if isinstance(test.ops[0], ast.Eq):
                        return self._ceil_ite(l, b, a, env)
                return None
            if isinstance(test, ast.UnaryOp) and isinstance(test.op, ast.Not):
                return self._ceil_ite(test.operand, b, a, env)
            if isinstance(test, ast.BinOp) and isinstance(test.op, ast.Mod):
                c = self.norm(test.right, env).const_value()
                x = self.norm(test.left, env)
                if c and (a - b) == Poly.const(1):
                    k = (b - self._floordiv(x, c))
                    if k.is_const():
                        return Poly.atom('ceil%d(%s)' % (c, x)) + k
                    # [x % c != 0] as a 0/1 term: fused with floor_c(x) into ceil_c(x) by _fuse
                    return Poly.atom('nzmod%d(%s)' % (c, x)) + b
        except NotInt:
            return None
        return None


class NotInt(Exception):
    pass


_OPS = {ast.Eq: '==', ast.NotEq: '!=', ast.Lt: '<', ast.LtE: '<=', ast.Gt: '>', ast.GtE: '>=',
        ast.In: 'in', ast.NotIn: 'not in', ast.Is: 'is', ast.IsNot: 'is not'}


# ---------------------------------------------------------------- intervals
def interval_of_guard(test, nz, env=None):
    """Normalise a *rejecting* guard (the condition under which the request is
    refused) into {symbol: (lo, hi)} meaning: accepted iff lo <= symbol <= hi.
    Recognised shapes: `not (lo <= x <= hi)`, `x < lo or x > hi`,
    `not lo <= x <= hi`, `x > hi or x < lo`, `not (x >= lo and x <= hi)`.
    Returns None when the test is not an interval guard."""
    acc = accept_interval(ast.UnaryOp(op=ast.Not(), operand=test), nz, env)
    return acc


def accept_interval(test, nz, env=None):
    """interval under which `test` is TRUE: returns (symbol_str, lo, hi) or None"""
    env = env or {}
    if isinstance(test, ast.UnaryOp) and isinstance(test.op, ast.Not):
        inner = test.operand
        if isinstance(inner, ast.UnaryOp) and isinstance(inner.op, ast.Not):
            return accept_interval(inner.operand, nz, env)
        # not (A or B) = not A and not B
        if isinstance(inner, ast.BoolOp) and isinstance(inner.op, ast.Or):
            parts = [accept_interval(ast.UnaryOp(op=ast.Not(), operand=v), nz, env) for v in inner.values]
            return _intersect(parts)
        if isinstance(inner, ast.Compare) and len(inner.ops) == 1:
            neg = {ast.Lt: ast.GtE, ast.LtE: ast.Gt, ast.Gt: ast.LtE, ast.GtE: ast.Lt}
            o = type(inner.ops[0])
            if o in neg:
                return accept_interval(ast.Compare(left=inner.left, ops=[neg[o]()], comparators=inner.comparators), nz, env)
        return None
    if isinstance(test, ast.BoolOp) and isinstance(test.op, ast.And):
        return _intersect([accept_interval(v, nz, env) for v in test.values])
    if isinstance(test, ast.Compare):
        parts = []
        left = test.left
        for o, c in zip(test.ops, test.comparators):
            parts.append(_one_cmp(left, o, c, nz, env))
            left = c
        return _intersect(parts)
    return None


def _one_cmp(l, o, r, nz, env):
    try:
        pl, pr = nz.norm(l, env), nz.norm(r, env)
    except NotInt:
        return None
    INF = None
    if pl.is_const() and not pr.is_const():
        c, sym = pl.const_value(), str(pr)
        if isinstance(o, ast.LtE):
            return (sym, c, INF)
        if isinstance(o, ast.Lt):
            return (sym, c + 1, INF)
        if isinstance(o, ast.GtE):
            return (sym, INF, c)
        if isinstance(o, ast.Gt):
            return (sym, INF, c - 1)
        if isinstance(o, ast.Eq):
            return (sym, c, c)
    if pr.is_const() and not pl.is_const():
        c, sym = pr.const_value(), str(pl)
        if isinstance(o, ast.LtE):
            return (sym, INF, c)
        if isinstance(o, ast.Lt):
            return (sym, INF, c - 1)
        if isinstance(o, ast.GtE):
            return (sym, c, INF)
        if isinstance(o, ast.Gt):
            return (sym, c + 1, INF)
        if isinstance(o, ast.Eq):
            return (sym, c, c)
    return None


def _intersect(parts):
    if not parts or any(p is None for p in parts):
        return None
    sym = parts[0][0]
    lo, hi = None, None
    for s, a, b in parts:
        if s != sym:
            return None
        if a is not None:
            lo = a if lo is None else max(lo, a)
        if b is not None:
            hi = b if hi is None else min(hi, b)
    return (sym, lo, hi)


# -------------------------------------------------------------- constraints
def _sign_canon(p):
    if not p.t:
        return p
    first = sorted(p.t, key=lambda k: (len(k), k))[-1]
    return p if p.t[first] > 0 else -p


def constraints(expr, polarity, nz, env=None):
    """Conjunction of normalised constraints implied by `expr` having truth
    value `polarity`.  Items: ('ge', Poly) [Poly >= 0], ('eq', Poly), ('ne', Poly),
    ('atom', text, polarity), ('or', text) for disjunctions that are kept opaque."""
    env = env or {}
    if isinstance(expr, ast.UnaryOp) and isinstance(expr.op, ast.Not):
        return constraints(expr.operand, not polarity, nz, env)
    if isinstance(expr, ast.BoolOp):
        conj = isinstance(expr.op, ast.And)
        if conj == polarity:
            out = []
            for v in expr.values:
                out += constraints(v, polarity, nz, env)
            return out
        return [('or', ('' if polarity else 'not ') + nz.canon(expr, env))]
    if isinstance(expr, ast.BinOp) and isinstance(expr.op, ast.BitAnd) and polarity:
        return constraints(expr.left, True, nz, env) + constraints(expr.right, True, nz, env)
    if isinstance(expr, ast.Compare):
        pairs = []
        left = expr.left
        for o, c in zip(expr.ops, expr.comparators):
            pairs.append((left, o, c))
            left = c
        if not polarity and len(pairs) > 1:
            return [('or', 'not ' + nz.canon(expr, env))]
        out = []
        for l, o, r in pairs:
            # x in range(a, b) [step 1]  ==  a <= x <= b - 1 (for the integer x these rules speak about)
            if isinstance(o, (ast.In, ast.NotIn)) and isinstance(r, ast.Call) and isinstance(r.func, ast.Name) and r.func.id == 'range' \
                    and 1 <= len(r.args) <= 2 and not r.keywords:
                member = isinstance(o, ast.In) == polarity
                lo_ = r.args[0] if len(r.args) == 2 else ast.Constant(value=0)
                hi_ = r.args[-1]
                if member:
                    out.append(_cmp_constraint(lo_, ast.LtE(), l, True, nz, env))
                    out.append(_cmp_constraint(l, ast.Lt(), hi_, True, nz, env))
                else:
                    out.append(('or', 'not ' + nz.canon(ast.Compare(left=l, ops=[ast.In()], comparators=[r]), env)))
                continue
            out.append(_cmp_constraint(l, o, r, polarity, nz, env))
        return out
    if isinstance(expr, ast.Constant):
        return [] if bool(expr.value) == polarity else [('false', '')]
    return [('atom', nz.canon(expr, env), polarity)]


def _cmp_constraint(l, o, r, polarity, nz, env):
    neg = {ast.Lt: ast.GtE, ast.LtE: ast.Gt, ast.Gt: ast.LtE, ast.GtE: ast.Lt, ast.Eq: ast.NotEq, ast.NotEq: ast.Eq,
           ast.In: ast.NotIn, ast.NotIn: ast.In, ast.Is: ast.IsNot, ast.IsNot: ast.Is}
    ot = type(o)
    if not polarity:
        ot = neg.get(ot, ot)
    try:
        a, b = nz.norm(l, env), nz.norm(r, env)
    except NotInt:
        return ('atom', '%s %s %s' % (nz.canon(l, env), _OPS.get(ot, '?'), nz.canon(r, env)), True)
    if ot is ast.LtE:
        return ('ge', b - a)
    if ot is ast.Lt:
        return ('ge', b - a - Poly.const(1))
    if ot is ast.GtE:
        return ('ge', a - b)
    if ot is ast.Gt:
        return ('ge', a - b - Poly.const(1))
    if ot is ast.Eq:
        return ('eq', _sign_canon(a - b))
    if ot is ast.NotEq:
        return ('ne', _sign_canon(a - b))
    return ('atom', '%s %s %s' % (nz.canon(l, env), _OPS.get(ot, '?'), nz.canon(r, env)), True)


def cstr(c):
    if c[0] in ('ge',):
        return '%s >= 0' % (c[1],)
    if c[0] == 'eq':
        return '%s == 0' % (c[1],)
    if c[0] == 'ne':
        return '%s != 0' % (c[1],)
    if c[0] == 'atom':
        return ('' if c[2] else 'not ') + c[1]
    return '%s %s' % (c[0], c[1])
