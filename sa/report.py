"""L6: findings, known-findings matching, evidence files, exit codes."""
import hashlib
import json
import os
import sys
import time

from .loader import AnalysisError

VERIF = os.path.dirname(os.path.dirname(os.path.abspath(__file__)))
KNOWN_FILE = os.path.join(VERIF, 'known_findings.jsonl')


def evidence_dir():
    """evidence of runs against a scratch copy (VERIF_REPO set) never overwrites the real evidence"""
    d = os.environ.get('VERIF_EVIDENCE_DIR')
    if d:
        return d
    repo = os.environ.get('VERIF_REPO')
    if repo and os.path.realpath(repo) != '/repo':
        return os.path.join(repo, '.verif-evidence')
    return os.path.join(VERIF, 'evidence')


def load_known():
    out = []
    if os.path.exists(KNOWN_FILE):
        with open(KNOWN_FILE) as fh:
            for line in fh:
                line = line.strip()
                if line and not line.startswith('#'):
                    out.append(json.loads(line))
    return out


class Finding:
    def __init__(self, pid, rule, construct, detail, loc, message, extra=None):
        self.pid, self.rule, self.construct, self.detail = pid, rule, construct, detail
        self.loc, self.message, self.extra = loc, message, extra or {}

    @property
    def key(self):
        return (self.pid, self.rule, self.construct, self.detail)

    def keystr(self):
        return '%s %s %s %s' % self.key

    def record(self):
        return {'property': self.pid, 'rule': self.rule, 'construct': self.construct,
                'detail': self.detail, 'location': self.loc, 'message': self.message,
                'extra': self.extra}


def _jsonable(x):
    """evidence must never crash the check: stringify keys, fall back to repr for anything json cannot carry"""
    if isinstance(x, dict):
        return {str(k): _jsonable(v) for k, v in x.items()}
    if isinstance(x, (list, tuple, set, frozenset)):
        return [_jsonable(v) for v in (sorted(x, key=str) if isinstance(x, (set, frozenset)) else x)]
    if isinstance(x, (str, int, float, bool)) or x is None:
        return x
    return repr(x)


class Check:
    """One run of one property's rule set."""

    def __init__(self, pid, tier='quick', title=''):
        self.pid, self.tier, self.title = pid, tier, title
        self.t0 = time.time()
        self.findings = []
        self.obligations = []          # (rule, construct, what, ok)
        self.analysed = {}             # kind -> set of names
        self.floors = []               # (rule, matched, minimum)
        self.assumptions = []
        self.tables = []
        self.notes = []
        self.unresolved = []
        self.samples = []
        self.rules = {}                # rule id -> description
        self.broken = []               # rules that could not run
        try:
            self.seed = int(os.environ.get('VERIF_SEED', '0'))
        except ValueError:
            self.seed = 0

    # ----------------------------------------------------------- recording
    def rule(self, rid, text):
        self.rules[rid] = text

    def saw(self, kind, name):
        self.analysed.setdefault(kind, set()).add(name)

    def assume(self, text):
        if text not in self.assumptions:
            self.assumptions.append(text)

    def note(self, text):
        self.notes.append(text)

    def sample(self, obj):
        obj = _jsonable(obj)
        if len(self.samples) < 12:
            self.samples.append(obj)

    def ob(self, rule, construct, what, ok, detail=None, loc='', message=None, extra=None):
        """Record an obligation; a failed one becomes a finding keyed by
        (property, rule, construct, detail)."""
        self.obligations.append((rule, construct, what, bool(ok)))
        if not ok:
            self.findings.append(Finding(self.pid, rule, construct, detail if detail is not None else what,
                                         loc, message or what, extra))
        return bool(ok)

    def finding(self, rule, construct, detail, loc, message, extra=None):
        self.obligations.append((rule, construct, detail, False))
        self.findings.append(Finding(self.pid, rule, construct, detail, loc, message, extra))

    def floor(self, rule, matched, minimum, what=''):
        # evaluated in finish(): a shortfall that is explained by a finding of the same rule is
        # reported through that finding; an unexplained shortfall means the rule lost its anchors.
        self.floors.append((rule, matched, minimum, what))

    def guard(self, fn, *args, **kw):
        """run one rule function; a crash inside it is recorded (the run ends as ANALYSIS-ERROR unless
        another rule found a violation) instead of hiding what the other rules report"""
        try:
            return fn(*args, **kw)
        except AnalysisError as e:
            self.broken.append('%s: %s' % (getattr(fn, '__name__', 'rule'), e))
        except Exception as e:   # noqa
            import traceback
            self.broken.append('%s crashed: %r at %s' % (getattr(fn, '__name__', 'rule'), e, traceback.format_exc().strip().splitlines()[-3].strip()))
        return None

    def positive(self, rule, flagged, what=''):
        """An embedded known-bad example must be flagged on every run."""
        self.obligations.append((rule, 'embedded-positive-example', what, True))
        if not flagged:
            raise AnalysisError('%s %s: embedded positive example not flagged (%s) — rule is broken'
                                % (self.pid, rule, what))

    # ------------------------------------------------------------- finish
    def finish(self, idx=None):
        # a floor shortfall that no finding of the same rule explains means the rule lost its anchors.  It never hides what
        # the other rules found: their violations are reported (exit 1) and the shortfall is listed as ANALYSIS-ERROR; with
        # no violation at all the run ends as analysis-broken (exit 2), never as a pass.
        for rule, matched, minimum, what in self.floors:
            if matched < minimum and not any(f.rule == rule for f in self.findings) and not self.broken:
                self.broken.append('%s %s: instance floor not met (%d < %d) %s — the rule would pass vacuously'
                                   % (self.pid, rule, matched, minimum, what))
        known = [k for k in load_known() if k.get('property') == self.pid]
        kmap = {}
        for k in known:
            if k.get('status') == 'known':
                kmap[(k['property'], k['rule'], k['construct'], k['detail'])] = k
        viol, knownhits = [], []
        seen = set()
        for f in self.findings:
            if f.key in seen:
                continue
            seen.add(f.key)
            if f.key in kmap:
                knownhits.append((f, kmap[f.key]))
            else:
                viol.append(f)
        wall = time.time() - self.t0
        # ---- stdout
        print('== %s %s [%s tier]' % (self.pid, self.title, self.tier))
        for kind in sorted(self.analysed):
            print('   analysed %-12s %d' % (kind, len(self.analysed[kind])))
        nob = len(self.obligations)
        ndis = sum(1 for o in self.obligations if o[3])
        print('   obligations %d, discharged %d, floors %s' % (
            nob, ndis, ', '.join('%s:%d>=%d' % (r, m, n) for r, m, n, _ in self.floors) or '-'))
        for f, k in knownhits:
            print('KNOWN-FINDING: property=%s %s [%s %s %s] at %s' % (
                self.pid, k.get('what', f.message), f.rule, f.construct, f.detail, f.loc))
        stale = [k for key, k in kmap.items() if key not in seen]
        for k in stale:
            print('   note: listed known finding no longer reported: %s %s %s' % (k['rule'], k['construct'], k['detail']))
        replay_dir = os.path.join(evidence_dir(), 'replay')
        for f in viol:
            os.makedirs(replay_dir, exist_ok=True)
            h = hashlib.sha1(f.keystr().encode()).hexdigest()[:10]
            rp = os.path.join(replay_dir, '%s-%s.json' % (self.pid, h))
            with open(rp, 'w') as fh:
                json.dump(f.record(), fh, indent=1, sort_keys=True)
            print('   %s: rule %s, construct %s: %s' % (f.loc, f.rule, f.construct, f.message))
            print('VIOLATION property=%s replay=%s' % (self.pid, rp))
        # ---- evidence
        distinct = len(set((o[0], o[1], o[2]) for o in self.obligations))
        ev = {
            'property_id': self.pid, 'tier': self.tier, 'seed': self.seed, 'level': 'other',
            'coverage': {
                'explanation': (
                    'Static analysis of /repo working tree (ast, CFG/path enumeration, call resolution, '
                    'constant folding, layout/affine summaries); no code of the package is executed. '
                    'Each obligation is one rule instance (rule id, construct, what is required); '
                    'a failed obligation is a finding keyed by (property, rule, construct, detail). '
                    'Rules: ' + '; '.join('%s = %s' % kv for kv in sorted(self.rules.items()))),
                'obligations': nob, 'discharged': ndis,
                'evaluations': max(nob, 1),
                'distinct_nontrivial': max(distinct, 0),
                'rule': 'one obligation per (rule, construct, requirement) instance found in the tree; '
                        'distinct = distinct triples; instance floors guard against vacuous passes',
                'samples': self.samples or [{'rule': o[0], 'construct': o[1], 'what': o[2], 'ok': o[3]}
                                            for o in self.obligations[:8]],
                'exhaustive': True,
                'analysed': {k: sorted(v) for k, v in sorted(self.analysed.items())},
                'analysed_counts': {k: len(v) for k, v in sorted(self.analysed.items())},
                'floors': [{'rule': r, 'matched': m, 'minimum': n, 'what': w} for r, m, n, w in self.floors],
                'findings': [f.record() for f in self.findings],
                'known_findings_reported': [f.keystr() for f, _ in knownhits],
                'unresolved_calls': self.unresolved[:200],
                'tables': self.tables,
                'notes': self.notes,
                'tree': idx.stats() if idx is not None else {},
                'selftest': getattr(self, 'selftest', None),
            },
            'assumptions': self.assumptions,
            'wall_s': round(wall, 3),
            'violations': len(viol),
        }
        os.makedirs(evidence_dir(), exist_ok=True)
        with open(os.path.join(evidence_dir(), '%s.json' % self.pid), 'w') as fh:
            json.dump(ev, fh, indent=1, sort_keys=True, default=str)
        for b in self.broken:
            print('ANALYSIS-ERROR property=%s %s' % (self.pid, b))
        print('   %s: %d violation(s), %d known finding(s), %.2fs' % (
            'FAIL' if viol else ('BROKEN' if self.broken else 'ok'), len(viol), len(knownhits), wall))
        return 1 if viol else (2 if self.broken else 0)


def run_check(pid, title, fn, tier):
    """fn(ck) runs the rules.  Tracebacks become ANALYSIS-ERROR, exit 2."""
    ck = Check(pid, tier, title)
    try:
        idx = fn(ck)
        if tier == 'thorough' and not os.environ.get('VERIF_SELFTEST_CHILD'):
            from .selftest import run as st_run, report as st_report
            results = st_run(pid)
            bad, stale = st_report(results, pid)
            ck.selftest = [{'name': r[1], 'kind': r[2], 'result': r[3], 'detail': r[4]} for r in results]
            ck.note('self-test: %d corpus entries (%d mutants must fire, %d benign twins must stay silent), %d stale, %d failed'
                    % (len(results), sum(1 for r in results if r[2] == 'mutant'), sum(1 for r in results if r[2] == 'twin'), len(stale), len(bad)))
            if bad:
                raise AnalysisError('self-test failed for %s' % ', '.join(r[1] for r in bad))
        return ck.finish(idx)
    except AnalysisError as e:
        print('ANALYSIS-ERROR property=%s %s' % (pid, e))
        return 2
    except Exception as e:   # noqa: a crash of the checker is never a verdict
        import traceback
        traceback.print_exc(file=sys.stdout)
        print('ANALYSIS-ERROR property=%s checker crashed: %r' % (pid, e))
        return 2
