"""L0: parse /repo's working tree, build module / class / function index.

Nothing here imports or executes pymodbus; every run re-parses the tree with
`ast`.  A syntax error or a missing anchored module is an ANALYSIS-ERROR
(exit 2), never a silent pass.
"""
import ast
import os
import warnings
import hashlib


class AnalysisError(Exception):
    """The analysis itself cannot proceed (vanished anchor, unparsable file,
    unrecognised construct where a rule needs one).  Exit code 2."""


def repo_root():
    return os.environ.get('VERIF_REPO', '/repo')


class Mod:
    def __init__(self, name, path, tree, src):
        self.name, self.path, self.tree, self.src = name, path, tree, src
        self.classes, self.funcs, self.consts, self.imports, self.star = {}, {}, {}, {}, []
        self.all = None
        self.body_assigns = {}     # name -> list of Assign/AugAssign/Expr stmts touching it (module level)

    def __repr__(self):
        return '<mod %s>' % self.name


class Func:
    """A function or method definition."""
    def __init__(self, mod, node, cls=None):
        self.mod, self.node, self.cls = mod, node, cls
        self.name = node.name
        decos = [ast.unparse(d) for d in node.decorator_list]
        self.is_classmethod = 'classmethod' in decos
        self.is_staticmethod = 'staticmethod' in decos
        self.is_async = isinstance(node, ast.AsyncFunctionDef)

    @property
    def qn(self):
        if self.cls is not None:
            return '%s.%s' % (self.cls.qn, self.name)
        return '%s.%s' % (self.mod.name, self.name)

    @property
    def params(self):
        a = self.node.args
        return [x.arg for x in a.posonlyargs + a.args]

    @property
    def loc(self):
        return '%s:%d' % (os.path.relpath(self.mod.path, repo_root()), self.node.lineno)

    def __repr__(self):
        return '<func %s>' % self.qn


class Cls:
    def __init__(self, mod, node):
        self.mod, self.node, self.name = mod, node, node.name
        self.methods, self.attrs = {}, {}
        self.body = node.body
        for s in node.body:
            if isinstance(s, (ast.FunctionDef, ast.AsyncFunctionDef)):
                self.methods[s.name] = Func(mod, s, self)
            elif isinstance(s, ast.Assign):
                for t in s.targets:
                    if isinstance(t, ast.Name):
                        self.attrs[t.id] = s.value
        self.bases = []

    @property
    def qn(self):
        return self.mod.name + '.' + self.name

    @property
    def loc(self):
        return '%s:%d' % (os.path.relpath(self.mod.path, repo_root()), self.node.lineno)

    def mangle(self, name):
        if name.startswith('__') and not name.endswith('__'):
            return '_%s%s' % (self.name.lstrip('_'), name)
        return name

    def __repr__(self):
        return '<%s>' % self.qn


class Extern:
    """A class / object that is not defined in the analysed package."""
    def __init__(self, name):
        self.name = name

    def __repr__(self):
        return '<extern %s>' % self.name


def desugar_struct_objects(tree):
    """`NAME = struct.Struct(FMT)` bound once at module or class level: NAME.unpack(x) / NAME.unpack_from(x) / NAME.pack(..) /
    NAME.size are rewritten to struct.unpack(FMT, x) / ... / struct.calcsize(FMT), which is what they mean.  The summaries then
    see one spelling of a struct access.  (A name that is rebound anywhere in the module is left alone.)"""
    fmts, stores = {}, {}
    for n in ast.walk(tree):
        if isinstance(n, ast.Assign):
            for t in n.targets:
                for el in (t.elts if isinstance(t, (ast.Tuple, ast.List)) else [t]):
                    if isinstance(el, ast.Name):
                        stores[el.id] = stores.get(el.id, 0) + 1
                        v = n.value
                        if len(n.targets) == 1 and el is t and isinstance(v, ast.Call) and ast.unparse(v.func) in ('struct.Struct', 'Struct') and len(v.args) == 1 and not v.keywords:
                            fmts[el.id] = v.args[0]
        elif isinstance(n, (ast.AugAssign, ast.AnnAssign, ast.For, ast.FunctionDef, ast.ClassDef, ast.arg)):
            nm = getattr(getattr(n, 'target', None), 'id', None) or getattr(n, 'name', None) or getattr(n, 'arg', None)
            if isinstance(nm, str):
                stores[nm] = stores.get(nm, 0) + 1
    fmts = {k: v for k, v in fmts.items() if stores.get(k) == 1}
    if not fmts:
        return tree

    def struct_attr(name):
        return ast.Attribute(value=ast.Name(id='struct', ctx=ast.Load()), attr=name, ctx=ast.Load())

    class T(ast.NodeTransformer):
        def visit_Call(self, n):
            self.generic_visit(n)
            f = n.func
            if isinstance(f, ast.Attribute) and isinstance(f.value, ast.Name) and f.value.id in fmts and f.attr in ('unpack', 'unpack_from', 'pack', 'pack_into', 'iter_unpack'):
                new = ast.Call(func=struct_attr(f.attr), args=[clone(fmts[f.value.id])] + n.args, keywords=n.keywords)
                return ast.copy_location(new, n)
            return n

        def visit_Attribute(self, n):
            self.generic_visit(n)
            if isinstance(n.value, ast.Name) and n.value.id in fmts and n.attr == 'size' and isinstance(n.ctx, ast.Load):
                return ast.copy_location(ast.Call(func=struct_attr('calcsize'), args=[clone(fmts[n.value.id])], keywords=[]), n)
            return n
    tree = T().visit(tree)
    ast.fix_missing_locations(tree)
    return tree


def split_divmod(tree):
    """`q, r = divmod(a, b)` with side-effect-free operands (names, constants, attributes, len(...)) is `q = a // b; r = a % b`:
    every rule then sees two ordinary assignments."""
    def pure(e):
        return all(isinstance(n, (ast.Name, ast.Constant, ast.Attribute, ast.Load, ast.BinOp, ast.operator, ast.Call)) and
                   (not isinstance(n, ast.Call) or (isinstance(n.func, ast.Name) and n.func.id == 'len')) for n in ast.walk(e))

    def fix(stmts):
        out = []
        for st in stmts:
            for field in ('body', 'orelse', 'finalbody'):
                if isinstance(getattr(st, field, None), list) and getattr(st, field) and isinstance(getattr(st, field)[0], ast.stmt):
                    setattr(st, field, fix(getattr(st, field)))
            for h in getattr(st, 'handlers', []) or []:
                h.body = fix(h.body)
            if isinstance(st, ast.Assign) and len(st.targets) == 1 and isinstance(st.targets[0], (ast.Tuple, ast.List)) and len(st.targets[0].elts) == 2 \
                    and all(isinstance(t, ast.Name) for t in st.targets[0].elts) and isinstance(st.value, ast.Call) and isinstance(st.value.func, ast.Name) \
                    and st.value.func.id == 'divmod' and len(st.value.args) == 2 and not st.value.keywords and pure(st.value.args[0]) and pure(st.value.args[1]):
                q, r = st.targets[0].elts
                a, b = st.value.args
                names = {n.id for x in (a, b) for n in ast.walk(x) if isinstance(n, ast.Name)}
                if q.id in names or r.id in names:
                    out.append(st)
                    continue
                out.append(ast.copy_location(ast.Assign(targets=[q], value=ast.BinOp(left=clone([a])[0], op=ast.FloorDiv(), right=clone([b])[0])), st))
                out.append(ast.copy_location(ast.Assign(targets=[r], value=ast.BinOp(left=clone([a])[0], op=ast.Mod(), right=clone([b])[0])), st))
                continue
            out.append(st)
        return out
    for n in ast.walk(tree):
        if isinstance(n, (ast.FunctionDef, ast.AsyncFunctionDef)):
            n.body = fix(n.body)
    ast.fix_missing_locations(tree)
    return tree


def inline_hoisted_bound_methods(tree):
    """`add = self.xs.append` ... `add(v)`: a local that is bound once, to a method looked up on a receiver the function never
    rebinds, and only ever called, is that method call: `self.xs.append(v)`.  (A bound method keeps the receiver object; with the
    receiver expression never re-assigned in the function both spellings denote the same object.)"""
    def plain(e):
        while isinstance(e, ast.Attribute):
            e = e.value
        return isinstance(e, ast.Name)
    for fn in ast.walk(tree):
        if not isinstance(fn, (ast.FunctionDef, ast.AsyncFunctionDef)):
            continue
        stores = {}
        for n in ast.walk(fn):
            if isinstance(n, ast.Name) and isinstance(n.ctx, ast.Store):
                stores[n.id] = stores.get(n.id, 0) + 1
        cands = {}
        for n in ast.walk(fn):
            if isinstance(n, ast.Assign) and len(n.targets) == 1 and isinstance(n.targets[0], ast.Name) and stores.get(n.targets[0].id) == 1 \
                    and isinstance(n.value, ast.Attribute) and plain(n.value.value):
                cands[n.targets[0].id] = n
        if not cands:
            continue
        calls = {id(c.func) for c in ast.walk(fn) if isinstance(c, ast.Call) and isinstance(c.func, ast.Name)}
        params = {a.arg for a in fn.args.args + fn.args.kwonlyargs} | ({fn.args.vararg.arg} if fn.args.vararg else set()) | ({fn.args.kwarg.arg} if fn.args.kwarg else set())
        for name, st in list(cands.items()):
            recv = ast.unparse(st.value.value)
            ok = name not in params
            for n in ast.walk(fn):
                if isinstance(n, ast.Name) and n.id == name and isinstance(n.ctx, ast.Load) and id(n) not in calls:
                    ok = False          # the bound method escapes (passed on, returned, compared)
                if isinstance(n, ast.Attribute) and isinstance(getattr(n, 'ctx', None), (ast.Store, ast.Del)) and ast.unparse(n) == recv:
                    ok = False          # the receiver is rebound somewhere in the function
            if ok and isinstance(st.value.value, ast.Name):
                # a receiver that is itself a local: the binding and every call sit in one statement list, the calls after the
                # binding, and nothing from the binding to the last call stores the receiver
                ok = False
                for parent in ast.walk(fn):
                    for field in ('body', 'orelse', 'finalbody'):
                        blk = getattr(parent, field, None)
                        if isinstance(blk, list) and any(x is st for x in blk):
                            i0 = [i for i, x in enumerate(blk) if x is st][0]
                            uses = [i for i, x in enumerate(blk) for c in ast.walk(x) if isinstance(c, ast.Call) and isinstance(c.func, ast.Name) and c.func.id == name]
                            total = sum(1 for c in ast.walk(fn) if isinstance(c, ast.Call) and isinstance(c.func, ast.Name) and c.func.id == name)
                            if uses and len(uses) == total and min(uses) > i0:
                                span = blk[i0 + 1:max(uses) + 1]
                                ok = not any(isinstance(x, ast.Name) and x.id == recv and isinstance(x.ctx, (ast.Store, ast.Del)) for y in span for x in ast.walk(y))
                if isinstance(n, (ast.Global, ast.Nonlocal)) and name in n.names:
                    ok = False
            if not ok:
                del cands[name]
        if not cands:
            continue

        class R(ast.NodeTransformer):
            def visit_Call(self, c):
                self.generic_visit(c)
                if isinstance(c.func, ast.Name) and c.func.id in cands:
                    c.func = ast.copy_location(clone(cands[c.func.id].value), c.func)
                return c

            def visit_Assign(self, a):
                if any(a is st for st in cands.values()):
                    return ast.copy_location(ast.Pass(), a)
                return self.generic_visit(a)
        fn.body = [R().visit(x) for x in fn.body]
    ast.fix_missing_locations(tree)
    return tree


def split_chained_assignments(tree):
    """`t1 = t2 = e` evaluates `e` once and stores it in t1, then t2.  It is rewritten to `A = e; B = A; ...` where A is the first
    target rooted at an attribute of a name (`self.x`, `self.x[k]`) if there is one, else the first plain name: the other targets
    then *read* A, so that a local bound together with an attribute is an alias of that attribute for every rule (`xs = self.xs =
    []`, `self.n = n = len(xs)`).  A constant or plain-name value is simply repeated.  The order of the stores among the targets
    changes; for names, attributes and subscripts of plain objects that is not observable."""
    def rooted(t):
        while isinstance(t, (ast.Attribute, ast.Subscript)):
            t = t.value
        return isinstance(t, ast.Name)

    def load(t):
        c = clone(t)
        for n in ast.walk(c):
            if hasattr(n, 'ctx'):
                n.ctx = ast.Load()
        return c

    def fix(stmts):
        out = []
        for st in stmts:
            for field in ('body', 'orelse', 'finalbody'):
                if isinstance(getattr(st, field, None), list) and getattr(st, field) and isinstance(getattr(st, field)[0], ast.stmt):
                    setattr(st, field, fix(getattr(st, field)))
            for h in getattr(st, 'handlers', []) or []:
                h.body = fix(h.body)
            if isinstance(st, ast.Assign) and len(st.targets) > 1 and all(isinstance(t, (ast.Name, ast.Attribute, ast.Subscript)) and rooted(t) for t in st.targets):
                names = {t.id for t in st.targets if isinstance(t, ast.Name)}
                # a target that is read by another target's own expression (d[k] = k = ...) keeps the original statement
                if any(isinstance(n, ast.Name) and n.id in names for t in st.targets if not isinstance(t, ast.Name) for n in ast.walk(t)):
                    out.append(st)
                    continue
                attrs = [t for t in st.targets if not isinstance(t, ast.Name)]
                first = attrs[0] if attrs else st.targets[0]
                rest = [t for t in st.targets if t is not first]
                out.append(ast.copy_location(ast.Assign(targets=[first], value=st.value), st))
                simple = isinstance(st.value, (ast.Constant, ast.Name))
                for t in rest:
                    out.append(ast.copy_location(ast.Assign(targets=[t], value=clone(st.value) if simple else load(first)), st))
                continue
            out.append(st)
        return out
    for n in ast.walk(tree):
        if isinstance(n, (ast.FunctionDef, ast.AsyncFunctionDef)):
            n.body = fix(n.body)
    ast.fix_missing_locations(tree)
    return tree


def split_parallel_assignments(tree):
    """`a, b = x, y` with as many values as targets, where no value mentions any of the targets (so nothing is swapped), means
    `a = x; b = y` evaluated left to right: it is rewritten to that sequence, so that every rule sees one assignment per target.
    (Values are evaluated before any store in the original; since no value reads a target and -- for the plain names, attributes
    and constant-key subscripts accepted here -- a store cannot change what a later value evaluates to, the order is immaterial.)"""
    def simple_target(t):
        if isinstance(t, ast.Name):
            return True
        if isinstance(t, ast.Attribute):
            return isinstance(t.value, ast.Name)
        return False

    def independent(targets, values):
        tdump = {ast.dump(ast.fix_missing_locations(_load(t))) for t in targets}
        tnames = {t.id for t in targets if isinstance(t, ast.Name)}
        for v in values:
            for n in ast.walk(v):
                if isinstance(n, ast.Name) and n.id in tnames:
                    return False
                if isinstance(n, ast.Attribute) and ast.dump(_load(n)) in tdump:
                    return False
                if isinstance(n, (ast.Call, ast.Await, ast.Yield, ast.YieldFrom)) and len(values) > 1 and any(isinstance(t, ast.Attribute) for t in targets):
                    # a call could read an attribute that an earlier store of the sequence would already have changed
                    if not (isinstance(n, ast.Call) and isinstance(n.func, (ast.Name, ast.Attribute)) and not any(isinstance(a, ast.Attribute) and isinstance(a.value, ast.Name) and a.value.id == 'self' for a in ast.walk(n) if a is not n.func)):
                        return False
        return True

    def _load(t):
        c = clone(t)
        for n in ast.walk(c):
            if hasattr(n, 'ctx'):
                n.ctx = ast.Load()
        return c

    def fix(stmts):
        out = []
        for st in stmts:
            for field in ('body', 'orelse', 'finalbody'):
                if isinstance(getattr(st, field, None), list) and getattr(st, field) and isinstance(getattr(st, field)[0], ast.stmt):
                    setattr(st, field, fix(getattr(st, field)))
            for h in getattr(st, 'handlers', []) or []:
                h.body = fix(h.body)
            if isinstance(st, ast.Assign) and len(st.targets) == 1 and isinstance(st.targets[0], (ast.Tuple, ast.List)) \
                    and isinstance(st.value, (ast.Tuple, ast.List)) and len(st.targets[0].elts) == len(st.value.elts) >= 2 \
                    and not any(isinstance(x, ast.Starred) for x in st.targets[0].elts + st.value.elts) \
                    and all(simple_target(t) for t in st.targets[0].elts) and independent(st.targets[0].elts, st.value.elts):
                for t, v in zip(st.targets[0].elts, st.value.elts):
                    a = ast.Assign(targets=[t], value=v)
                    ast.copy_location(a, st)
                    out.append(a)
                continue
            out.append(st)
        return out
    tree.body = fix(tree.body)
    ast.fix_missing_locations(tree)
    return tree


def set_parents(tree):
    for n in ast.walk(tree):
        for c in ast.iter_child_nodes(n):
            c._parent = n


class Index:
    def __init__(self, repo=None, pkgs=('pymodbus',)):
        self.repo = repo or repo_root()
        self.mods = {}
        self.digest = hashlib.sha256()
        for pkg in pkgs:
            root = os.path.join(self.repo, pkg)
            if not os.path.isdir(root):
                raise AnalysisError('package directory missing: %s' % root)
            for dp, dn, fn in sorted(os.walk(root)):
                dn.sort()
                for f in sorted(fn):
                    if not f.endswith('.py'):
                        continue
                    p = os.path.join(dp, f)
                    rel = os.path.relpath(p, self.repo)[:-3].replace(os.sep, '.')
                    if rel.endswith('.__init__'):
                        rel = rel[:-9]
                    with open(p, 'rb') as fh:
                        raw = fh.read()
                    self.digest.update(rel.encode() + b'\0' + raw)
                    try:
                        with warnings.catch_warnings():
                            warnings.simplefilter('ignore')
                            tree = ast.parse(raw, p)
                    except SyntaxError as e:
                        raise AnalysisError('cannot parse %s: %s' % (p, e))
                    tree = desugar_struct_objects(tree)
                    tree = split_parallel_assignments(tree)
                    tree = split_chained_assignments(tree)
                    tree = split_divmod(tree)
                    tree = inline_hoisted_bound_methods(tree)
                    set_parents(tree)
                    self.mods[rel] = Mod(rel, p, tree, raw.decode('utf-8', 'replace'))
        for m in self.mods.values():
            self._scan(m)
        for m in self.mods.values():
            for c in m.classes.values():
                c.bases = [self.resolve_class_expr(m, b) for b in c.node.bases]
        self._mro = {}
        self._inline_delegating_methods()
        self._inline_generators()
        self._inline_straightline_helpers()
        self._unroll_constant_tables()

    def _inline_delegating_methods(self):
        """A method whose whole body is `return _helper(self, a, b)` / `_helper(self, a, b)` -- a private module-level function of
        the same module called with the receiver first and then parameters of the method by name -- IS that helper with its first
        parameter called `self`: the helper's body (parameters renamed) becomes the method's body.  Beta-reduction of a call whose
        arguments are plain names; shared bodies of sibling classes (request / response echo codecs) are then analysed per class."""
        for m in self.mods.values():
            for c in m.classes.values():
                for fn in c.methods.values():
                    body = [st for st in fn.node.body if not (isinstance(st, ast.Expr) and isinstance(st.value, ast.Constant))]
                    if len(body) != 1 or not isinstance(body[0], (ast.Return, ast.Expr)) or not isinstance(body[0].value, ast.Call):
                        continue
                    call = body[0].value
                    if not (isinstance(call.func, ast.Name) and call.func.id.startswith('_') and not call.func.id.startswith('__') and call.func.id in m.funcs):
                        continue
                    h = m.funcs[call.func.id]
                    if h.is_async or h.node.decorator_list or call.keywords or h.node.args.vararg or h.node.args.kwarg or h.node.args.kwonlyargs:
                        continue
                    if not call.args or not (isinstance(call.args[0], ast.Name) and call.args[0].id == 'self') or len(call.args) != len(h.params):
                        continue
                    if not all((isinstance(a, ast.Name) and a.id in fn.params) or isinstance(a, ast.Constant) for a in call.args):
                        continue
                    ren = {hp: a.id for hp, a in zip(h.params, call.args) if isinstance(a, ast.Name)}
                    consts = {hp: a for hp, a in zip(h.params, call.args) if isinstance(a, ast.Constant)}
                    if any(isinstance(n, ast.Name) and n.id in consts and not isinstance(n.ctx, ast.Load) for n in ast.walk(h.node)):
                        continue        # the helper rebinds a parameter that is given a constant here
                    # locals of the helper must not collide with parameter names of the method
                    locals_ = {n.id for n in ast.walk(h.node) if isinstance(n, ast.Name) and isinstance(n.ctx, ast.Store)}
                    if locals_ & (set(fn.params) - set(ren.values())) or any(isinstance(n, (ast.Yield, ast.YieldFrom, ast.Global, ast.Nonlocal)) for n in ast.walk(h.node)):
                        continue
                    new_body = clone([st for st in h.node.body if not (isinstance(st, ast.Expr) and isinstance(st.value, ast.Constant))])

                    class R(ast.NodeTransformer):
                        def visit_Name(self, n):
                            if n.id in ren:
                                return ast.copy_location(ast.Name(id=ren[n.id], ctx=n.ctx), n)
                            if n.id in consts:
                                return ast.copy_location(ast.Constant(value=consts[n.id].value), n)
                            return n
                    new_body = [R().visit(st) for st in new_body]
                    if isinstance(body[0], ast.Expr) and any(isinstance(n, ast.Return) and n.value is not None for st in new_body for n in ast.walk(st)):
                        continue        # the method discards a value the helper returns: keep the call
                    doc = [st for st in fn.node.body if isinstance(st, ast.Expr) and isinstance(st.value, ast.Constant)]
                    fn.node.body = doc + new_body
                    ast.fix_missing_locations(fn.node)
                    set_parents(fn.node)

    def _inline_generators(self):
        """`for x in _gen(a, b): BODY` where `_gen` is a private module-level generator function of the same module IS the body
        of `_gen` with every `yield v` statement replaced by `x = v; BODY` (parameters bound to the arguments first, the
        generator's locals renamed apart).  Sound when the generator has no `return`, yields only as statements, and BODY has no
        break / continue / return that would have to unwind the generator; anything else is left as a call."""
        for m in self.mods.values():
            funcs = list(m.funcs.values()) + [fn for c in m.classes.values() for fn in c.methods.values()]
            for fn in funcs:
                changed = False
                for parent in ast.walk(fn.node):
                    for field in ('body', 'orelse', 'finalbody'):
                        stmts = getattr(parent, field, None)
                        if not isinstance(stmts, list):
                            continue
                        out = []
                        for st in stmts:
                            rep = self._gen_inline_one(m, fn, st) if isinstance(st, ast.For) else None
                            if rep is None:
                                out.append(st)
                            else:
                                out.extend(rep)
                                changed = True
                        if changed:
                            setattr(parent, field, out)
                if changed:
                    ast.fix_missing_locations(fn.node)
                    set_parents(fn.node)

    def _gen_inline_one(self, m, fn, st):
        call = st.iter
        if st.orelse or not (isinstance(call, ast.Call) and isinstance(call.func, ast.Name) and call.func.id in m.funcs and not call.keywords):
            return None
        g = m.funcs[call.func.id]
        if g is fn or g.is_async or g.node.decorator_list or g.node.args.vararg or g.node.args.kwarg or g.node.args.kwonlyargs or g.node.args.defaults \
                or len(call.args) != len(g.params) or any(isinstance(a, ast.Starred) for a in call.args):
            return None
        gbody = [x for x in g.node.body if not (isinstance(x, ast.Expr) and isinstance(x.value, ast.Constant))]
        ys = [n for x in gbody for n in ast.walk(x) if isinstance(n, (ast.Yield, ast.YieldFrom))]
        if not ys or any(isinstance(n, ast.YieldFrom) or n.value is None for n in ys):
            return None
        ystm = [n for x in gbody for n in ast.walk(x) if isinstance(n, ast.Expr) and isinstance(n.value, ast.Yield)]
        if len(ystm) != len(ys):
            return None                 # a yield used as an expression
        if any(isinstance(n, (ast.Return, ast.FunctionDef, ast.Lambda, ast.Global, ast.Nonlocal, ast.Try, ast.With)) for x in gbody for n in ast.walk(x)):
            return None
        if any(isinstance(n, (ast.Break, ast.Continue, ast.Return, ast.Yield)) for x in st.body for n in ast.walk(x)):
            return None
        glocals = {n.id for x in gbody for n in ast.walk(x) if isinstance(n, ast.Name) and isinstance(n.ctx, ast.Store)} | set(g.params)
        used = {n.id for n in ast.walk(fn.node) if isinstance(n, ast.Name)}
        ren = {v: (v if v not in used else '%s__%s' % (v, g.name.strip('_'))) for v in glocals}
        if any(r in used for v, r in ren.items() if r != v):
            return None
        # a parameter that the generator never rebinds, given a plain name the loop body never rebinds, is that name
        gstores = {n.id for x in gbody for n in ast.walk(x) if isinstance(n, ast.Name) and isinstance(n.ctx, ast.Store)}
        fstores = {n.id for x in st.body for n in ast.walk(x) if isinstance(n, ast.Name) and isinstance(n.ctx, ast.Store)}
        for p_, a in zip(g.params, call.args):
            if isinstance(a, ast.Name) and p_ not in gstores and a.id not in fstores and a.id not in gstores:
                ren[p_] = a.id
        body = clone(gbody)
        target, fbody = st.target, st.body

        class R(ast.NodeTransformer):
            def visit_Name(self, n):
                if n.id in ren:
                    return ast.copy_location(ast.Name(id=ren[n.id], ctx=n.ctx), n)
                return n
        body = [R().visit(x) for x in body]

        def splice(stmts):
            out = []
            for x in stmts:
                if isinstance(x, ast.Expr) and isinstance(x.value, ast.Yield):
                    out.append(ast.copy_location(ast.Assign(targets=[clone([target])[0]], value=x.value.value), st))
                    out.extend(clone(fbody))
                    continue
                for field in ('body', 'orelse', 'finalbody'):
                    sub = getattr(x, field, None)
                    if isinstance(sub, list) and sub and isinstance(sub[0], ast.stmt):
                        setattr(x, field, splice(sub))
                out.append(x)
            return out
        binds = [ast.copy_location(ast.Assign(targets=[ast.Name(id=ren[p_], ctx=ast.Store())], value=a), st) for p_, a in zip(g.params, call.args)
                 if not (isinstance(a, ast.Name) and a.id == ren[p_])]
        return binds + splice(body)

    def _inline_straightline_helpers(self):
        """`x, y = _helper(data)` / `return _helper(a)` / `_helper(a)` where `_helper` is a private module-level function of the same
        module whose body is a straight line of assignments ending in `return <expr>`, called with plain names / constants: the
        statement is replaced by the helper's assignments (locals renamed apart, parameters replaced by the arguments) followed by
        the statement with the call replaced by the returned expression.  Beta-reduction; nothing is evaluated twice or in another
        order."""
        for m in self.mods.values():
            funcs = list(m.funcs.values()) + [fn for c in m.classes.values() for fn in c.methods.values()]
            for fn in funcs:
                changed = False
                for parent in ast.walk(fn.node):
                    for field in ('body', 'orelse', 'finalbody'):
                        stmts = getattr(parent, field, None)
                        if not isinstance(stmts, list) or not stmts or not isinstance(stmts[0], ast.stmt):
                            continue
                        out = []
                        for st in stmts:
                            rep = self._straightline_one(m, fn, st)
                            if rep is None:
                                out.append(st)
                            else:
                                out.extend(rep)
                                changed = True
                        setattr(parent, field, out)
                if changed:
                    ast.fix_missing_locations(fn.node)
                    set_parents(fn.node)

    def _straightline_one(self, m, fn, st):
        if not isinstance(st, (ast.Assign, ast.Return, ast.Expr)) or not isinstance(getattr(st, 'value', None), ast.Call):
            return None
        call = st.value
        if not (isinstance(call.func, ast.Name) and call.func.id.startswith('_') and not call.func.id.startswith('__') and call.func.id in m.funcs) or call.keywords:
            return None
        g = m.funcs[call.func.id]
        if g is fn or g.is_async or g.node.decorator_list or g.node.args.vararg or g.node.args.kwarg or g.node.args.kwonlyargs or g.node.args.defaults \
                or len(call.args) != len(g.params) or not all(isinstance(a, (ast.Name, ast.Constant)) for a in call.args):
            return None
        gbody = [x for x in g.node.body if not (isinstance(x, ast.Expr) and isinstance(x.value, ast.Constant))]
        if not gbody or not isinstance(gbody[-1], ast.Return) or gbody[-1].value is None or not all(isinstance(x, ast.Assign) for x in gbody[:-1]):
            return None
        if any(isinstance(n, (ast.Yield, ast.YieldFrom, ast.Lambda, ast.Await, ast.NamedExpr, ast.ListComp, ast.SetComp, ast.DictComp, ast.GeneratorExp)) for x in gbody for n in ast.walk(x)):
            return None
        gstores = {n.id for x in gbody for n in ast.walk(x) if isinstance(n, ast.Name) and isinstance(n.ctx, ast.Store)}
        if gstores & set(g.params):
            return None
        if isinstance(st, ast.Expr) and len(gbody) == 1:
            return None                 # nothing to gain: the call stays
        used = {n.id for n in ast.walk(fn.node) if isinstance(n, ast.Name)} | set(fn.params)
        ren = {}
        for v in gstores:
            ren[v] = v if v not in used else '%s__%s' % (v, g.name.strip('_'))
            if ren[v] != v and ren[v] in used:
                return None
        sub = {}
        for p_, a in zip(g.params, call.args):
            sub[p_] = a

        class R(ast.NodeTransformer):
            def visit_Name(self, n):
                if n.id in sub:
                    a = sub[n.id]
                    return ast.copy_location(ast.Name(id=a.id, ctx=n.ctx) if isinstance(a, ast.Name) else ast.Constant(value=a.value), n)
                if n.id in ren:
                    return ast.copy_location(ast.Name(id=ren[n.id], ctx=n.ctx), n)
                return n
        body = [ast.copy_location(R().visit(x), st) for x in clone(gbody)]
        for x in body:
            for n in ast.walk(x):
                ast.copy_location(n, st)
        ret = body[-1].value
        st.value = ret
        return body[:-1] + [st]

    # ------------------------------------------------ constant tables
    def _unroll_constant_tables(self):
        """Table-driven code over a CONSTANT table is the code it abbreviates.  A table is a tuple / list literal of constants (or of
        tuples of constants) bound once at class or module level.  `for row in TABLE: BODY` (no break / continue) becomes BODY once
        per row with the loop variables replaced by the constants; `for a, b in zip(TABLE, xs)` pairs row i with `xs[i]`;
        `[f(n) for n in TABLE]` becomes the list display.  After that `getattr(o, 'name')` is `o.name`, `setattr(o, 'name', v)` is
        `o.name = v`, and a local bound once to a list display and used only as `*local[a:b]` / `local[i]` in the statements that
        follow is replaced by the elements it names."""
        for m in self.mods.values():
            items = [(None, fn) for fn in m.funcs.values()] + [(c, fn) for c in m.classes.values() for fn in c.methods.values()]
            for c, fn in items:
                try:
                    if self._unroll_fn(m, c, fn):
                        ast.fix_missing_locations(fn.node)
                        set_parents(fn.node)
                except RecursionError:
                    pass

    def _const_rows(self, m, c, e):
        def literal(v):
            if isinstance(v, (ast.Tuple, ast.List)) and v.elts and len(v.elts) <= 12 and all(
                    isinstance(x, ast.Constant) or (isinstance(x, (ast.Tuple, ast.List)) and x.elts and all(isinstance(y, ast.Constant) for y in x.elts)) for x in v.elts):
                return list(v.elts)
            return None
        if isinstance(e, (ast.Tuple, ast.List)):
            return literal(e)
        if isinstance(e, ast.Name) and e.id in m.consts:
            n = sum(1 for st in m.tree.body if isinstance(st, ast.Assign) and any(isinstance(t, ast.Name) and t.id == e.id for t in st.targets)) if hasattr(m, 'tree') else 1
            return literal(m.consts[e.id]) if n <= 1 else None
        if isinstance(e, ast.Attribute) and isinstance(e.value, ast.Name) and c is not None and e.value.id in ('self', 'cls', c.name):
            for k in ([c] + [b for b in self.mro(c) if b is not c]):
                if e.attr in getattr(k, 'attrs', {}):
                    return literal(k.attrs[e.attr])
        return None

    def _unroll_fn(self, m, c, fn):
        idx = self
        changed = [False]

        def subst(nodes, env):
            class S(ast.NodeTransformer):
                def visit_Name(self, n):
                    if n.id in env and isinstance(n.ctx, ast.Load):
                        return ast.copy_location(clone([env[n.id]])[0], n)
                    return n
            return [S().visit(x) for x in clone(nodes)]

        def bind(target, row, env):
            if isinstance(target, ast.Name):
                env[target.id] = row
                return True
            if isinstance(target, (ast.Tuple, ast.List)) and isinstance(row, (ast.Tuple, ast.List)) and len(target.elts) == len(row.elts) \
                    and all(isinstance(t, ast.Name) for t in target.elts):
                for t, r in zip(target.elts, row.elts):
                    env[t.id] = r
                return True
            return False

        def stores(nodes):
            return {n.id for x in nodes for n in ast.walk(x) if isinstance(n, ast.Name) and isinstance(n.ctx, ast.Store)}

        def unroll_for(st):
            if st.orelse or any(isinstance(n, (ast.Break, ast.Continue)) for x in st.body for n in ast.walk(x)):
                return None
            it = st.iter
            rows, other = idx._const_rows(m, c, it), None
            if rows is None and isinstance(it, ast.Call) and isinstance(it.func, ast.Name) and it.func.id == 'zip' and len(it.args) == 2 and not it.keywords \
                    and isinstance(it.args[1], ast.Name) and isinstance(st.target, (ast.Tuple, ast.List)) and len(st.target.elts) == 2:
                rows, other = idx._const_rows(m, c, it.args[0]), it.args[1]
            if rows is None or len(rows) > 8 or len(st.body) > 8:
                return None
            tnames = {n.id for n in ast.walk(st.target) if isinstance(n, ast.Name)}
            if tnames & stores(st.body):
                return None
            out = []
            for i, row in enumerate(rows):
                env = {}
                if other is None:
                    if not bind(st.target, row, env):
                        return None
                else:
                    if not bind(st.target.elts[0], row, env):
                        return None
                    if not isinstance(st.target.elts[1], ast.Name):
                        return None
                    env[st.target.elts[1].id] = ast.Subscript(value=ast.Name(id=other.id, ctx=ast.Load()), slice=ast.Constant(value=i), ctx=ast.Load())
                out += [ast.copy_location(x, st) if not hasattr(x, 'lineno') else x for x in subst(st.body, env)]
            return out

        class Comp(ast.NodeTransformer):
            def visit_ListComp(self, n):
                self.generic_visit(n)
                if len(n.generators) == 1 and not n.generators[0].ifs and not n.generators[0].is_async:
                    g = n.generators[0]
                    rows = idx._const_rows(m, c, g.iter)
                    if rows is not None and len(rows) <= 8:
                        elts = []
                        for row in rows:
                            env = {}
                            if not bind(g.target, row, env):
                                return n
                            elts += subst([n.elt], env)
                        changed[0] = True
                        return ast.copy_location(ast.List(elts=elts, ctx=ast.Load()), n)
                return n

        class Attr(ast.NodeTransformer):
            def visit_Call(self, n):
                self.generic_visit(n)
                if isinstance(n.func, ast.Name) and n.func.id == 'getattr' and len(n.args) == 2 and not n.keywords and isinstance(n.args[1], ast.Constant) \
                        and isinstance(n.args[1].value, str) and n.args[1].value.isidentifier():
                    changed[0] = True
                    return ast.copy_location(ast.Attribute(value=n.args[0], attr=n.args[1].value, ctx=ast.Load()), n)
                return n

            def visit_Expr(self, st):
                self.generic_visit(st)
                v = st.value
                if isinstance(v, ast.Call) and isinstance(v.func, ast.Name) and v.func.id == 'setattr' and len(v.args) == 3 and not v.keywords \
                        and isinstance(v.args[1], ast.Constant) and isinstance(v.args[1].value, str) and v.args[1].value.isidentifier():
                    changed[0] = True
                    return ast.copy_location(ast.Assign(targets=[ast.Attribute(value=v.args[0], attr=v.args[1].value, ctx=ast.Store())], value=v.args[2]), st)
                return st

        def walk_blocks(node):
            for field in ('body', 'orelse', 'finalbody'):
                stmts = getattr(node, field, None)
                if not isinstance(stmts, list) or not stmts or not isinstance(stmts[0], ast.stmt):
                    continue
                out = []
                for st in stmts:
                    walk_blocks(st)
                    rep = unroll_for(st) if isinstance(st, ast.For) else None
                    if rep is None:
                        out.append(st)
                    else:
                        changed[0] = True
                        for x in rep:
                            walk_blocks(x)
                        out.extend(rep)
                setattr(node, field, out)
            for h in getattr(node, 'handlers', []) or []:
                walk_blocks(h)
        before = changed[0]
        walk_blocks(fn.node)
        Comp().visit(fn.node)
        if not changed[0]:
            return False
        Attr().visit(fn.node)
        ast.fix_missing_locations(fn.node)
        self._spread_list_locals(fn)
        return True

    def _spread_list_locals(self, fn):
        """header = [a, b, c] ... f(*header[:2]) / header[1]   ->   f(a, b) / b   when `header` is bound once, used only in these
        forms, in the statement list of the binding, with nothing in between that stores an attribute / item or is a bare call"""
        for parent in ast.walk(fn.node):
            for field in ('body', 'orelse', 'finalbody'):
                blk = getattr(parent, field, None)
                if not isinstance(blk, list) or not blk or not isinstance(blk[0], ast.stmt):
                    continue
                for i0, st in enumerate(list(blk)):
                    if not (isinstance(st, ast.Assign) and len(st.targets) == 1 and isinstance(st.targets[0], ast.Name) and isinstance(st.value, (ast.List, ast.Tuple))
                            and not any(isinstance(x, ast.Starred) for x in st.value.elts)):
                        continue
                    name, elts = st.targets[0].id, st.value.elts
                    if sum(1 for n in ast.walk(fn.node) if isinstance(n, ast.Name) and n.id == name and isinstance(n.ctx, ast.Store)) != 1:
                        continue
                    loads = [n for n in ast.walk(fn.node) if isinstance(n, ast.Name) and n.id == name and isinstance(n.ctx, ast.Load)]
                    later = blk[i0 + 1:]
                    inblk = [n for x in later for n in ast.walk(x) if isinstance(n, ast.Name) and n.id == name and isinstance(n.ctx, ast.Load)]
                    if not loads or len(inblk) != len(loads):
                        continue
                    last = max(j for j, x in enumerate(later) if any(n in inblk for n in ast.walk(x)))
                    span = later[:last + 1]
                    if any(isinstance(x, (ast.Expr, ast.AugAssign, ast.For, ast.While, ast.If, ast.Try, ast.With)) for x in span) or any(
                            isinstance(x, ast.Assign) and any(not isinstance(t, ast.Name) for t in x.targets) for x in span[:-1]):
                        continue
                    ok = [True]

                    def pick(sl):
                        if isinstance(sl, ast.Slice):
                            lo = sl.lower.value if isinstance(sl.lower, ast.Constant) else (0 if sl.lower is None else None)
                            hi = sl.upper.value if isinstance(sl.upper, ast.Constant) else (len(elts) if sl.upper is None else None)
                            if sl.step is not None or not isinstance(lo, int) or not isinstance(hi, int):
                                return None
                            return elts[lo:hi]
                        if isinstance(sl, ast.Constant) and isinstance(sl.value, int) and -len(elts) <= sl.value < len(elts):
                            return [elts[sl.value]]
                        return None

                    class T(ast.NodeTransformer):
                        def visit_Call(self, c_):
                            self.generic_visit(c_)
                            args = []
                            for a in c_.args:
                                if isinstance(a, ast.Starred) and isinstance(a.value, ast.Name) and a.value.id == name:
                                    args += clone(list(elts))
                                elif isinstance(a, ast.Starred) and isinstance(a.value, ast.Subscript) and isinstance(a.value.value, ast.Name) and a.value.value.id == name \
                                        and isinstance(a.value.slice, ast.Slice) and pick(a.value.slice) is not None:
                                    args += clone(list(pick(a.value.slice)))
                                else:
                                    args.append(a)
                            c_.args = args
                            return c_

                        def visit_Subscript(self, s_):
                            self.generic_visit(s_)
                            if isinstance(s_.value, ast.Name) and s_.value.id == name and isinstance(s_.ctx, ast.Load) and not isinstance(s_.slice, ast.Slice):
                                got = pick(s_.slice)
                                if got is not None:
                                    return ast.copy_location(clone([got[0]])[0], s_)
                            return s_
                    new_span = [T().visit(x) for x in clone(span)]
                    if any(isinstance(n, ast.Name) and n.id == name for x in new_span for n in ast.walk(x)):
                        continue            # some use is of another form: leave everything as it was
                    blk[i0 + 1:i0 + 1 + len(span)] = new_span
                    blk[i0] = ast.copy_location(ast.Pass(), st)
        ast.fix_missing_locations(fn.node)

    # ------------------------------------------------------------------ scan
    def _scan(self, m):
        def scan_stmts(stmts):
            for s in stmts:
                if isinstance(s, ast.ClassDef):
                    m.classes[s.name] = Cls(m, s)
                elif isinstance(s, (ast.FunctionDef, ast.AsyncFunctionDef)):
                    m.funcs[s.name] = Func(m, s)
                elif isinstance(s, ast.Assign):
                    for t in s.targets:
                        if isinstance(t, ast.Name):
                            m.consts[t.id] = s.value
                            if t.id == '__all__':
                                try:
                                    m.all = ast.literal_eval(s.value)
                                except Exception:
                                    pass
                elif isinstance(s, ast.ImportFrom) and s.module:
                    for a in s.names:
                        if a.name == '*':
                            m.star.append(s.module)
                        else:
                            m.imports[a.asname or a.name] = (s.module, a.name)
                elif isinstance(s, ast.Import):
                    for a in s.names:
                        if a.asname:
                            m.imports[a.asname] = (a.name, None)
                        else:
                            m.imports[a.name.split('.')[0]] = (a.name.split('.')[0], None)
                elif isinstance(s, ast.Try):
                    scan_stmts(s.body)
                    for h in s.handlers:
                        scan_stmts(h.body)
                elif isinstance(s, ast.If):
                    scan_stmts(s.body)
                    scan_stmts(s.orelse)
        scan_stmts(m.tree.body)

    # ---------------------------------------------------------------- lookup
    def lookup(self, m, name, seen=None):
        """Resolve a global name of module m.
        -> ('class', Cls) | ('func', Func) | ('const', expr, Mod) | ('module', name)
           | ('extern', module, name) | None"""
        seen = seen if seen is not None else set()
        if (m.name, name) in seen:
            return None
        seen.add((m.name, name))
        if name in m.classes:
            return ('class', m.classes[name])
        if name in m.funcs:
            return ('func', m.funcs[name])
        if name in m.consts:
            return ('const', m.consts[name], m)
        if name in m.imports:
            mod, orig = m.imports[name]
            if orig is None:
                return ('module', mod)
            if mod in self.mods:
                r = self.lookup(self.mods[mod], orig, seen)
                if r:
                    return r
                if mod + '.' + orig in self.mods:
                    return ('module', mod + '.' + orig)
            return ('extern', mod, orig)
        for sm in m.star:
            if sm in self.mods:
                tm = self.mods[sm]
                if tm.all is not None and name not in tm.all:
                    continue
                r = self.lookup(tm, name, seen)
                if r:
                    return r
        return None

    def resolve_class_expr(self, m, expr):
        if isinstance(expr, ast.Name):
            r = self.lookup(m, expr.id)
            if r and r[0] == 'class':
                return r[1]
            return Extern(expr.id)
        return Extern(ast.unparse(expr))

    # ------------------------------------------------------------------- mro
    def mro(self, c):
        if c in self._mro:
            return self._mro[c]

        def merge(seqs):
            res = []
            seqs = [list(s) for s in seqs if s]
            while seqs:
                for s in seqs:
                    h = s[0]
                    if not any(h in t[1:] for t in seqs):
                        break
                else:
                    raise AnalysisError('inconsistent MRO for %s' % c.qn)
                res.append(h)
                seqs = [[x for x in s if x is not h] for s in seqs]
                seqs = [s for s in seqs if s]
            return res
        bases = [b for b in c.bases if isinstance(b, Cls)]
        r = [c] + merge([self.mro(b) for b in bases] + [bases])
        self._mro[c] = r
        return r

    def find_method(self, c, name):
        for k in self.mro(c):
            if name in k.methods:
                return k.methods[name]
        return None

    def find_method_after(self, c, after, name):
        """super()-style lookup: first definition of `name` in mro(c) after class `after`."""
        m = self.mro(c)
        if after in m:
            m = m[m.index(after) + 1:]
        for k in m:
            if name in k.methods:
                return k.methods[name]
        return None

    def find_attr(self, c, name):
        for k in self.mro(c):
            if name in k.attrs:
                return k, k.attrs[name]
        return None, None

    def has_member(self, c, name):
        return self.find_method(c, name) is not None or self.find_attr(c, name)[0] is not None

    def is_subclass(self, c, base):
        return base in self.mro(c)

    def extern_bases(self, c):
        out = []
        for k in self.mro(c):
            out += [b.name for b in k.bases if isinstance(b, Extern)]
        return out

    def cls(self, qn):
        mod, _, n = qn.rpartition('.')
        try:
            return self.mods[mod].classes[n]
        except KeyError:
            raise AnalysisError('anchor class vanished: %s' % qn)

    def func(self, qn):
        """module-level function or Class.method by qualified name"""
        mod, _, n = qn.rpartition('.')
        if mod in self.mods and n in self.mods[mod].funcs:
            return self.mods[mod].funcs[n]
        cmod, _, cn = mod.rpartition('.')
        if cmod in self.mods and cn in self.mods[cmod].classes:
            c = self.mods[cmod].classes[cn]
            if n in c.methods:
                return c.methods[n]
        raise AnalysisError('anchor function vanished: %s' % qn)

    def mod(self, name):
        if name not in self.mods:
            raise AnalysisError('anchor module vanished: %s' % name)
        return self.mods[name]

    def all_classes(self):
        for m in self.mods.values():
            for c in m.classes.values():
                yield c

    def all_funcs(self):
        for m in self.mods.values():
            for f in m.funcs.values():
                yield f
            for c in m.classes.values():
                for f in c.methods.values():
                    yield f

    def subclasses(self, base):
        return [c for c in self.all_classes() if c is not base and base in self.mro(c)]

    def stats(self):
        return {'modules': len(self.mods),
                'classes': sum(len(m.classes) for m in self.mods.values()),
                'functions': sum(1 for _ in self.all_funcs()),
                'tree_sha256': self.digest.hexdigest()[:16]}


def relpath(p):
    return os.path.relpath(p, repo_root())


def loc(mod, node):
    return '%s:%d' % (relpath(mod.path), getattr(node, 'lineno', 0))


def clone(node):
    """structural copy of an AST subtree (ignores _parent back-pointers)"""
    if isinstance(node, ast.AST):
        new = node.__class__()
        for f in node._fields:
            if hasattr(node, f):
                setattr(new, f, clone(getattr(node, f)))
        for a in ('lineno', 'col_offset', 'end_lineno', 'end_col_offset'):
            if hasattr(node, a):
                setattr(new, a, getattr(node, a))
        return new
    if isinstance(node, list):
        return [clone(x) for x in node]
    return node
