"""Progress of cursor-controlled `while` loops (shared by C12 / C13).

A `while cursor <op> bound:` loop whose cursor is a local name terminates only if every path through the body that comes back to
the loop test moves the cursor towards the bound.  For each such loop the body is enumerated (sa/paths.py, one iteration), the value
of the cursor at the end of the iteration is propagated in terms of its value at the start (sa/symreplay.py) and the difference is
normalised to a polynomial (sa/sym.py).  The iteration makes progress when the constant term has the right sign and is non-zero and
no other term can pull the other way: every other atom must be a non-negative quantity (a value unpacked with an unsigned struct
code, byte2int(..), len(..)) with a coefficient of the same sign.  A path that reaches the back-edge without provable progress
(`continue` placed before the advance, an advance by an amount that may be 0) is reported: on such input the loop never ends and
the thread (or the event loop shared by all connections) is gone.
"""
import ast
import re

from .common import U, annotate, contradictory
from .sym import Poly, NotInt


def cursor_loops(fn):
    """(while node, cursor name, direction +1/-1) for the loops of fn controlled by a comparison of a local name"""
    out = []
    for n in ast.walk(fn.node):
        if not isinstance(n, ast.While):
            continue
        t = n.test
        if isinstance(t, ast.Compare) and len(t.ops) == 1:
            l, op, r = t.left, t.ops[0], t.comparators[0]
            if isinstance(l, ast.Name) and isinstance(op, (ast.Lt, ast.LtE)):
                out.append((n, l.id, +1))
            elif isinstance(l, ast.Name) and isinstance(op, (ast.Gt, ast.GtE)):
                out.append((n, l.id, -1))
            elif isinstance(r, ast.Name) and isinstance(op, (ast.Gt, ast.GtE)) and not isinstance(l, ast.Name):
                out.append((n, r.id, +1))
            elif isinstance(r, ast.Name) and isinstance(op, (ast.Lt, ast.LtE)) and not isinstance(l, ast.Name):
                out.append((n, r.id, -1))
            elif isinstance(l, ast.Name) and isinstance(op, ast.NotEq):
                out.append((n, l.id, 0))
    return out


_SIGNED = re.compile(r"unpack(?:_from)?\(\s*['\"][^'\"]*[bhilqfde][^'\"]*['\"]")


def _nonneg_atom(a):
    """an atom of the normal form that denotes a quantity >= 0: unsigned unpack results, byte2int / len / ord values"""
    if _SIGNED.search(a):
        return False
    return any(k in a for k in ('unpack', 'byte2int(', 'len(', 'ord('))


def progress(delta, direction):
    """is `delta` (cursor_end - cursor_start) provably > 0 (direction +1) / < 0 (direction -1)?"""
    if delta is None:
        return False
    if direction < 0:
        delta = -delta
    c = delta.t.get((), 0)
    if c <= 0:
        return False
    for k, v in delta.t.items():
        if k == ():
            continue
        if v < 0 or not all(_nonneg_atom(a) for a in k):
            return False
    return True


def check_function(ck, cx, fn, cls, rule, why):
    """obligations for the cursor loops of one function; returns the number of back-edge paths examined"""
    n = 0
    nz = cx.nz(fn.mod, cls)
    for loop, var, direction in cursor_loops(fn):
        ck.saw('functions', fn.qn)
        for p in cx.enum_region(fn, cls, loop.body):
            st = annotate(p, heap=False)
            if contradictory(p):
                continue
            if p.exit not in (None, 'continue'):
                continue        # break / return / raise: the loop is left
            n += 1
            final = st.loc.get((0, var))
            try:
                delta = (nz.norm(final) - Poly.atom(var)) if final is not None else Poly.const(0)
            except NotInt:
                delta = None
            ok = progress(delta, direction) if direction else (delta is not None and delta.const_value() not in (None, 0))
            conds = [('%s is %s' % (U(getattr(e, '_sub', None) or e.node)[:50], e.a)) for e in p.ev if e.kind == 'cond'][:3]
            ck.ob(rule, fn.qn, 'every path back to `while %s` moves %s %s' % (U(loop.test), var, 'up' if direction > 0 else ('down' if direction < 0 else '')), ok,
                  detail='loop-no-progress %s %s' % (var, 'continue' if p.exit == 'continue' else 'fallthrough'), loc=cx.floc(fn, loop),
                  message='%s: a path through the body of `while %s` (%s) returns to the loop test with %s changed by %s: for such input the loop '
                          'never ends — %s' % (fn.qn, U(loop.test), '; '.join(conds) or 'no branch', var, delta if delta is not None else 'an amount that is not decidable', why))
    return n


def rule_cursor_loops(ck, cx, rule, classes, why, floor, methods=('decode', 'encode', 'execute', 'calculateRtuFrameSize')):
    ck.rule(rule, 'every path through the body of a cursor-controlled while loop in the codecs that returns to the loop test advances the cursor by a provably positive amount')
    n = nl = 0
    seen = set()
    for k in classes:
        for m in methods:
            fn = cx.idx.find_method(k, m)
            if fn is None or fn.qn in seen:
                continue
            seen.add(fn.qn)
            # the population the rule ranges over: the loops of the codec methods.  `for` loops over a range / a sequence end by
            # construction; `while` loops are decided path by path.  (The floor is on the loops, not on the number of paths through
            # them, which a refactoring changes freely.)
            nl += sum(1 for x in ast.walk(fn.node) if isinstance(x, (ast.While, ast.For)))
            n += check_function(ck, cx, fn, fn.cls or k, rule, why)
    ck.obligations.append((rule, 'codec loops', '%d back-edge paths of cursor-controlled while loops examined' % n, True))
    ck.floor(rule, nl, floor, 'loops in the codec methods (for loops end by construction, while loops are decided per back-edge path)')
