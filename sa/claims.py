"""Per-property claim texts used to generate MANIFEST.json (tools/gen_manifest.py)."""

CLAIMS = {
    'C18': {
        'text': 'Decides, for every path of the anchored datastore functions, the shape of the address arithmetic: '
                'the acceptance region of sequential validate, slice bounds of get/set, the sparse range/subset test, '
                'the zero-mode offset and table selection of the slave context, and routing / id interval of the server '
                'context. These are necessary conditions of the property that hold or fail for all inputs at once; '
                'operation histories are not decided.',
        'note': 'Python slice/dict/set semantics trusted; only the in-memory blocks and contexts named in the anchors are analysed.',
        'technique': 'path enumeration + affine constraint normal forms (static)',
    },
}

_PENDING = 'check not built yet in this revision (planned, see DESIGN.md §2)'
NOT_APPLICABLE = {('C%02d' % i): _PENDING for i in range(1, 21) if ('C%02d' % i) not in CLAIMS}
