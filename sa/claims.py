"""Per-property claim texts used to generate MANIFEST.json (tools/gen_manifest.py)."""

CLAIMS = {
    'C18': {
        'text': 'Decides, for every path of the anchored datastore functions, the shape of the address arithmetic: '
                'the acceptance region of sequential validate, slice bounds of get/set, the sparse range/subset test, '
                'the zero-mode offset and table selection of the slave context, and routing / id interval of the server '
                'context. These are necessary conditions of the property that hold or fail for all inputs at once; '
                'operation histories are not decided.',
        'note': 'Python slice/dict/set semantics trusted; only the in-memory blocks and contexts named in the anchors are analysed.',
        'technique': 'path enumeration + affine constraint normal forms (static)',
    },
    'C04': {
        'text': 'Decides on every path of the ten data-access execute() methods: fc->table map equals the spec data model, reads '
                'return getValues(fc, validated address, validated count), writes store the request values at the validated '
                'address, FC23 writes before it reads, responses echo the spec fields, the FC22 stored value has the spec truth '
                'table, and validate/get/set of the slave context share one address transform. Necessary structural conditions; '
                'request histories and "latest write wins" are not decided.',
        'note': 'In-memory ModbusSlaveContext only; struct and Python list semantics trusted; C18 decides block arithmetic.',
        'technique': 'path enumeration with value propagation + bitwise truth table + sibling comparison (static)',
    },
    'C05': {
        'text': 'Decides for all paths of the data-access execute() methods that an accepted request satisfies exactly the spec '
                'quantity intervals and byte-count relations, that guard / address failures answer 03 / 02 with the request '
                'function code, that every setValues is dominated by every guard and by validate(fc, same address, number of '
                'values written), that no path writes and then answers an exception, that unknown codes yield exception 01 and '
                'that every front-end maps a datastore exception to 04. Boundary sweeps over concrete stores are not run.',
        'note': 'Attribute<->wire binding of guarded fields is decided by C01/C02; block range arithmetic by C18. Three genuine '
                'defects (FC5 value word, FC15 quantity) are listed in known_findings.jsonl.',
        'technique': 'guard/dominance analysis over enumerated paths, interval + affine normal forms (static)',
    },
}

_PENDING = 'check not built yet in this revision (planned, see DESIGN.md §2)'
NOT_APPLICABLE = {('C%02d' % i): _PENDING for i in range(1, 21) if ('C%02d' % i) not in CLAIMS}
