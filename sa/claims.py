"""Per-property claim texts used to generate MANIFEST.json (tools/gen_manifest.py)."""

CLAIMS = {
    'C18': {
        'text': 'Decides, for every path of the anchored datastore functions, the shape of the address arithmetic: '
                'the acceptance region of sequential validate, slice bounds of get/set, the sparse range/subset test, '
                'the zero-mode offset (an explicit zero_mode argument, False included, is honoured) and table selection of the slave context, routing / id interval of the server context, and storage isolation (default blocks fresh per table and per context, constructors copy their initial values). These are necessary conditions of the property that hold or fail for all inputs at once; '
                'operation histories are not decided.'
                ' No sharing idiom (dict.fromkeys over a mutable value, [x]*n) builds the default tables; blocks and contexts own their state per instance.'
                ' zero_mode defaults to the current Defaults.ZeroMode.',
        'note': 'Python slice/dict/set semantics trusted; only the in-memory blocks and contexts named in the anchors are analysed.',
        'technique': 'path enumeration + affine constraint normal forms (static)',
    },
    'C04': {
        'text': 'Decides on every path of the ten data-access execute() methods: fc->table map equals the spec data model, reads '
                'return getValues(fc, validated address, validated count), writes store the request values at the validated '
                'address, FC23 writes before it reads, responses echo the spec fields, the FC22 stored value has the spec truth '
                'table, and validate/get/set of the slave context share one address transform, and the four tables of a context are distinct objects by default, and block getValues/setValues touch exactly the addressed cells. Necessary structural conditions; '
                'request histories and "latest write wins" are not decided.'
                ' Echo fields of write responses keep a 0 argument; contexts and blocks own their tables per instance.'
                ' The accessors of the slave context write no attribute of the context; zero_mode defaults to the current Defaults.ZeroMode (read at construction).'
                ' `context or default` cannot replace an application context (shared with C10 R7).',
        'note': 'In-memory ModbusSlaveContext only; struct and Python list semantics trusted; C18 decides block arithmetic.',
        'technique': 'path enumeration with value propagation + bitwise truth table + sibling comparison (static)',
    },
    'C05': {
        'text': 'Decides for all paths of the data-access execute() methods that an accepted request satisfies exactly the spec '
                'quantity intervals and byte-count relations, that guard / address failures answer 03 / 02 with the request '
                'function code, that every setValues is dominated by every guard and by validate(fc, same address, number of '
                'values written), that no path writes and then answers an exception, that unknown codes yield exception 01 that every front-end maps a datastore exception to 04, and that the block validate() predicates behind the range guard accept a range iff every addressed cell exists. Boundary sweeps over concrete stores are not run.'
                ' The server decoder owns its tables (a function registered on another server is still answered with 01).'
                " doException() builds the exception answer from the request's own function code and ids; the RTU length oracle sizes every request up to the 256-byte ADU limit (shared with C03)."
                ' A normal answer is given only on paths that passed validate() for the addressed range.'
                ' IllegalFunctionRequest is built from the received function code; reset() of a block does not move the window validate() tests.'
                ' zero_mode defaults to the current Defaults.ZeroMode (read at construction, never bound in a signature).'
                ' Every class lookupPduClass can return knows its RTU frame size, so an unknown function code reaches the decoder and is answered with exception 01.',
        'note': 'Attribute<->wire binding of guarded fields is decided by C01/C02; block range arithmetic by C18. Three genuine '
                'defects (FC5 value word, FC15 quantity) are listed in known_findings.jsonl.',
        'technique': 'guard/dominance analysis over enumerated paths, interval + affine normal forms (static)',
    },
    'C09': {
        'text': 'Enumerates every path through the four execute copies and six send copies of the seven front-ends and decides: '
                'exactly one send per path except broadcast / ignored absent unit, at most one transport write per send and only '
                'under should_respond with the bytes of framer.buildPacket, ids copied before send, response classes carry the '
                'request function/sub-function code, transport writes reachable only through send<-execute<-framer callback, '
                'per-connection framer creation, processIncomingPacket call signatures, no deferred scheduling on the response path, and (datagram front-ends) the destination of every reply traced back to the source address of the datagram that carried this request, one datagram per framer call, coherent framer state between calls, and decoder.register() keeping the built-in sub-function dispatch.'
                ' The asyncio handler is constructed with, and bound to, the server that accepted the connection; the server keeps the context object it was given.'
                ' The threaded front-end asks the socket for at least one whole ADU per read; the RTU length oracle sizes maximum-size requests.'
                ' No framer decision is taken on the chunk just received (shared with C06 R5).'
                ' The exception response to an unserviceable request carries the received function code; a one-frame-per-call framer keeps nothing behind a skipped frame.'
                ' The missing-slave / broadcast options default to the current Defaults values (read at construction).',
        'note': 'request.execute may raise any Exception, context lookup NoSuchSlaveException; other statements non-raising. '
                'Byte-exact output streams over request histories are not decided.',
        'technique': 'per-path effect counting over interprocedural path enumeration + who-may-call + signature conformance (static)',
    },
    'C10': {
        'text': 'Decides the unit-filter decision table rows the property fixes, that every non-broadcast path executes once against '
                'context[request.unit_id], that the broadcast branch (iff broadcast_enable and unit 0) iterates context.slaves() and executes in every iteration, once each, without sending, the gateway exception / silence for absent units, that every receive loop passes '
                'context.slaves()/context.single and admits unit 0 under broadcast and only then, the server-context routing/id interval, that contexts do not share default blocks, and that no truthiness test can replace the context handed to a server by a default one.'
                ' The asyncio handler is bound per instance to the server that created it; contexts and blocks own their tables per instance.'
                " slaves() lists every hosted unit on every return path; doException() keeps the request's unit and transaction ids."
                " header['uid'] is parsed from the same version of the receive buffer as the bytes handed to the decoder."
                ' No store or forwarding context keeps a mutable default argument; the missing-slave / broadcast options are read at construction.'
                ' context.slaves() is read inside the receive-loop iteration that hands the chunk to the framer.',
        'note': 'Non-interference between unit datastores at run time follows from these routing facts plus C05 R2; it is not itself decided.',
        'technique': 'decision-table enumeration + path routing analysis + sibling agreement (static)',
    },
    'C12': {
        'text': 'Exception-flow containment: in each sync and asyncio receive loop no exception raised by the framer call or the '
                'transport read can leave the loop, and the handler resets the framer or ends the connection (a handler task shared by all peers of a datagram endpoint must not end); datastore mutators are '
                'reachable only through Request.execute <- front-end execute; framers/decoders never touch datastores; framers hold no '
                'class-level mutable state and every connection owns its framer; a framer path that delivers a message without a successful checkFrame is accepted only when restricted to function codes >= 0x80 (they decode to a request that touches no datastore); decode() of every write request reads exactly the declared fields; a framer shared by all peers of a datagram endpoint keeps nothing of an undelivered datagram (with an inductively proved entry invariant of the socket framer). Thorough tier cross-checks the Twisted reactor '
                'containment assumption against the installed Twisted sources.'
                ' Cursor loops of the request decoders advance on every path back to the loop test (no request can spin a server thread / event loop); decoder and framer state is per instance; asyncio handlers are bound to their server.'
                ' The threaded front-end reads at least a whole ADU per call; hexlify_packets and the __str__ of the library exceptions are total (no TypeError is raised inside an except branch of a serving loop).'
                ' A one-frame-per-call framer keeps nothing behind a frame it skips (no request is executed a read late).'
                ' The block validate() predicates are part of the write guard (C05 R7 imported).',
        'note': 'Statements other than the framer call / transport read are treated as non-raising; Twisted containment is an assumption in the quick tier.',
        'technique': 'exception-flow analysis over enumerated paths + call-graph who-may-call (static)',
    },
    'C17': {
        'text': 'Sibling cross-check: the normalised execute / send / receive-loop summaries of all seven front-end variants are compared '
                'with the reference (sync stream handler); any divergence in exception->response mapping, id copies, send count, context '
                'key, should_respond gate, payload source or framer-call arguments is reported. Datagram front-ends hand the framer one datagram per call. Stream receive loops must not reset the framer on an iteration without a fault, for every reachable state of their loop-carried flags (fixpoint over the loop body). Broadcast rows are exempt (C10).'
                ' The asyncio handler reads its server from an instance attribute bound by every constructor path to the server that created it.'
                " The threaded front-end's read size covers an ADU like the other front-ends; a response class declared should_respond = False stays unsendable on every constructor path."
                ' No front-end stores anything derived from received traffic in its own attributes outside connection set-up.'
                ' After a framer exception every connection-oriented front-end ends the connection as the reference does.'
                ' No front-end freezes the missing-slave / broadcast policy at import time while its siblings read it at construction.'
                ' slaves() hands every listener its own fresh unit list (shared with C10 R11).',
        'note': 'Decides agreement of the code summaries, not byte-identical outputs over histories or interleavings.',
        'technique': 'cross-checking sibling implementations via path summaries (static)',
    },
    'C06': {
        'text': 'Enumerates every interprocedural path of processIncomingPacket (TCP, RTU, ASCII, binary; callees inlined) and decides '
                'four necessary conditions of chunking independence: deliveries lie inside a loop that continues after a delivery; on '
                'every path that takes a data-absence outcome (length too small / end delimiter not found) nothing is discarded, raised '
                'or delivered afterwards; header truthiness after construction equals that after reset when code branches on it; sizing errors on partial data cannot escape; plus coherence of the state carried between calls (a cached header is reset whenever bytes are dropped from the front of the buffer, addToFrame only appends, no branch looks at the chunk just received). Eight genuine defects of the pinned tree are listed as known findings.'
                ' A header field that holds a slice of the receive buffer is taken in the call that reads it; framers own their header per instance.'
                ' hexlify_packets (evaluated on every reset / processing path) is total on byte strings; the RTU length oracle is a function of the frame bytes only.'
                ' After a frame for a foreign unit was skipped the frame loop goes on to the frames behind it.'
                ' A framer that handles one frame per call leaves nothing buffered behind a frame it skips.'
                ' The readiness test of the delimiter framers is monotone under appending (shared with C11).'
                ' advanceFrame consumes exactly the frame that was handed on (shared with C03 R2).',
        'note': 'Only explicit length / delimiter tests classify as data absence. Equality of delivered sequences over all chunkings is not decided.',
        'technique': 'interprocedural path enumeration with effect classification (buffer shrink / delivery / raise) (static)',
    },
    'C07': {
        'text': 'Decides that every path to a delivery passes the true outcome of checkFrame and of checkCRC/checkLRC (MBAP length '
                'check with the exact constant on TCP), that the checksum input range starts at the unit byte and ends where the '
                'delivered PDU ends on the same buffer version, that the check value is read from the two bytes right after it, and that '
                'checkCRC/checkLRC are equalities with the CRC constants 0xFFFF/0xA001.'
                ' On TCP every registered decode() consumes exactly the buffer the MBAP length announced or bounds its reads by len(buffer) (19 known findings).'
                ' An exception raised while a delivered frame is decoded never ends in a message handed to the callback.'
                ' The iteration in which checkFrame() fails empties the buffer or leaves it untouched; it never consumes part of the damaged frame and carries on.',
        'note': 'Error-detection power of CRC-16/LRC and the arithmetic inside computeCRC/computeLRC are outside static reach.',
        'technique': 'must-pass-through (dominance on enumerated paths) + affine slice-range comparison with versioned buffer (static)',
    },
    'C11': {
        'text': 'Decides progress conditions per failure kind on RTU/ASCII/binary: after a failed integrity check, after a foreign-unit '
                'frame and when garbage precedes a start delimiter the buffer shrinks before the call returns; receive loops reset the framer or end the connection after a framer exception; the garbage skip cuts at the first start delimiter; state carried between calls stays coherent (cached header reset on every front drop, addToFrame only appends). Liveness over all futures and the two-frame bound are not decided.'
                ' The serial client drains stale input before every request on every framing (shared with C13).'
                ' Every class lookupPduClass can return has a frame size the RTU oracle can compute (no exception other than the caught IndexError leaves it); hexlify_packets is total, so resetFrame() always clears the buffer.'
                ' The readiness test that gates the garbage skip of the delimiter framers is monotone under appending bytes.'
                ' resetFrame() of every framer leaves the receive buffer empty on every path.'
                ' resetFrame() re-initialises every attribute the receive-side methods of the framer assign.',
        'note': 'Necessary conditions only; RTU in-stream resynchronisation is not decided.',
        'technique': 'path enumeration + effect-after-event rules (static)',
    },
    'C08': {
        'text': 'Decides the pairing structure of ModbusTransactionManager.execute: under which key the received message is filed '
                '(its own id vs. a key forced from the request), whether reply transaction id / function code are ever compared '
                'with the request, that the unit filter is request.unit_id, that the framed bytes are those received in this call, '
                'that no reachable fallback fetches under a foreign key, that a fresh id is allocated and stale framer bytes are cleared before transmitting; a TCP read of unknown size ends only on its deadline; a first read that is not exactly min_size long raises (so the connection is closed); the bytes sent are buildPacket(request) of the same call; the TCP read returns only bytes received in that call. Two genuine defects are listed as known findings.'
                ' ClientDecoder.decode contains whatever the reply codecs raise; client decoder tables and manager bookkeeping are per instance.'
                ' An exchange that ended in a transport fault leaves no open connection behind (shared with C13); decode() of the response classes reads the spec layout (shared with C01; two known findings mirrored).'
                " header[len] of the delimiter framers is the position of the reply's own (first) end delimiter (shared with C03)."
                ' No response / exception class can be falsy while the manager tests the picked-up reply for truth (shared with C01 R14).'
                ' The synchronous client files replies in a table keyed by transaction id on every constructor path.',
        'note': 'Structural necessary conditions; reply contents and connection histories are not explored.',
        'technique': 'key-provenance / must-compare rule over region-scoped path enumeration (static)',
    },
    'C13': {
        'text': 'Loop-variant analysis of the retry loop (initial value retries + 1, > 0 test, exactly one decrement per back-edge, one '
                '_transact per iteration, no other repeated sender), the retry decision table enumerated over the loop-body paths '
                'against the documented options (a reply counts as the caller\'s own only under equality of unit ids), exception-flow from _recv/_send through _transact, the five framers and execute '
                '(what can escape a client call), the clean-exit state / close-on-fault discipline, that the serial client drains stale input before every write for every framing, that a short or empty first read raises, and that the time budget of the client polling loops is fixed before the loop, that every iteration of the RTU send wait loop sets the awaited state or waits on the deadline, and that no transport method closes the socket on a normally returning path.'
                ' ClientDecoder.decode contains every codec exception; cursor loops of the response decoders advance on every path; manager bookkeeping is per instance.'
                ' A read of unknown length asks for at least one whole ADU; hexlify_packets and exception texts are total; what an earlier exchange left in the framer is dropped before the next request (shared with C08).'
                ' client.connect() precedes the transmission inside every attempt (the fault handler of the previous attempt closed the transport).'
                ' A cached header is reset whenever bytes are dropped from the front of the buffer (shared with C06 R6).'
                ' The retry policy and time budget default to the current Defaults values (read at construction).'
                ' decode_data() of every framer reports only fields it parsed (an empty reply carries no unit / length).',
        'note': 'Wall-clock bounds of blocking transport calls and the correctness of a following transaction are not decided. '
                'Six genuine defects are listed as known findings.',
        'technique': 'loop-variant extraction + decision-table enumeration + interprocedural exception-flow summaries (static)',
    },
    'C15': {
        'text': 'Lock discipline: one lock created once in __init__, execute() runs entirely under `with self.<lock>`, every statement '
                'with a call or a store lies inside the region, transaction-manager methods touching the client are reachable only '
                'from the region, the public request API touches no transport method outside it, no second lock / wait / release '
                'inside the region.'
                ' The state the lock protects belongs to the manager instance.'
                ' connect() precedes the transmission inside the locked region on every attempt (shared with C13 R20).'
                ' An empty / short first read raises, so the transport is closed before the lock is released (shared with C13 R6 / R4).',
        'note': 'GIL atomicity of single statements assumed; interleavings are not explored. One genuine defect (connect() before the lock) is a known finding.',
        'technique': 'lock-scope / who-may-call analysis over AST and class-level call graph (static)',
    },
    'C16': {
        'text': 'Decides on every path of the Twisted client protocol: id provenance (getNextTID -> request -> registration key) and '
                'ordering before buildPacket, 16-bit id arithmetic, routing by reply.transaction_id with removal before callback, the registry returning only the entry stored under the requested id, '
                'dropping of unsolicited replies, connectionLost clearing the flag before errback-ing a snapshot of all pending entries, '
                'failed deferred when not connected, FIFO append/pop(0), and the manager selected by a test on the final framer object.'
                ' The pending-request registry belongs to the manager instance.'
                ' Protocol objects own their framer and registry per instance; the receive call admits every reply in a segment (one known finding: replies are filtered by the unit of the first frame).'
                ' Every received chunk reaches the framer unmodified on every normally returning path of dataReceived.'
                ' The FIFO pick-up treats its argument as opaque (connectionLost hands it the stored deferreds).',
        'note': 'Deferred semantics are Twisted\'s; more than 65535 outstanding requests are out of scope. These rules are regression guards (all hold today).',
        'technique': 'dataflow / ordering rules over enumerated paths (static)',
    },
    'C19': {
        'text': 'Pair table over all 13 add_*/decode_* pairs: same struct format character (checked against the type\'s documented '
                'character), same path (direct with the configured byte order vs. through the word helpers), decoder advance = '
                'calcsize and slice [pointer-n:pointer]; WC table = calcsize; the two word helpers are compared as transformations '
                '(split into network-order words, reverse iff wordorder Little, re-pack per word with the byte order) which makes them '
                'an involution pair; register transport formats, build() padding, to_string() = join of the current payload on every path, reset() emptying it, and the string format length taken from the bytes that are packed.'
                ' The builder owns its payload list; build() is verified by folding its loop range and slice bounds for payload lengths 0..40.'
                ' The bit helpers behind add_bits / decode_bits return freshly built lists and are not memoised.'
                ' The numeric add_* methods pack the value they are given, unchanged.'
                ' make_byte_string() encodes text as UTF-8.',
        'note': 'struct is trusted for value-level round trips; these rules decide the layout agreement for all values at once.',
        'technique': 'writer/reader pair table + sibling transformation comparison via value propagation (static)',
    },
    'C01': {
        'text': 'Layout conformance for all classes and all values at once: the decoder tables are const-evaluated and checked for '
                'exhaustiveness / injectivity / subclassing; the writer summary of every encode() (field order, widths, endianness, '
                'byte-count expressions, bit lists through pack_bitstring, repeats) is compared with a spec-derived layout table; the '
                'reader summary of every decode() (offset, width, target attribute, loop start/stride/iteration count) is compared '
                'with the same table; dispatch dataflow of both _helper functions, including that a sub-function / MEI-type class looked up in a table is tested against None and not for truthiness (sub-function 0 is valid). Message constructors must not store a mutable default argument and must keep a 0 argument of an integer field; decoder.register() must not replace an existing sub-function table; the bit-list helpers are undecorated and return freshly built lists. Five genuine defects are known findings.'
                ' Decoder tables are owned by the decoder instance (register() on one decoder cannot change another).'
                ' No decoder path refuses a PDU for its length alone: length guards ahead of the function-table lookup are evaluated for every legal length 1..253.'
                ' No registered message class (nor a package base) defines __len__ / __bool__ while the decoders test the fresh instance for truth; IllegalFunctionRequest is always built from the received function code.'
                ' register() writes the (function, sub-function) entry on every path; the bit helpers do not modify their argument on any path.'
                ' BinaryPayloadBuilder.build() yields whole two-byte elements for the skip_encode paths (shared with C19 R3).',
        'note': 'pack_bitstring/unpack_bitstring arithmetic and struct are trusted; value ranges are not decided. The MEI object list is decided by C20.',
        'technique': 'abstract interpretation to wire-layout summaries compared with frozen spec tables; constant folding of decoder tables (static)',
    },
    'C02': {
        'text': 'Writer/reader agreement computed directly between each encode() summary and the matching decode() summary (independent '
                'of the spec table), purity of encode (no attribute modified in place without a reset in the same call), decode not '
                'accumulating, and losslessness of re-classing by sub-function code (no constructor-only state read after the swap; the dispatch is reached for every sub-function code, 0 included), a leading field that decode stores in an attribute is encoded from the message and not from a constant, no constructor stores a mutable default argument, and decoder.register() keeps the existing sub-function tables.'
                ' Decoder tables are owned by the decoder instance, so registering a class elsewhere cannot change what a round trip returns.'
                ' The MEI object list is read as it is written (verdict of C20 R3 imported).'
                ' The same truthiness condition holds for round trips through the decoders.',
        'note': 'struct trusted for value equality. Five genuine defects are known findings (four asymmetric pairs, one accumulation pinned by a test).',
        'technique': 'writer/reader layout-summary comparison + reaching-definition style purity rule (static)',
    },
    'C03': {
        'text': 'Writer summaries of the five buildPacket methods are compared with the specified ADU layouts; receive-side agreement is '
                'decided by affine arithmetic on the summaries (advanceFrame consumes exactly the built packet length given the meaning '
                'of the header length, getFrame starts at the function-code offset and ends before the check value, MBAP header parse '
                'format/binding = build format/binding, populateResult copies the ids, every MBAP length 2..254 is accepted, with default options no framer reads a header key it never defines, receive-side struct codes are the send-side codes, a one-byte TLS PDU is a complete frame); the RTU length oracle (_rtu_frame_size, '
                '_rtu_byte_count_pos, custom size functions) is compared with the spec layout of every class reachable through '
                'lookupPduClass; transforms applied on send need an inverse on receive; checksum comparison shape and CRC constants.'
                ' The sub-function dispatch that gives a delivered message its type reaches every registered code (shared with C01).'
                ' register() adds every sub-function class to the dispatch table (shared with C01 R7).',
        'note': 'Numerical correctness of computeCRC/computeLRC (hence the on-wire CRC byte order) and payload-content sweeps are not decided. Three known findings.',
        'technique': 'wire-layout summaries + affine length arithmetic + declaration-vs-layout cross-check (static)',
    },
    'C14': {
        'text': 'For every data-access request the affine form of get_response_pdu_size() is compared with 1 + the length of the encode '
                'layout of the response class its execute() returns under the constructor binding; diagnostic predictions are compared '
                'with the number of reply words per sub-function (Modbus-Plus statistics table const-folded); the per-framer overhead, '
                'exception length, min_size and function-code peek tables are compared with the buildPacket layout summaries; the no-response bookkeeping that selects the read-everything mode lists a unit exactly on an empty reply and releases it on any non-empty one.'
                ' The list of silent units belongs to one transaction manager.'
                ' The size _recv computed is the size passed to the transport read on every path of the synchronous clients.'
                ' On the exception-reply path the second read asks for _calculate_exception_length() - min_size bytes.'
                ' _transact reads the reply with the predicted length unchanged (a local echo is a read of its own).'
                ' The exception test of _recv compares the function code read from the reply on every path of a known framing.',
        'note': 'Assumes getValues(fc, a, n) returns n values; binary overhead exact only without delimiter escaping. Two known findings (Modbus Plus predictions).',
        'technique': 'affine comparison of prediction functions with layout-summary lengths (static)',
    },
    'C20': {
        'text': 'Decides by constant/affine evaluation that the largest PDU the paging code can emit (fc + header layout length + largest '
                'object total admitted by the budget test) is <= 253 and uses the whole PDU; that on every emitting path the budget is '
                'charged, and the length byte carries, the length of the very payload that is emitted; the progress condition (largest '
                'object that fits an empty page vs. 245); the continuation dataflow (next_object_id / more_follows / object count / header '
                'packed after the objects / decode object loop); and the category id sets of the identity factory, constant-folded for every start id and both outcomes of the start-object-populated test.'
                ' The identity store hands out and stores the configured objects unchanged; one known finding: all ModbusDeviceIdentification instances share one class-level object table.'
                ' The identity constructor stores the configured objects themselves.'
                ' The TCP receiver accepts the MBAP length of a completely filled page (shared with C03 R2).',
        'note': 'Completeness and exactly-once over whole continuation chains for all identities are not decided. One known finding (245-byte object never fits).',
        'technique': 'constant/affine evaluation of the budget arithmetic + path-wise accounted-vs-emitted comparison + constant folding of id sets (static)',
    },
}

_PENDING = 'check not built yet in this revision (planned, see DESIGN.md §2)'
NOT_APPLICABLE = {('C%02d' % i): _PENDING for i in range(1, 21) if ('C%02d' % i) not in CLAIMS}
