"""Instance ownership of mutable state (shared by several properties).

Rule: an attribute X that methods of a class mutate IN PLACE through `self` (self.X[k] = v, self.X.append(..), del self.X[k],
self.X[k][j] = v, an alias `t = self.X; t[k] = v`, ...) must be bound to the instance by the constructor: on every normally
returning path of the __init__ chain `self.X` is assigned, and what it is assigned is not a reference to class-level or
module-level state.  Otherwise the object mutated is the one stored on the class (or the module) and every instance of the class in
the process sees the mutation -- two decoders share registered functions, two transaction managers share the list of silent units,
two servers share a datastore.

Exempt by construction: classes that derive from the package's Singleton (at most one instance exists) and attributes whose
class-level value is provably immutable AND that are only rebound, never mutated in place.
Nothing is executed; the constructor chain is enumerated by sa/paths.py with base initialisers inlined.
"""
import ast

from .common import U, annotate

MUTATORS = {'append', 'extend', 'insert', 'remove', 'pop', 'popitem', 'clear', 'update', 'setdefault', 'add', 'discard',
            'sort', 'reverse', 'appendleft', 'popleft', 'extendleft', '__setitem__', '__delitem__'}
FRESH_CALLS = {'dict', 'list', 'set', 'bytearray', 'OrderedDict', 'defaultdict', 'deque', 'Queue', 'RLock', 'Lock'}


def _self_attr_root(node):
    """self.X, self.X[..], self.X[..][..]  ->  'X' ; else None"""
    while isinstance(node, ast.Subscript):
        node = node.value
    if isinstance(node, ast.Attribute) and isinstance(node.value, ast.Name) and node.value.id == 'self':
        return node.attr
    return None


def class_level(idx, cls):
    """name -> (defining class, value node or None) for every name bound in the class bodies along the MRO (first wins)"""
    out = {}
    for k in idx.mro(cls):
        for s in k.body:
            tgts, val = [], None
            if isinstance(s, ast.Assign):
                val = s.value
                for t in s.targets:
                    tgts += list(t.elts) if isinstance(t, (ast.Tuple, ast.List)) else [t]
            elif isinstance(s, ast.AnnAssign) and s.value is not None:
                tgts, val = [s.target], s.value
            for t in tgts:
                if isinstance(t, ast.Name) and t.id not in out:
                    whole = isinstance(s, ast.Assign) and not any(isinstance(x, (ast.Tuple, ast.List)) for x in s.targets)
                    out[t.id] = (k, val if whole else None)
    return out


def immutable_value(v):
    """provably immutable class-level value (constants, tuples of them, names in CAPS are not assumed immutable)"""
    if v is None:
        return False
    if isinstance(v, ast.Constant):
        return True
    if isinstance(v, ast.Tuple):
        return all(immutable_value(x) for x in v.elts)
    if isinstance(v, ast.UnaryOp) and isinstance(v.operand, ast.Constant):
        return True
    if isinstance(v, ast.Call) and isinstance(v.func, ast.Name) and v.func.id in ('frozenset', 'int', 'str', 'bytes', 'float', 'bool', 'tuple') and not v.args:
        return True
    return False


def inplace_mutations(idx, cls, skip=('__init__',)):
    """{attr: [(func, node, how)]} -- in-place mutations through self in the methods of the class (MRO-resolved), the
    constructor chain itself excepted (it builds the object)"""
    out = {}
    seen = set()
    for k in idx.mro(cls):
        for name, fn in k.methods.items():
            if name in seen:
                continue
            seen.add(name)
            if name in skip:
                continue
            alias = {}          # local name -> attr it aliases (t = self.X / t = self.X[k] / t = self.X.setdefault(..))
            for n in ast.walk(fn.node):
                if isinstance(n, ast.Assign) and len(n.targets) == 1 and isinstance(n.targets[0], ast.Name):
                    v = n.value
                    if isinstance(v, ast.Call) and isinstance(v.func, ast.Attribute) and v.func.attr in ('setdefault', 'get'):
                        v = v.func.value
                    r = _self_attr_root(v)
                    if r is not None:
                        alias[n.targets[0].id] = r

            def root(node):
                r = _self_attr_root(node)
                if r is not None:
                    return r
                while isinstance(node, ast.Subscript):
                    node = node.value
                if isinstance(node, ast.Name) and node.id in alias:
                    return alias[node.id]
                return None
            for n in ast.walk(fn.node):
                hits = []
                if isinstance(n, (ast.Assign, ast.AugAssign, ast.Delete)):
                    tg = n.targets if isinstance(n, (ast.Assign, ast.Delete)) else [n.target]
                    flat = []
                    for t in tg:
                        flat += list(t.elts) if isinstance(t, (ast.Tuple, ast.List)) else [t]
                    for t in flat:
                        if isinstance(t, ast.Subscript):
                            r = root(t)
                            if r is not None:
                                hits.append((r, 'item ' + ('deleted' if isinstance(n, ast.Delete) else 'assigned')))
                elif isinstance(n, ast.Call) and isinstance(n.func, ast.Attribute) and n.func.attr in MUTATORS:
                    r = root(n.func.value)
                    if r is not None:
                        hits.append((r, '.%s()' % n.func.attr))
                for r, how in hits:
                    out.setdefault(r, []).append((fn, n, how))
    return out


def _is_class_ref(e, cls, idx):
    """Cls / type(self) / self.__class__ / cls"""
    if isinstance(e, ast.Name):
        if e.id == 'cls':
            return True
        r = idx.lookup(cls.mod, e.id)
        return bool(r) and r[0] == 'class'
    if isinstance(e, ast.Call) and isinstance(e.func, ast.Name) and e.func.id == 'type' and len(e.args) == 1:
        return True
    if isinstance(e, ast.Attribute) and e.attr == '__class__':
        return True
    return False


def shared_origin(cx, cls, fn, value, clsvars):
    """why the value assigned to self.X is not the instance's own object: a reference to a class attribute, to class-level state
    through self, or to a mutable module global; None when it is (or may be) a private object"""
    if value is None:
        return None
    v = value
    if isinstance(v, ast.BoolOp):
        for x in v.values:
            o = shared_origin(cx, cls, fn, x, clsvars)
            if o:
                return o
        return None
    if isinstance(v, ast.IfExp):
        return shared_origin(cx, cls, fn, v.body, clsvars) or shared_origin(cx, cls, fn, v.orelse, clsvars)
    if isinstance(v, ast.Attribute):
        if _is_class_ref(v.value, cls, cx.idx):
            return 'the class attribute `%s`' % U(v)
        if isinstance(v.value, ast.Name) and v.value.id == 'self' and v.attr in clsvars and not immutable_value(clsvars[v.attr][1]):
            return 'the class-level object `%s`' % U(v)
    if isinstance(v, ast.Name) and fn is not None and v.id not in fn.params:
        r = cx.idx.lookup(fn.mod, v.id)
        if r and r[0] == 'const' and not immutable_value(r[1]):
            return 'the module-level object `%s`' % v.id
    return None


def is_singleton(idx, cls):
    return any(k.name == 'Singleton' for k in idx.mro(cls)) or 'Singleton' in idx.extern_bases(cls)


def check_class(ck, cx, cls, rule, why, only=None, stateful=()):
    """obligations for one class; returns the number of mutated attributes examined.  `stateful`: attributes that hold a stateful
    collaborator (a framer, a transaction manager) -- calling its methods changes it, so it is treated like state mutated in place"""
    idx = cx.idx
    if is_singleton(idx, cls):
        return 0
    muts = inplace_mutations(idx, cls)
    if only is not None:
        muts = {a: m for a, m in muts.items() if a in only}
    for a in stateful:
        if a not in muts:
            for k_ in idx.mro(cls):
                for fn_ in k_.methods.values():
                    if fn_.name == '__init__':
                        continue
                    for n_ in ast.walk(fn_.node):
                        if isinstance(n_, ast.Call) and isinstance(n_.func, ast.Attribute) and isinstance(n_.func.value, ast.Attribute) \
                                and isinstance(n_.func.value.value, ast.Name) and n_.func.value.value.id == 'self' and n_.func.value.attr == a and a not in muts:
                            muts[a] = [(fn_, n_, '.%s()' % n_.func.attr)]
    if not muts:
        return 0
    clsvars = class_level(idx, cls)
    init = idx.find_method(cls, '__init__')
    # class-level rebinding anywhere in the class (Cls.X = ..., type(self).X = ...): X lives on the class
    class_stores = {}
    for k in idx.mro(cls):
        for fn in k.methods.values():
            for n in ast.walk(fn.node):
                if isinstance(n, ast.Assign):
                    for t in n.targets:
                        for el in (t.elts if isinstance(t, (ast.Tuple, ast.List)) else [t]):
                            if isinstance(el, ast.Attribute) and _is_class_ref(el.value, cls, idx):
                                class_stores.setdefault(el.attr, (fn, n))
    # what every normally returning constructor path binds on the instance
    bound_all, origins = None, {}
    if init is not None:
        members = set()
        for k in idx.mro(cls):
            members |= {m.qn for m in k.methods.values()}
        for p in cx.enum(init, cls, max_depth=3, default_kwargs=True, max_paths=20000):
            if p.exit and p.exit[0] == 'exc':
                continue
            annotate(p, heap=False)
            bound = set()
            for ev in p.ev:
                if ev.kind == 'assign' and isinstance(ev.a, ast.Attribute) and isinstance(ev.a.value, ast.Name) and ev.a.value.id == 'self' \
                        and ev.frame.func is not None and ev.frame.func.qn in members:
                    bound.add(ev.a.attr)
                    val = getattr(ev, '_sub', None)
                    if val is None and isinstance(ev.node, ast.Assign) and not isinstance(ev.node.targets[0], (ast.Tuple, ast.List)):
                        val = ev.node.value
                    o = shared_origin(cx, cls, ev.frame.func, val, clsvars)
                    if o:
                        origins.setdefault(ev.a.attr, (o, ev.frame.func, ev.node))
                elif ev.kind == 'call' and isinstance(ev.node.func, ast.Name) and ev.node.func.id == 'setattr' and len(ev.node.args) == 3 \
                        and isinstance(ev.node.args[0], ast.Name) and ev.node.args[0].id == 'self' and isinstance(ev.node.args[1], ast.Constant):
                    bound.add(ev.node.args[1].value)
            bound_all = bound if bound_all is None else (bound_all & bound)
    bound_all = bound_all or set()
    n = 0
    for attr in sorted(muts):
        fn0, node0, how0 = muts[attr][0]
        plain = attr
        # source-level private names: the class body binds `__x`, methods say self.__x -- same spelling, no mangling needed here
        on_class = plain in clsvars or plain in class_stores
        n += 1
        ck.saw('classes', cls.qn)
        if attr in origins:
            o, ofn, onode = origins[attr]
            ck.ob(rule, cls.qn, 'self.%s, mutated in place by %s, is the instance\'s own object' % (attr, fn0.name), False,
                  detail='instance-state-aliases-shared %s' % attr, loc=cx.floc(ofn, onode),
                  message='%s binds self.%s to %s and %s.%s then mutates it in place (%s): every instance of %s in the process works on the same '
                          'object — %s' % (ofn.qn, attr, o, cls.name, fn0.name, how0, cls.name, why))
            continue
        if attr in bound_all:
            ck.ob(rule, cls.qn, 'self.%s, mutated in place by %s, is bound per instance on every constructor path' % (attr, fn0.name), True)
            continue
        if on_class:
            k, v = clsvars.get(plain, (None, None))
            where = ('bound in the body of class %s' % k.name) if k is not None else ('stored on the class by %s' % class_stores[plain][0].qn)
            if k is not None and immutable_value(v) and plain not in class_stores and init is not None and _assigned_somewhere(idx, cls, attr):
                # an immutable class-level default that some method replaces on the instance before mutating: undecided here
                ck.ob(rule, cls.qn, 'self.%s: immutable class default replaced per instance outside the constructor' % attr, True)
                continue
            ck.ob(rule, cls.qn, 'self.%s, mutated in place by %s, is bound per instance on every constructor path' % (attr, fn0.name), False,
                  detail='class-level-state-mutated-through-self %s' % attr, loc=cx.floc(fn0, node0),
                  message='%s.%s mutates self.%s in place (%s), but %s is %s and the constructor does not bind a fresh object to the instance '
                          'on every path: all instances of %s in the process share it — %s' % (cls.name, fn0.name, attr, how0, attr, where, cls.name, why))
        else:
            # created lazily by another method, or inherited from a class outside the package: not class-level, nothing shared
            ck.ob(rule, cls.qn, 'self.%s is not class-level state (created outside the constructor)' % attr, True)
    return n


def _assigned_somewhere(idx, cls, attr):
    for k in idx.mro(cls):
        for fn in k.methods.values():
            if fn.name == '__init__':
                continue
            for n in ast.walk(fn.node):
                if isinstance(n, ast.Assign):
                    for t in n.targets:
                        if isinstance(t, ast.Attribute) and isinstance(t.value, ast.Name) and t.value.id == 'self' and t.attr == attr:
                            return True
    return False


def rule_instance_owned(ck, cx, rule, class_qns, why, floor, only=None, stateful=()):
    ck.rule(rule, 'state that methods mutate in place through self (%s) is bound to a fresh object per instance by every constructor path, '
                  'never left on the class or aliased to class/module-level objects' % ', '.join(q.rsplit('.', 1)[-1] for q in class_qns))
    n = 0
    for q in class_qns:
        n += check_class(ck, cx, cx.idx.cls(q), rule, why, only=only.get(q) if isinstance(only, dict) else only, stateful=stateful)
    ck.floor(rule, n, floor, 'attributes mutated in place through self')
    return n


DECODERS = ('pymodbus.factory.ServerDecoder', 'pymodbus.factory.ClientDecoder')
MANAGERS = ('pymodbus.transaction.ModbusTransactionManager', 'pymodbus.transaction.DictTransactionManager',
            'pymodbus.transaction.FifoTransactionManager')
FRAMERS = ('pymodbus.framer.socket_framer.ModbusSocketFramer', 'pymodbus.framer.rtu_framer.ModbusRtuFramer',
           'pymodbus.framer.ascii_framer.ModbusAsciiFramer', 'pymodbus.framer.binary_framer.ModbusBinaryFramer',
           'pymodbus.framer.tls_framer.ModbusTlsFramer')
STORES = ('pymodbus.datastore.context.ModbusSlaveContext', 'pymodbus.datastore.context.ModbusServerContext',
          'pymodbus.datastore.store.ModbusSequentialDataBlock', 'pymodbus.datastore.store.ModbusSparseDataBlock')
REMOTE = ('pymodbus.datastore.remote.RemoteSlaveContext',)
PAYLOAD = ('pymodbus.payload.BinaryPayloadBuilder',)
IDENTITY = ('pymodbus.device.ModbusDeviceIdentification',)


# ------------------------------------------------------------------------------------------------------------------------------
# sharing idioms: expressions that put ONE object under several keys / into several slots

def _mutable_expr(v):
    """may the expression denote a mutable object whose identity matters? (displays, comprehensions, calls, names, attributes;
    constants, tuples of constants and None do not)"""
    return not immutable_value(v)


def sharing_idioms(node):
    """[(node, text)] for the sharing idioms inside `node`:
       dict.fromkeys(keys, V)        -- every key maps to the one object V
       [V] * n  /  (V,) * n          -- n references to the one object V
       itertools.repeat(V) / repeat(V, n)"""
    out = []
    for n in ast.walk(node):
        if isinstance(n, ast.Call) and isinstance(n.func, ast.Attribute) and n.func.attr == 'fromkeys' and len(n.args) >= 2 and _mutable_expr(n.args[1]):
            out.append((n, 'dict.fromkeys(.., %s) maps every key to one object' % U(n.args[1])[:50]))
        elif isinstance(n, ast.BinOp) and isinstance(n.op, ast.Mult):
            for side in (n.left, n.right):
                if isinstance(side, (ast.List, ast.Tuple)) and len(side.elts) == 1 and _mutable_expr(side.elts[0]) and not isinstance(side.elts[0], ast.Name):
                    if isinstance(side.elts[0], (ast.Call, ast.Dict, ast.List, ast.Set, ast.ListComp, ast.DictComp, ast.SetComp)):
                        out.append((n, '[%s] * n holds n references to one object' % U(side.elts[0])[:50]))
        elif isinstance(n, ast.Call) and (U(n.func) in ('repeat', 'itertools.repeat')) and n.args and isinstance(n.args[0], (ast.Call, ast.Dict, ast.List, ast.Set)):
            out.append((n, 'repeat(%s) yields one object again and again' % U(n.args[0])[:50]))
    return out


def rule_no_sharing_idiom(ck, cx, rule, class_qns, why, methods=('__init__',)):
    """constructors of the given classes contain no sharing idiom over mutable values"""
    n = 0
    for q in class_qns:
        k = cx.idx.cls(q)
        for m in methods:
            fn = cx.idx.find_method(k, m)
            if fn is None:
                continue
            n += 1
            ck.saw('functions', fn.qn)
            found = sharing_idioms(fn.node)
            for node, text in found:
                ck.ob(rule, fn.qn, 'no object is stored under several keys / slots', False, detail='sharing-idiom %s' % text.split('(')[0].strip(),
                      loc=cx.floc(fn, node), message='%s: %s — %s' % (fn.qn, text, why))
            if not found:
                ck.ob(rule, fn.qn, 'no sharing idiom (fromkeys / [x]*n / repeat over a mutable value) in the constructor', True)
    return n


# ------------------------------------------------------------------------------------------------------------------------------
# memoisation: a cached result is sound only for a pure function of hashable arguments that hands out immutable values

MEMO_DECORATORS = ('lru_cache', 'cache', 'cached_property', 'memoize', 'memoized', 'cached')


def _memo_decorator(d):
    t = U(d.func if isinstance(d, ast.Call) else d)
    return t.split('.')[-1] in MEMO_DECORATORS


def unsafe_memo(fn):
    """why a memoising decorator on `fn` is unsound, or None: it is a method (the result depends on the receiver's state, which is
    not part of the key, or the receiver is kept alive and shared), it returns a mutable container (every caller gets the SAME
    object), or it has no decorator at all"""
    decos = [d for d in fn.node.decorator_list if _memo_decorator(d)]
    if not decos:
        return None
    if fn.cls is not None and not fn.is_staticmethod:
        reads = sorted({n.attr for n in ast.walk(fn.node) if isinstance(n, ast.Attribute) and isinstance(n.value, ast.Name) and n.value.id in ('self', 'cls')})
        return 'it is a method: the cached value ignores later changes of self.%s' % (', self.'.join(reads[:3]) if reads else '<state>')
    for r in ast.walk(fn.node):
        if isinstance(r, ast.Return) and r.value is not None:
            v = r.value
            names = {}
            for n in ast.walk(fn.node):
                if isinstance(n, ast.Assign) and len(n.targets) == 1 and isinstance(n.targets[0], ast.Name):
                    names.setdefault(n.targets[0].id, []).append(n.value)
            vs = [v] + (names.get(v.id, []) if isinstance(v, ast.Name) else [])
            if any(isinstance(x, (ast.List, ast.Dict, ast.Set, ast.ListComp, ast.DictComp, ast.SetComp)) or
                   (isinstance(x, ast.Call) and U(x.func) in ('list', 'dict', 'set', 'bytearray')) for x in vs):
                return 'it returns a mutable container: every caller receives the same object and a caller that modifies it changes the result for all later calls'
    return None


def rule_no_unsafe_memo(ck, cx, rule, module_names, why):
    """no function of the given modules carries a memoising decorator that is unsound for it (expected count on a clean tree: 0;
    an embedded positive example is analysed on every run)"""
    n = 0
    for mn in module_names:
        m = cx.idx.mod(mn)
        fns = list(m.funcs.values()) + [f for c in m.classes.values() for f in c.methods.values()]
        for fn in fns:
            n += 1
            bad = unsafe_memo(fn)
            if bad:
                ck.ob(rule, fn.qn, 'no unsound memoisation', False, detail='unsound-memoisation', loc=cx.floc(fn),
                      message='%s is memoised but %s — %s' % (fn.qn, bad, why))
    ck.saw('modules', ','.join(module_names))
    ck.ob(rule, 'memoisation', '%d functions of %s carry no unsound memoising decorator' % (n, ', '.join(module_names)), True)
    # hand-written caches: a module-level container that function bodies fill or rebind is state shared by every object and call
    for mn in module_names:
        m = cx.idx.mod(mn)
        glob = {}
        for st_ in m.tree.body:
            if isinstance(st_, ast.Assign) and len(st_.targets) == 1 and isinstance(st_.targets[0], ast.Name):
                v = st_.value
                if isinstance(v, (ast.Dict, ast.List, ast.Set, ast.DictComp, ast.ListComp, ast.SetComp)) or \
                        (isinstance(v, ast.Call) and U(v.func).split('.')[-1] in ('dict', 'list', 'set', 'OrderedDict', 'defaultdict', 'WeakKeyDictionary', 'WeakValueDictionary', 'deque', 'bytearray')):
                    glob[st_.targets[0].id] = st_
        fns = list(m.funcs.values()) + [f for c in m.classes.values() for f in c.methods.values()]
        for fn in fns:
            local = set(fn.params)
            declared = set()
            for x in ast.walk(fn.node):
                if isinstance(x, ast.Global):
                    declared |= set(x.names)
                elif isinstance(x, ast.Assign):
                    for t in x.targets:
                        for el in (t.elts if isinstance(t, (ast.Tuple, ast.List)) else [t]):
                            if isinstance(el, ast.Name):
                                local.add(el.id)
                elif isinstance(x, (ast.For, ast.comprehension)):
                    for el in ast.walk(x.target):
                        if isinstance(el, ast.Name):
                            local.add(el.id)
            local -= declared
            for x in ast.walk(fn.node):
                hit = None
                if isinstance(x, (ast.Assign, ast.AugAssign, ast.Delete)):
                    tg = x.targets if isinstance(x, (ast.Assign, ast.Delete)) else [x.target]
                    for t in tg:
                        base = t
                        while isinstance(base, ast.Subscript):
                            base = base.value
                        if isinstance(base, ast.Name) and base.id in glob and base.id not in local and (isinstance(t, ast.Subscript) or base.id in declared):
                            hit = base.id
                elif isinstance(x, ast.Call) and isinstance(x.func, ast.Attribute) and x.func.attr in MUTATORS:
                    base = x.func.value
                    while isinstance(base, ast.Subscript):
                        base = base.value
                    if isinstance(base, ast.Name) and base.id in glob and base.id not in local:
                        hit = base.id
                if hit:
                    ck.ob(rule, fn.qn, 'no module-level container is filled or rebound from a function body', False,
                          detail='module-level-cache %s' % hit, loc=cx.floc(fn, x),
                          message='%s writes the module-level container `%s`: what one object / call leaves there is seen by every other object and later '
                                  'call in the process — %s' % (fn.qn, hit, why))
    # positive example
    from .loader import Func, Mod
    src = "import functools\nclass K:\n    @functools.lru_cache(maxsize=None)\n    def size(self):\n        return self._n\n@functools.lru_cache()\ndef f(x):\n    out = []\n    return out\n"
    tree = ast.parse(src)
    k = tree.body[1]
    m0 = Mod('example', '<example>', tree, src)
    from .loader import Cls
    kc = Cls(m0, k)
    flagged = unsafe_memo(kc.methods['size']) is not None and unsafe_memo(Func(m0, tree.body[2])) is not None
    ck.positive(rule, flagged, 'lru_cache on a method / on a function returning a list')
    return n

TWISTED_CLIENTS = ('pymodbus.client.asynchronous.twisted.ModbusClientProtocol', 'pymodbus.client.asynchronous.twisted.ModbusTcpClientProtocol',
                   'pymodbus.client.asynchronous.twisted.ModbusSerClientProtocol')
SYNC_CLIENTS = ('pymodbus.client.sync.ModbusTcpClient', 'pymodbus.client.sync.ModbusTlsClient', 'pymodbus.client.sync.ModbusUdpClient',
                'pymodbus.client.sync.ModbusSerialClient')


def rule_no_mutable_default_stored(ck, cx, rule, class_qns, why, floor=1):
    """a constructor that stores a mutable DEFAULT ARGUMENT ([] / {} / set() / list() ...) in the instance makes every object built
    without that argument share one container"""
    ck.rule(rule, 'constructors of %s do not store a mutable default argument in the instance' % ', '.join(q.rsplit('.', 1)[-1] for q in class_qns))
    from .rules.c02 import _may_be_default
    seen, n = set(), 0
    for q in class_qns:
        k = cx.idx.cls(q)
        for c in cx.idx.mro(k):
            init = c.methods.get('__init__')
            if init is None or init.qn in seen or not c.qn.startswith('pymodbus.'):
                continue
            seen.add(init.qn)
            ck.saw('functions', init.qn)
            a = init.node.args
            pos = a.posonlyargs + a.args
            muts = {}
            for arg, d in list(zip(pos[len(pos) - len(a.defaults):], a.defaults)) + [(x, y) for x, y in zip(a.kwonlyargs, a.kw_defaults) if y is not None]:
                if isinstance(d, (ast.List, ast.Dict, ast.Set)) or (isinstance(d, ast.Call) and isinstance(d.func, ast.Name)
                                                                      and d.func.id in ('list', 'dict', 'set', 'bytearray') and not d.args):
                    muts[arg.arg] = d
            n += 1
            if not muts:
                continue
            for p in cx.enum(init, c, max_depth=1):
                annotate(p, heap=False)
                for ev in p.ev:
                    v = getattr(ev, '_sub', None)
                    if ev.kind == 'assign' and isinstance(ev.a, ast.Attribute) and ev.frame.fid == 0 and U(ev.a.value) == 'self' and v is not None:
                        for prm in muts:
                            ck.ob(rule, init.qn, 'self.%s does not alias the mutable default of `%s`' % (ev.a.attr, prm), not _may_be_default(v, prm),
                                  detail='mutable-default-stored %s=%s' % (ev.a.attr, prm), loc=cx.floc(init, ev.node),
                                  message='%s stores its default argument %s=%s in self.%s: every object built without that argument shares one container — %s'
                                          % (init.qn, prm, U(muts[prm]), ev.a.attr, why))
    ck.floor(rule, n, floor, 'constructors examined for stored mutable defaults')
    return n
