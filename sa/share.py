"""Re-reporting the findings of one property's rules under a rule of another property that rests on the same
structural condition (the finding keeps its construct and detail, the message says why it matters there)."""
import importlib


_CACHE = {}


def import_findings(ck, src_pid, dst_rule, rules, why, detail_prefixes=None, construct_contains=None):
    """run the rules of property `src_pid` in a scratch Check and copy the findings (and obligations) of `rules`
    whose detail starts with one of `detail_prefixes` / whose construct contains one of `construct_contains`"""
    if getattr(ck, 'no_shares', False):
        return 0            # we are ourselves being run as the source of a share: own rules only, no cascade
    mod = importlib.import_module('sa.rules.' + src_pid.lower())
    # the source property's own rules are evaluated once per process, however many of its rules are imported (same tree, same result)
    key = (src_pid, ck.pid, ck.tier)
    sub = _CACHE.get(key)
    if sub is None:
        sub = type(ck)(ck.pid, ck.tier)
        sub.no_shares = True
        try:
            mod.run(sub, 'quick')
        except Exception as e:   # noqa
            ck.broken.append('shared rules of %s crashed: %r' % (src_pid, e))
            return 0
        _CACHE[key] = sub

    def keep(rule, construct, text):
        if rule not in rules:
            return False
        if construct_contains and not any(c in construct for c in construct_contains):
            return False
        if detail_prefixes and not any(str(text).startswith(p) for p in detail_prefixes):
            return False
        return True
    n = 0
    for o in sub.obligations:
        if o[0] in rules and (not construct_contains or any(c in str(o[1]) for c in construct_contains)):
            ck.obligations.append((dst_rule,) + tuple(o[1:]))
            n += 1
    known = set()
    for f in sub.findings:
        if keep(f.rule, f.construct, f.detail):
            ck.finding(dst_rule, f.construct, f.detail, f.loc, f.message + ' — ' + why)
    ck.broken += [b for b in sub.broken]
    return n
