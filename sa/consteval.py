"""L1: compile-time constant folding of input-free expressions.

Only literals, operators, displays, comprehensions over constant iterables,
names/attribute chains that resolve to module- or class-level constants, and a
whitelist of pure builtins are interpreted.  No function of the analysed
package that takes run-time data is ever evaluated.
"""
import ast
import operator as op
import struct

from .loader import Cls, Func, Mod


class NotConst(Exception):
    pass


_BIN = {ast.Add: op.add, ast.Sub: op.sub, ast.Mult: op.mul, ast.FloorDiv: op.floordiv,
        ast.Div: op.truediv, ast.Mod: op.mod, ast.Pow: op.pow,
        ast.BitOr: op.or_, ast.BitAnd: op.and_, ast.BitXor: op.xor,
        ast.LShift: op.lshift, ast.RShift: op.rshift}
_CMP = {ast.Eq: op.eq, ast.NotEq: op.ne, ast.Lt: op.lt, ast.LtE: op.le, ast.Gt: op.gt,
        ast.GtE: op.ge, ast.In: lambda a, b: a in b, ast.NotIn: lambda a, b: a not in b,
        ast.Is: op.is_, ast.IsNot: op.is_not}
_PURE = {'range': range, 'len': len, 'dict': dict, 'list': list, 'tuple': tuple, 'set': set,
         'sorted': sorted, 'sum': sum, 'min': min, 'max': max, 'int': int, 'bool': bool,
         'str': str, 'reversed': lambda x: list(reversed(x)), 'enumerate': lambda *a: list(enumerate(*a)),
         'frozenset': frozenset, 'abs': abs, 'chr': chr, 'ord': ord, 'bytes': bytes,
         'float': float, 'round': round, 'zip': lambda *a: list(zip(*a))}
_PURE_QUAL = {'struct.calcsize': struct.calcsize, 'struct.pack': struct.pack,
              'calcsize': struct.calcsize}
_STR_METHODS = {'format', 'join', 'lower', 'upper', 'encode', 'strip', 'lstrip', 'rstrip',
                'startswith', 'endswith', 'split'}
_MAX_ITER = 70000


class ConstEval:
    def __init__(self, idx):
        self.idx = idx
        self._depth = 0

    def ev(self, expr, mod, cls=None, env=None):
        self._depth += 1
        try:
            if self._depth > 60:
                raise NotConst('recursion')
            return self._ev(expr, mod, cls, env or {})
        finally:
            self._depth -= 1

    def try_ev(self, expr, mod, cls=None, env=None, default=None):
        try:
            return self.ev(expr, mod, cls, env)
        except NotConst:
            return default
        except (TypeError, ValueError, KeyError, IndexError, ZeroDivisionError, AttributeError, struct.error):
            return default

    def _name(self, name, mod, cls, env):
        if name in env:
            return env[name]
        if cls is not None:
            k, v = self.idx.find_attr(cls, name)
            if k is not None:
                return self.class_member(k, name)
        r = self.idx.lookup(mod, name)
        if r is None:
            if name in ('True', 'False', 'None'):
                return {'True': True, 'False': False, 'None': None}[name]
            raise NotConst('unresolved name %s' % name)
        if r[0] == 'const':
            return self.ev(r[1], r[2])
        if r[0] == 'class':
            return r[1]
        if r[0] == 'func':
            return r[1]
        raise NotConst('name %s is %s' % (name, r[0]))

    def class_member(self, k, name):
        """value of class-level name `name` of class k, including the class-body
        statements that update it after its first assignment (`.update`, `[k]=`)."""
        val = None
        found = False
        for s in k.body:
            if isinstance(s, ast.Assign) and any(isinstance(t, ast.Name) and t.id == name for t in s.targets):
                val = self.ev(s.value, k.mod, k)
                found = True
            elif found and isinstance(s, ast.Expr) and isinstance(s.value, ast.Call):
                c = s.value
                if (isinstance(c.func, ast.Attribute) and isinstance(c.func.value, ast.Name)
                        and c.func.value.id == name):
                    if c.func.attr == 'update' and isinstance(val, dict):
                        val = dict(val)
                        val.update(self.ev(c.args[0], k.mod, k))
                    elif c.func.attr in ('append',) and isinstance(val, list):
                        val = list(val) + [self.ev(c.args[0], k.mod, k)]
                    elif c.func.attr in ('extend',) and isinstance(val, list):
                        val = list(val) + list(self.ev(c.args[0], k.mod, k))
                    else:
                        raise NotConst('class-body mutation %s' % ast.unparse(c))
            elif found and isinstance(s, ast.Assign) and any(
                    isinstance(t, ast.Subscript) and isinstance(t.value, ast.Name) and t.value.id == name
                    for t in s.targets):
                t = s.targets[0]
                val = dict(val) if isinstance(val, dict) else list(val)
                val[self.ev(t.slice, k.mod, k)] = self.ev(s.value, k.mod, k)
        if not found:
            raise NotConst('no class member %s.%s' % (k.qn, name))
        return val

    def _ev(self, e, mod, cls, env):
        ev = lambda x: self.ev(x, mod, cls, env)
        if isinstance(e, ast.Constant):
            return e.value
        if isinstance(e, ast.Name):
            return self._name(e.id, mod, cls, env)
        if isinstance(e, ast.Attribute):
            # qualified pure function reference handled in Call
            base = ev(e.value)
            if isinstance(base, Cls):
                k, v = self.idx.find_attr(base, e.attr)
                if k is not None:
                    return self.class_member(k, e.attr)
                m = self.idx.find_method(base, e.attr)
                if m is not None:
                    return m
                raise NotConst('no attr %s.%s' % (base.qn, e.attr))
            raise NotConst('attribute of non-class %s' % ast.unparse(e))
        if isinstance(e, ast.BinOp):
            if type(e.op) in _BIN:
                a, b = ev(e.left), ev(e.right)
                if isinstance(e.op, ast.Mult) and isinstance(a, (list, str, bytes)) and isinstance(b, int) and b > _MAX_ITER:
                    raise NotConst('huge repeat')
                if isinstance(e.op, ast.Pow) and isinstance(b, int) and b > 64:
                    raise NotConst('huge pow')
                return _BIN[type(e.op)](a, b)
        if isinstance(e, ast.UnaryOp):
            v = ev(e.operand)
            if isinstance(e.op, ast.USub):
                return -v
            if isinstance(e.op, ast.UAdd):
                return +v
            if isinstance(e.op, ast.Not):
                return not v
            if isinstance(e.op, ast.Invert):
                return ~v
        if isinstance(e, ast.BoolOp):
            if isinstance(e.op, ast.And):
                v = True
                for x in e.values:
                    v = ev(x)
                    if not v:
                        return v
                return v
            v = False
            for x in e.values:
                v = ev(x)
                if v:
                    return v
            return v
        if isinstance(e, ast.Compare):
            left = ev(e.left)
            for o, c in zip(e.ops, e.comparators):
                right = ev(c)
                if not _CMP[type(o)](left, right):
                    return False
                left = right
            return True
        if isinstance(e, ast.IfExp):
            return ev(e.body) if ev(e.test) else ev(e.orelse)
        if isinstance(e, ast.Tuple):
            return tuple(ev(x) for x in e.elts)
        if isinstance(e, ast.List):
            return [ev(x) for x in e.elts]
        if isinstance(e, ast.Set):
            return set(ev(x) for x in e.elts)
        if isinstance(e, ast.Dict):
            return {ev(k): ev(v) for k, v in zip(e.keys, e.values)}
        if isinstance(e, ast.Subscript):
            base = ev(e.value)
            if isinstance(e.slice, ast.Slice):
                lo = ev(e.slice.lower) if e.slice.lower else None
                hi = ev(e.slice.upper) if e.slice.upper else None
                st = ev(e.slice.step) if e.slice.step else None
                return base[lo:hi:st]
            return base[ev(e.slice)]
        if isinstance(e, (ast.ListComp, ast.GeneratorExp, ast.SetComp, ast.DictComp)):
            return self._comp(e, mod, cls, env)
        if isinstance(e, ast.JoinedStr):
            out = ''
            for v in e.values:
                if isinstance(v, ast.Constant):
                    out += v.value
                else:
                    out += format(ev(v.value))
            return out
        if isinstance(e, ast.Call):
            return self._call(e, mod, cls, env)
        if isinstance(e, ast.Lambda):
            raise NotConst('lambda')
        raise NotConst(type(e).__name__)

    def _comp(self, e, mod, cls, env):
        out = []

        def rec(gi, env2):
            if gi == len(e.generators):
                if isinstance(e, ast.DictComp):
                    out.append((self.ev(e.key, mod, cls, env2), self.ev(e.value, mod, cls, env2)))
                else:
                    out.append(self.ev(e.elt, mod, cls, env2))
                return
            g = e.generators[gi]
            it = self.ev(g.iter, mod, cls, env2)
            if isinstance(it, range) and len(it) > _MAX_ITER:
                raise NotConst('huge range')
            for v in it:
                env3 = dict(env2)
                self._bind(g.target, v, env3)
                if all(self.ev(c, mod, cls, env3) for c in g.ifs):
                    rec(gi + 1, env3)
        rec(0, env)
        if isinstance(e, ast.SetComp):
            return set(out)
        if isinstance(e, ast.DictComp):
            return dict(out)
        return out

    def _bind(self, t, v, env):
        if isinstance(t, ast.Name):
            env[t.id] = v
        elif isinstance(t, (ast.Tuple, ast.List)):
            v = list(v)
            if len(v) != len(t.elts):
                raise NotConst('unpack arity')
            for a, b in zip(t.elts, v):
                self._bind(a, b, env)
        else:
            raise NotConst('bind target')

    def _call(self, e, mod, cls, env):
        ev = lambda x: self.ev(x, mod, cls, env)
        fn = e.func
        if e.keywords and not (isinstance(fn, ast.Name) and fn.id in ('dict', 'sorted')):
            raise NotConst('keywords in call')
        kw = {k.arg: ev(k.value) for k in e.keywords}
        if isinstance(fn, ast.Name):
            r = None if fn.id in env else self.idx.lookup(mod, fn.id)
            if fn.id in _PURE and r is None:
                args = [ev(a) for a in e.args]
                for a in args:
                    if isinstance(a, range) and len(a) > _MAX_ITER:
                        raise NotConst('huge range')
                return _PURE[fn.id](*args, **kw)
            if r and r[0] == 'extern' and r[1] == 'struct' and r[2] in ('pack', 'calcsize'):
                return getattr(struct, r[2])(*[ev(a) for a in e.args])
            if r and r[0] == 'extern' and r[1] == 'collections' and r[2] == 'OrderedDict' and len(e.args) <= 1:
                return dict(*[ev(a) for a in e.args])
            if r and r[0] == 'func' and not e.args and not e.keywords and not r[1].params:
                # a module-level helper without parameters whose body is `return <input-free expression>` (e.g. a blank header)
                body = [st for st in r[1].node.body if not (isinstance(st, ast.Expr) and isinstance(st.value, ast.Constant))]
                if len(body) == 1 and isinstance(body[0], ast.Return) and body[0].value is not None and not r[1].node.decorator_list:
                    return self.ev(body[0].value, r[1].mod, None, {})
            raise NotConst('call of %s' % fn.id)
        if isinstance(fn, ast.Attribute):
            q = ast.unparse(fn)
            if q == 'dict.fromkeys' and 1 <= len(e.args) <= 2 and 'dict' not in env and self.idx.lookup(mod, 'dict') is None:
                args = [ev(a) for a in e.args]
                if len(args) == 2 and not (args[1] is None or isinstance(args[1], (int, str, bytes, float, bool, tuple))):
                    raise NotConst('fromkeys over a mutable value')
                return dict.fromkeys(*args)
            if q in _PURE_QUAL:
                r = self.idx.lookup(mod, q.split('.')[0])
                if r and r[0] == 'module' and r[1] == 'struct':
                    return _PURE_QUAL[q](*[ev(a) for a in e.args])
            base = ev(fn.value)
            if isinstance(base, (str, bytes)) and fn.attr in _STR_METHODS:
                return getattr(base, fn.attr)(*[ev(a) for a in e.args])
            if isinstance(base, dict) and fn.attr in ('keys', 'values', 'items', 'get'):
                r = getattr(base, fn.attr)(*[ev(a) for a in e.args])
                return list(r) if fn.attr != 'get' else r
            raise NotConst('method call %s' % q)
        raise NotConst('call')
